"""Shared machinery for the /verif checks: scratch dirs, Go overlay runs, TLC runs,
trace validation, evidence and known-findings handling.

Verdict policy (DESIGN 2.5):
  exit 0  - all model configs pass, all real traces accepted
  exit 1  - a property predicate is false on an observation of the real code
            (prints VIOLATION property=<id> replay=<path>)
  exit 2  - infrastructure problem (build failure, TLC timeout, driver died ...)
"""
import json, os, re, shutil, subprocess, sys, time, hashlib, glob

VERIF = os.path.dirname(os.path.dirname(os.path.abspath(__file__)))
REPO = os.environ.get("VERIF_REPO", "/repo")
TLA_CP = "/opt/veriftools/tla/tla2tools.jar:/opt/veriftools/tla/CommunityModules-deps.jar"
NCPU = os.cpu_count() or 4


class Infra(Exception):
    """infrastructure failure -> exit 2"""


class Ctx:
    def __init__(self, pid, tier, seed, replay=None):
        self.pid, self.tier, self.seed, self.replay = pid, tier, seed, replay
        self.t0 = time.time()
        self.work = os.path.join(VERIF, ".work", "%s.%d" % (pid, os.getpid()))
        shutil.rmtree(self.work, ignore_errors=True)
        os.makedirs(self.work)
        self.states = 0          # distinct states over model configs
        self.transitions = 0     # states generated over model configs
        self.model_runs = []     # per-config summaries
        self.traces_validated = 0
        self.evaluations = 0
        self.signatures = set()
        self.samples = []
        self.violations = []     # (what, replay_path)
        self.known = []          # known-finding lines printed
        self.assumptions = []
        self.notes = {}
        self.exhaustive = False

    @property
    def quick(self):
        return self.tier == "quick"

    def log(self, *a):
        print("[%s %6.1fs]" % (self.pid, time.time() - self.t0), *a, flush=True)

    def sub(self, name):
        d = os.path.join(self.work, name)
        os.makedirs(d, exist_ok=True)
        return d

    def cleanup(self):
        shutil.rmtree(self.work, ignore_errors=True)

    # -- replay artefacts ---------------------------------------------------
    def save_replay(self, name, files):
        """copy artefact files into /verif/replays/<id>/<name>/ and return that path"""
        d = os.path.join(VERIF, "replays", self.pid, name)
        shutil.rmtree(d, ignore_errors=True)
        os.makedirs(d)
        for f in files:
            if f and os.path.exists(f):
                shutil.copy(f, d)
        return d

    def violation(self, what, replay_path):
        self.violations.append((what, replay_path))
        print("VIOLATION property=%s replay=%s" % (self.pid, replay_path), flush=True)
        print("  detail: %s" % what, flush=True)

    def known_finding(self, what):
        import re as _re
        line = "KNOWN-FINDING: property=%s %s" % (self.pid, _re.sub(r" \(trace line \d+\)", "", what))
        if line not in self.known:
            self.known.append(line)
            print(line, flush=True)


# ---------------------------------------------------------------------------
# Go side
# ---------------------------------------------------------------------------
def go_env(extra=None):
    env = dict(os.environ)
    env.update({"GOFLAGS": "-mod=mod", "GOPROXY": "off", "GOTOOLCHAIN": env.get("GOTOOLCHAIN", "auto"),
                "GONOSUMDB": "*", "GONOSUMCHECK": "1"})
    env.pop("GOSUMDB", None)
    if extra:
        env.update({k: str(v) for k, v in extra.items()})
    return env


def overlay_for(ctx, mapping):
    """mapping: {repo-relative target path: /verif-relative source path}. Returns overlay json path."""
    rep = {}
    for tgt, src in mapping.items():
        rep[os.path.join(REPO, tgt)] = os.path.join(VERIF, src)
    import tempfile
    fd, p = tempfile.mkstemp(prefix="overlay.", suffix=".json", dir=ctx.work)
    with os.fdopen(fd, "w") as f:
        json.dump({"Replace": rep}, f)
    return p


def harness_overlay(ctx, pkg, files=None):
    """Map every file of /verif/harness/<pkg>/ into /repo/<pkg>/ as zz_verif_<name>."""
    hdir = os.path.join(VERIF, "harness", pkg)
    m = {}
    for f in sorted(os.listdir(hdir)):
        if not f.endswith(".go"):
            continue
        if files and f not in files:
            continue
        m[os.path.join(pkg, "zz_verif_" + f)] = os.path.join("harness", pkg, f)
    return overlay_for(ctx, m)


def go_test(ctx, pkg, run, env=None, race=False, timeout=900, files=None, tags="verif", extra_args=None):
    """Run in-package harness tests of /verif/harness/<pkg> against /repo's working tree.
    Returns (rc, output). Raises Infra on build failure / timeout."""
    ov = harness_overlay(ctx, pkg, files)
    cmd = ["go", "test", "-overlay", ov, "-tags", tags, "-vet=off", "-count=1", "-v",
           "-run", run, "-timeout", "%ds" % timeout]
    if race:
        cmd.append("-race")
    if extra_args:
        cmd += extra_args
    cmd.append("./" + pkg + "/")
    e = go_env(env)
    e.setdefault("VERIF_SEED", str(ctx.seed))
    e.setdefault("VERIF_TIER", ctx.tier)
    t = time.time()
    try:
        p = subprocess.run(cmd, cwd=REPO, env=e, stdout=subprocess.PIPE, stderr=subprocess.STDOUT,
                           timeout=timeout + 120, text=True, errors="replace")
    except subprocess.TimeoutExpired:
        raise Infra("go test %s timed out" % pkg)
    out = p.stdout
    ctx.log("go test %s -run %s rc=%d (%.1fs)" % (pkg, run, p.returncode, time.time() - t))
    if "[build failed]" in out or "[setup failed]" in out or re.search(r"^# ", out, re.M) and p.returncode != 0 and "FAIL" not in out.replace("[build failed]", ""):
        raise Infra("build failed for %s:\n%s" % (pkg, out[-3000:]))
    return p.returncode, out


# ---------------------------------------------------------------------------
# TLC
# ---------------------------------------------------------------------------
class TlcResult:
    def __init__(self):
        self.rc = None
        self.out = ""
        self.generated = 0
        self.distinct = 0
        self.ok = False
        self.violated = None     # name of violated invariant/property
        self.error = None
        self.wall = 0.0
        self.depth = 0


def spec_scratch(ctx, families, name):
    """copy spec families (dirs under /verif/specs) into a fresh scratch dir"""
    d = ctx.sub("tlc_" + name)
    for fam in ["lib"] + list(families):
        src = os.path.join(VERIF, "specs", fam)
        for f in os.listdir(src):
            if f.endswith((".tla", ".cfg")):
                shutil.copy(os.path.join(src, f), d)
    return d


def run_tlc(ctx, families, module, cfg, workers=None, timeout=1200, env=None, extra=None,
            heap="8g", name=None, dfs=False, simulate=None, deadlock=True):
    name = name or cfg.replace(".cfg", "")
    d = spec_scratch(ctx, families, name)
    workers = workers or NCPU
    jopts = ["-Xss512m", "-Xmx" + heap, "-XX:+UseParallelGC"]
    if dfs:
        jopts.append("-Dtlc2.tool.queue.IStateQueue=StateDeque")
    cmd = ["java"] + jopts + ["-cp", TLA_CP, "tlc2.TLC", "-metadir", os.path.join(d, "meta"),
                              "-workers", str(workers), "-config", cfg]
    if not deadlock:
        cmd.append("-deadlock")
    if simulate:
        cmd += simulate
    if extra:
        cmd += extra
    cmd.append(module)
    e = dict(os.environ)
    e.pop("JAVA_TOOL_OPTIONS", None)
    if env:
        e.update({k: str(v) for k, v in env.items()})
    r = TlcResult()
    t = time.time()
    try:
        p = subprocess.run(cmd, cwd=d, env=e, stdout=subprocess.PIPE, stderr=subprocess.STDOUT,
                           timeout=timeout, text=True, errors="replace")
        r.rc, r.out = p.returncode, p.stdout
    except subprocess.TimeoutExpired as ex:
        r.rc, r.out = -9, (ex.stdout or b"").decode("utf8", "replace") if isinstance(ex.stdout, bytes) else (ex.stdout or "")
        r.error = "timeout"
    r.wall = time.time() - t
    m = re.findall(r"(\d+) states generated, (\d+) distinct states found", r.out)
    if m:
        r.generated, r.distinct = int(m[-1][0]), int(m[-1][1])
    m = re.search(r"The depth of the complete state graph search is (\d+)", r.out)
    if m:
        r.depth = int(m.group(1))
    m = re.search(r"Invariant (\S+) is violated", r.out)
    if m:
        r.violated = m.group(1)
    m2 = re.search(r"(?:Action property|Temporal properties?) (\S*) ?(?:is|were) violated", r.out)
    if m2 and not r.violated:
        r.violated = m2.group(1) or "temporal"
    if "Deadlock reached" in r.out and not r.violated:
        r.violated = "Deadlock"
    r.ok = (r.rc == 0 and "No error has been found" in r.out) or (simulate is not None and r.rc == 0)
    if not r.ok and not r.violated and not r.error:
        em = re.search(r"Error: (.*)", r.out)
        r.error = em.group(1) if em else "tlc rc=%s" % r.rc
    with open(os.path.join(d, "tlc.out"), "w") as f:
        f.write(r.out)
    r.dir = d
    return r


def model_check(ctx, families, module, cfg, expect_violation=None, **kw):
    """Run a design-level model config. It must pass (or must fail with the named
    property, for as-is configs documenting a known finding). Anything else is infra."""
    r = run_tlc(ctx, families, module, cfg, **kw)
    ctx.states += r.distinct
    ctx.transitions += r.generated
    ctx.model_runs.append({"config": cfg, "module": module, "generated": r.generated, "distinct": r.distinct,
                           "depth": r.depth, "wall_s": round(r.wall, 1),
                           "result": "ok" if r.ok else ("violated:%s" % r.violated if r.violated else "error:%s" % r.error)})
    ctx.log("TLC %s/%s: %s (%d generated, %d distinct, %.1fs)" % (module, cfg, ctx.model_runs[-1]["result"],
                                                                   r.generated, r.distinct, r.wall))
    if expect_violation:
        if r.violated != expect_violation:
            raise Infra("model %s expected to violate %s but got %s\n%s" % (cfg, expect_violation,
                                                                          ctx.model_runs[-1]["result"], r.out[-2000:]))
        return r
    if not r.ok:
        raise Infra("model config %s did not pass: %s\n%s" % (cfg, ctx.model_runs[-1]["result"], r.out[-3000:]))
    return r


def apalache_inductive(ctx, families, module, cfg, ind_init="IndInit", inv="IndInv", init="Init",
                       expect_not_inductive=False, timeout=900):
    """Discharge an inductive invariant with Apalache: Init => Inv (length 0) and IndInit /\ Next => Inv' (length 1).
    With expect_not_inductive the step must FAIL (a must-fail config guards against a vacuous IndInv).
    Anything other than the expected outcome is infrastructure, never a violation (no real-code observation is involved)."""
    d = spec_scratch(ctx, families, "apa_" + cfg.replace(".cfg", ""))
    e = dict(os.environ)
    e.pop("JAVA_TOOL_OPTIONS", None)
    def one(i, n):
        t = time.time()
        try:
            p = subprocess.run(["apalache-mc", "check", "--config=" + cfg, "--init=" + i, "--inv=" + inv, "--length=%d" % n,
                                "--out-dir=" + os.path.join(d, "out"), module],
                               cwd=d, env=e, stdout=subprocess.PIPE, stderr=subprocess.STDOUT, timeout=timeout, text=True, errors="replace")
            out = p.stdout
        except subprocess.TimeoutExpired:
            raise Infra("apalache timeout on %s/%s" % (module, cfg))
        ok = "EXITCODE: OK" in out and "The outcome is: NoError" in out
        bad = "EXITCODE: ERROR (12)" in out and "violated" in out
        return ok, bad, out, time.time() - t
    results = []
    steps = [(ind_init, 1)] if expect_not_inductive else [(init, 0), (ind_init, 1)]
    for i, n in steps:
        ok, bad, out, wall = one(i, n)
        res = "ok" if ok else ("violated" if bad else "error")
        ctx.model_runs.append({"config": cfg, "module": module, "tool": "apalache", "init": i, "inv": inv, "length": n,
                               "wall_s": round(wall, 1), "result": res})
        ctx.log("Apalache %s/%s init=%s inv=%s length=%d: %s (%.1fs)" % (module, cfg, i, inv, n, res, wall))
        results.append(res)
        if expect_not_inductive:
            if res != "violated":
                raise Infra("apalache: %s expected NOT to be inductive under %s but got %s\n%s" % (inv, cfg, res, out[-2000:]))
        elif res != "ok":
            raise Infra("apalache: %s/%s init=%s length=%d did not pass: %s\n%s" % (module, cfg, i, n, res, out[-3000:]))
    shutil.rmtree(os.path.join(d, "out"), ignore_errors=True)
    return results


def count_lines(path):
    n = 0
    with open(path, "rb") as f:
        for _ in f:
            n += 1
    return n


class TraceVerdict:
    def __init__(self):
        self.accepted = False
        self.violated = None    # invariant name
        self.line = None        # 1-based trace line at which the violation/stop happened
        self.known = []         # [(tag, line)] known-finding matches printed by the spec
        self.out = ""
        self.error = None
        self.wall = 0.0


def validate_trace(ctx, families, module, cfg, trace_path, timeout=1800, env=None, name=None, heap="8g",
                   dfs=False, workers=1):
    """Run a trace specification over an ndjson file recorded from the real code.
    The trace spec steps `l` through the file; property predicates are INVARIANTS (named), the
    POSTCONDITION demands that the whole file was consumed. Returns TraceVerdict."""
    e = {"VERIF_TRACE": trace_path}
    if env:
        e.update(env)
    r = run_tlc(ctx, families, module, cfg, workers=workers, timeout=timeout, env=e,
                name=name or ("trace_" + module), heap=heap, dfs=dfs, deadlock=False)
    v = TraceVerdict()
    v.out, v.wall = r.out, r.wall
    for m in re.finditer(r'<<"KNOWN", "([^"]+)", (\d+)>>', r.out):
        v.known.append((m.group(1), int(m.group(2))))
    lm = re.findall(r"^/\\ l = (\d+)", r.out, re.M)
    if r.ok:
        v.accepted = True
    elif r.violated:
        v.violated = r.violated
        v.line = int(lm[-1]) - 1 if lm else None     # l points at the NEXT line to consume
    else:
        pm = re.search(r'<<\s*"TRACE-STUCK",\s*(\d+)', r.out)
        if pm:
            v.violated = "TraceStuck"
            v.line = int(pm.group(1))
        else:
            v.error = r.error or "unknown TLC failure"
    ctx.log("trace %s (%s): %s in %.1fs" % (os.path.basename(trace_path), module,
            "accepted" if v.accepted else ("REJECTED %s at line %s" % (v.violated, v.line) if v.violated else "ERROR " + str(v.error)), r.wall))
    if v.error:
        raise Infra("trace validation failed to run (%s):\n%s" % (v.error, r.out[-3000:]))
    return v


# ---------------------------------------------------------------------------
# known findings / evidence
# ---------------------------------------------------------------------------
def load_known():
    p = os.path.join(VERIF, "KNOWN_FINDINGS.json")
    if not os.path.exists(p):
        return {"findings": [], "fixed": []}
    return json.load(open(p))


def known_for(pid):
    return [f for f in load_known().get("findings", []) if f["property"] == pid]


def read_ndjson(path, limit=None):
    out = []
    with open(path) as f:
        for i, l in enumerate(f):
            if limit is not None and i >= limit:
                break
            l = l.strip()
            if l:
                out.append(json.loads(l))
    return out


def write_evidence(ctx, rule, extra=None, level="model_checking"):
    cov = {
        "states": ctx.states, "transitions": ctx.transitions,
        "traces_validated_against_impl": ctx.traces_validated,
        "evaluations": ctx.evaluations,
        "distinct_nontrivial": len(ctx.signatures),
        "rule": rule,
        "samples": ctx.samples[:8] if ctx.samples else ["(none)"],
        "exhaustive": bool(ctx.exhaustive),
        "model_runs": ctx.model_runs,
    }
    cov.update(ctx.notes)
    if extra:
        cov.update(extra)
    ev = {"property_id": ctx.pid, "tier": ctx.tier, "seed": int(ctx.seed), "level": level,
          "coverage": cov, "assumptions": ctx.assumptions, "wall_s": round(time.time() - ctx.t0, 1),
          "violations": len(ctx.violations), "known_findings_reported": ctx.known}
    os.makedirs(os.path.join(VERIF, "evidence"), exist_ok=True)
    evdir = os.path.join(VERIF, "evidence")
    if REPO != "/repo":      # a run against a scratch copy (mutation study) must not replace the evidence of /repo itself
        evdir = os.path.join(VERIF, ".work", "evidence-of-scratch-runs")
        os.makedirs(evdir, exist_ok=True)
    with open(os.path.join(evdir, ctx.pid + ".json"), "w") as f:
        json.dump(ev, f, indent=1, sort_keys=True)
        f.write("\n")
