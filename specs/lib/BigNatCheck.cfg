SPECIFICATION Spec
INVARIANTS AddOK CmpOK SubOK MulOK MulSmallOK DivOK RoundTrip CarryOK
