---------------------------- MODULE BigNatCheck ----------------------------
(* Exhaustive cross-check of the limb operators against native arithmetic. *)
EXTENDS BigNat, TLC
VARIABLES x, y
Range == 0..130 \cup {9998, 9999, 10000, 10001, 19999, 20000, 39999, 40000}
Init == x \in Range /\ y \in Range
Next == UNCHANGED <<x, y>>
Spec == Init /\ [][Next]_<<x, y>>
A == FromInt(x)
B == FromInt(y)
Big == 9999 * 10000 + 9999
AddOK == ToInt(Add(A, B)) = x + y /\ IsNat(Add(A, B))
CmpOK == Cmp(A, B) = (IF x < y THEN -1 ELSE IF x > y THEN 1 ELSE 0)
SubOK == x >= y => (ToInt(Sub(A, B)) = x - y /\ IsNat(Sub(A, B)))
MulOK == ToInt(Mul(A, B)) = x * y /\ IsNat(Mul(A, B))
MulSmallOK == y < Base => ToInt(MulSmall(A, y)) = x * y
DivOK == (y > 0 /\ y < Base) => (ToInt(DivSmall(A, y)) = x \div y /\ ModSmall(A, y) = x % y)
RoundTrip == ToInt(FromInt(x)) = x /\ IsNat(A)
\* carry chains across three limbs
CarryOK == ToInt(Add(FromInt(Big), FromInt(x))) = Big + x /\ ToInt(Sub(FromInt(Big + x), FromInt(x))) = Big
=============================================================================
