------------------------------ MODULE TraceLib ------------------------------
(***************************************************************************)
(* Shared plumbing of every trace specification (DESIGN 2.1).              *)
(*  - the ndjson file recorded from the real code is named by the          *)
(*    environment variable VERIF_TRACE                                     *)
(*  - `l` (declared by the trace spec) is the index of the next line       *)
(*  - TLC register 1 keeps the high-water mark of consumed lines so that   *)
(*    acceptance does not depend on the search order                       *)
(***************************************************************************)
EXTENDS Integers, Sequences, TLC, Json, IOUtils

TraceFile == IOEnv.VERIF_TRACE
Trace == ndJsonDeserialize(TraceFile)
NLines == Len(Trace)

InitHW == TLCSet(1, 0)
Consumed(l) == TLCSet(1, IF TLCGet(1) > l THEN TLCGet(1) ELSE l)

\* POSTCONDITION: the whole file was explained by the trace spec
TraceAccepted ==
  IF TLCGet(1) = NLines THEN TRUE
  ELSE PrintT(<<"TRACE-STUCK", TLCGet(1) + 1, Trace[TLCGet(1) + 1]>>) /\ FALSE

\* a JSON array as a set
SetOf(seq) == {seq[k] : k \in 1..Len(seq)}
Has(rec, field) == field \in DOMAIN rec
=============================================================================
