---------------------------- MODULE FeedProps ----------------------------
(***************************************************************************)
(* L1 predicates for property C19 (event feeds).  Pure operators over an   *)
(* API-level observation; used both as invariants of the implementation-   *)
(* shaped model Feed.tla and on histories recorded from the real code by   *)
(* FeedTrace.tla.  Nothing here is stronger than the property statement.   *)
(*                                                                         *)
(* Observation of ONE send sigma of value v:                               *)
(*   subRetAtCall   - subscribers whose Subscribe had returned when        *)
(*                    Send(v) was called                                   *)
(*   unsubRetAtCall - subscribers whose Unsubscribe had returned when      *)
(*                    Send(v) was called                                   *)
(*   unsubCalledAtRet - subscribers whose Unsubscribe had been called when *)
(*                    Send(v) returned                                     *)
(*   subCalledAtRet - subscribers whose Subscribe had been called when     *)
(*                    Send(v) returned                                     *)
(*   dl[s]          - number of times v was put on s's channel             *)
(*   nsent          - Send's return value                                  *)
(***************************************************************************)
EXTENDS Integers, Sequences, FiniteSets

RECURSIVE SumOver(_, _)
SumOver(f, S) == IF S = {} THEN 0
                 ELSE LET x == CHOOSE y \in S : TRUE IN f[x] + SumOver(f, S \ {x})

\* Subscribers that MUST have received v exactly once.
Obliged(subRetAtCall, unsubCalledAtRet) == subRetAtCall \ unsubCalledAtRet

\* Subscribers that must NOT have received v at all.
Forbidden(allSubs, unsubRetAtCall, subCalledAtRet) ==
    unsubRetAtCall \cup (allSubs \ subCalledAtRet)

\* "delivered exactly once to each subscriber that subscribed before the send
\*  began and has not unsubscribed"; nobody ever gets it twice.
ExactlyOnce(allSubs, dl, subRetAtCall, unsubRetAtCall, unsubCalledAtRet, subCalledAtRet) ==
    /\ \A s \in allSubs : dl[s] <= 1
    /\ \A s \in Obliged(subRetAtCall, unsubCalledAtRet) : dl[s] = 1
    /\ \A s \in Forbidden(allSubs, unsubRetAtCall, subCalledAtRet) : dl[s] = 0

\* "the send reports the number of deliveries it made"
NsentIsDeliveries(allSubs, dl, nsent) == nsent = SumOver(dl, allSubs)

\* position of x in sequence q (0 if absent)
Pos(q, x) == IF \E k \in 1..Len(q) : q[k] = x
             THEN CHOOSE k \in 1..Len(q) : q[k] = x ELSE 0

\* "all subscribers observe concurrent sends in one common order":
\* any two values that two subscribers both received were received in the same order.
CommonOrder(allSubs, got) ==
    \A s, t \in allSubs :
       \A a \in 1..Len(got[s]) : \A b \in 1..Len(got[s]) :
          (a < b /\ Pos(got[t], got[s][a]) > 0 /\ Pos(got[t], got[s][b]) > 0)
             => Pos(got[t], got[s][a]) < Pos(got[t], got[s][b])
=============================================================================
