------------------------------ MODULE FeedMC ------------------------------
EXTENDS Feed
CONSTANTS s1, s2, s3, a, b
Subs2 == {s1, s2}
Subs3 == {s1, s2, s3}
Send1 == {a}
Send2 == {a, b}
\* s1 unbuffered, s2 and s3 capacity 1
MCCap == (s1 :> 0) @@ (s2 :> 1) @@ (s3 :> 1)
SymSend == Permutations(Send2)
=============================================================================
