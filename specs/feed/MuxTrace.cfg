SPECIFICATION TSpec
INVARIANTS NoWedgeT NoDuplicateT NoLossT OnlySubscribersT
POSTCONDITION TraceAccepted
CHECK_DEADLOCK FALSE
