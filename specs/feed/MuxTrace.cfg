SPECIFICATION TSpec
INVARIANTS ScopeT NoWedgeT NoDuplicateT NoLossT OnlySubscribersT
POSTCONDITION TraceAccepted
CHECK_DEADLOCK FALSE
