SPECIFICATION Spec
CONSTANTS Subs = {s1, s2, s3} AtomicClose = TRUE
INVARIANT ClosedMeansNoLive
CHECK_DEADLOCK FALSE
