\* 2 senders x 1 send, 3 subscribers
SPECIFICATION Spec
CONSTANTS
  s1 = s1  s2 = s2  s3 = s3  a = a  b = b
  Senders <- Send2
  Subs <- Subs3
  Cap <- MCCap
  K = 1
SYMMETRY SymSend
INVARIANTS TypeOK NoPanic ExactlyOnceInv AtMostOnceAlways NsentInv CommonOrderInv LockDiscipline CaseListSane
PROPERTIES NoDeliveryAfterUnsub
