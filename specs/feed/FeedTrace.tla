----------------------------- MODULE FeedTrace -----------------------------
(***************************************************************************)
(* Trace specification for C19: validates API-level histories recorded     *)
(* from the real event.Feed (global atomic tickets = line order) against   *)
(* the L1 predicates of FeedProps.  Every event is fully logged, so the    *)
(* step is deterministic and each clause is a named INVARIANT.             *)
(*                                                                         *)
(* events: reset{subs,vals} sub_call{s} sub_ret{s} unsub_call{s}           *)
(*   unsub_ret{s,len} send_call{v} send_ret{v,nsent} recv_call{s,id}       *)
(*   recv{s,v,id} end                                                      *)
(***************************************************************************)
EXTENDS TraceLib, FeedProps, FiniteSets

VARIABLES l, subs, vals, subCalled, subRet, unsubCalled, unsubRet, sendCalled,
          atCall, atRet, dl, got, lateBudget, lateCnt, openRecv, phase, bad

tvars == <<l, subs, vals, subCalled, subRet, unsubCalled, unsubRet, sendCalled,
           atCall, atRet, dl, got, lateBudget, lateCnt, openRecv, phase, bad>>

NoSnap == [none |-> TRUE]

Blank(S, V) ==
  /\ subs' = S /\ vals' = V
  /\ subCalled' = {} /\ subRet' = {} /\ unsubCalled' = {} /\ unsubRet' = {} /\ sendCalled' = {}
  /\ atCall' = [v \in V |-> NoSnap] /\ atRet' = [v \in V |-> NoSnap]
  /\ dl' = [v \in V |-> [s \in S |-> 0]]
  /\ got' = [s \in S |-> <<>>]
  /\ lateBudget' = [s \in S |-> 0] /\ lateCnt' = [s \in S |-> 0]
  /\ openRecv' = {}
  /\ bad' = "" 

TInit ==
  /\ l = 1 /\ subs = {} /\ vals = {}
  /\ subCalled = {} /\ subRet = {} /\ unsubCalled = {} /\ unsubRet = {} /\ sendCalled = {}
  /\ atCall = <<>> /\ atRet = <<>> /\ dl = <<>> /\ got = <<>>
  /\ lateBudget = <<>> /\ lateCnt = <<>> /\ openRecv = {} /\ phase = "run" /\ bad = ""
  /\ InitHW

Ev == Trace[l]
Is(e) == l <= NLines /\ Ev.e = e /\ l' = l + 1 /\ Consumed(l)

Keep(vs) == UNCHANGED vs

TReset == Is("reset") /\ Blank(SetOf(Ev.subs), SetOf(Ev.vals)) /\ phase' = "run"

TSubCall == Is("sub_call") /\ subCalled' = subCalled \cup {Ev.s} /\ phase' = "run"
  /\ UNCHANGED <<subs, vals, subRet, unsubCalled, unsubRet, sendCalled, atCall, atRet, dl, got, lateBudget, lateCnt, openRecv, bad>>
TSubRet == Is("sub_ret") /\ subRet' = subRet \cup {Ev.s} /\ phase' = "run"
  /\ UNCHANGED <<subs, vals, subCalled, unsubCalled, unsubRet, sendCalled, atCall, atRet, dl, got, lateBudget, lateCnt, openRecv, bad>>
TUnsubCall == Is("unsub_call") /\ unsubCalled' = unsubCalled \cup {Ev.s} /\ phase' = "run"
  /\ UNCHANGED <<subs, vals, subCalled, subRet, unsubRet, sendCalled, atCall, atRet, dl, got, lateBudget, lateCnt, openRecv, bad>>
TUnsubRet == Is("unsub_ret") /\ unsubRet' = unsubRet \cup {Ev.s} /\ phase' = "run"
  /\ lateBudget' = [lateBudget EXCEPT ![Ev.s] = Ev.len]
  /\ UNCHANGED <<subs, vals, subCalled, subRet, unsubCalled, sendCalled, atCall, atRet, dl, got, lateCnt, openRecv, bad>>

TSendCall == Is("send_call") /\ phase' = "run"
  /\ sendCalled' = sendCalled \cup {Ev.v}
  /\ atCall' = [atCall EXCEPT ![Ev.v] = [subRet |-> subRet, unsubRet |-> unsubRet]]
  /\ UNCHANGED <<subs, vals, subCalled, subRet, unsubCalled, unsubRet, atRet, dl, got, lateBudget, lateCnt, openRecv, bad>>
TSendRet == Is("send_ret") /\ phase' = "run"
  /\ atRet' = [atRet EXCEPT ![Ev.v] = [unsubCalled |-> unsubCalled, subCalled |-> subCalled, nsent |-> Ev.nsent]]
  /\ UNCHANGED <<subs, vals, subCalled, subRet, unsubCalled, unsubRet, sendCalled, atCall, dl, got, lateBudget, lateCnt, openRecv, bad>>

\* a receiver goroutine announces that it is about to execute `<-ch`; id distinguishes attempts.
\* An attempt that starts after Unsubscribe(s) returned is "late".
TRecvCall == Is("recv_call") /\ phase' = "run"
  /\ openRecv' = openRecv \cup {<<Ev.s, Ev.id, Ev.s \in unsubRet>>}
  /\ UNCHANGED <<subs, vals, subCalled, subRet, unsubCalled, unsubRet, sendCalled, atCall, atRet, dl, got, lateBudget, lateCnt, bad>>

TRecv == Is("recv") /\ phase' = "run"
  /\ LET late == <<Ev.s, Ev.id, TRUE>> \in openRecv IN
     /\ openRecv' = openRecv \ {<<Ev.s, Ev.id, TRUE>>, <<Ev.s, Ev.id, FALSE>>}
     /\ lateCnt' = [lateCnt EXCEPT ![Ev.s] = IF late THEN @ + 1 ELSE @]
  /\ dl' = [dl EXCEPT ![Ev.v][Ev.s] = @ + 1]
  /\ got' = [got EXCEPT ![Ev.s] = Append(@, Ev.v)]
  /\ bad' = (IF Ev.v \notin sendCalled THEN "recv-of-unsent-value"
             ELSE IF atRet[Ev.v] # NoSnap /\ Ev.s \notin atRet[Ev.v].subCalled THEN "recv-by-later-subscriber"
             ELSE IF Ev.s \in atCall[Ev.v].unsubRet THEN "recv-after-unsubscribe-returned"
             ELSE bad)
  /\ UNCHANGED <<subs, vals, subCalled, subRet, unsubCalled, unsubRet, sendCalled, atCall, atRet, lateBudget>>

TEnd == Is("end") /\ phase' = "end"
  /\ UNCHANGED <<subs, vals, subCalled, subRet, unsubCalled, unsubRet, sendCalled, atCall, atRet, dl, got, lateBudget, lateCnt, openRecv, bad>>

TNext == TReset \/ TSubCall \/ TSubRet \/ TUnsubCall \/ TUnsubRet \/ TSendCall \/ TSendRet
         \/ TRecvCall \/ TRecv \/ TEnd
TSpec == TInit /\ [][TNext]_tvars

----------------------------------------------------------------------------
\* C19 clauses, evaluated on the real history
AtMostOnce == \A v \in vals : \A s \in subs : dl[v][s] <= 1
NoBadRecv == bad = ""
\* values received by attempts that began after Unsubscribe returned can only be values that were
\* already buffered when it returned
NoDeliveryAfterUnsub == \A s \in subs : lateCnt[s] <= lateBudget[s]

Returned == {v \in vals : atRet[v] # NoSnap}
\* at the end of a scenario every channel has been drained and every goroutine has returned
EndExactlyOnce == phase = "end" =>
   \A v \in Returned : ExactlyOnce(subs, dl[v], atCall[v].subRet, atCall[v].unsubRet,
                                   atRet[v].unsubCalled, atRet[v].subCalled)
EndNsent == phase = "end" => \A v \in Returned : NsentIsDeliveries(subs, dl[v], atRet[v].nsent)
EndAllReturned == phase = "end" => Returned = sendCalled       \* no Send wedged (watchdog emits no end otherwise)
EndCommonOrder == phase = "end" => CommonOrder(subs, got)
=============================================================================
