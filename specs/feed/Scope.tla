--------------------------------- MODULE Scope ---------------------------------
(***************************************************************************)
(* C19: event.SubscriptionScope - Track / Close.  Close unsubscribes every *)
(* tracked subscription and refuses later additions; both run under the    *)
(* scope mutex.  AtomicClose = FALSE models a Close that collects the set  *)
(* under the lock, releases it while unsubscribing and only then marks the *)
(* scope closed: a Track in that window is accepted and never              *)
(* unsubscribed.                                                           *)
(***************************************************************************)
EXTENDS Integers, FiniteSets
CONSTANTS Subs, AtomicClose
VARIABLES tracked,      \* subscriptions in the scope's set
          live,         \* subscriptions that still receive values
          accepted,     \* subscriptions for which Track returned non-nil
          closed, closing, taken, closeReturned
vars == <<tracked, live, accepted, closed, closing, taken, closeReturned>>
Init == tracked = {} /\ live = {} /\ accepted = {} /\ closed = FALSE /\ closing = FALSE /\ taken = {} /\ closeReturned = FALSE

\* Track(s): under the mutex (not while an atomic Close holds it)
Track(s) == /\ s \notin accepted /\ s \notin live
            /\ ~(AtomicClose /\ closing)
            /\ IF closed THEN UNCHANGED <<tracked, live, accepted>>                        \* returns nil; the caller unsubscribes itself
               ELSE tracked' = tracked \cup {s} /\ live' = live \cup {s} /\ accepted' = accepted \cup {s}
            /\ UNCHANGED <<closed, closing, taken, closeReturned>>
CloseStart == /\ ~closing /\ ~closed
              /\ closing' = TRUE /\ taken' = tracked
              /\ closed' = AtomicClose               \* the atomic version marks it closed right away
              /\ UNCHANGED <<tracked, live, accepted, closeReturned>>
CloseUnsub == /\ closing /\ \E s \in taken : live' = live \ {s} /\ taken' = taken \ {s}
              /\ UNCHANGED <<tracked, accepted, closed, closing, closeReturned>>
CloseEnd == /\ closing /\ taken = {}
            /\ closed' = TRUE /\ closing' = FALSE /\ closeReturned' = TRUE
            /\ tracked' = IF AtomicClose THEN {} ELSE tracked
            /\ UNCHANGED <<live, accepted, taken>>
Next == (\E s \in Subs : Track(s)) \/ CloseStart \/ CloseUnsub \/ CloseEnd
Spec == Init /\ [][Next]_vars
\* after Close has returned nothing that the scope accepted is still subscribed
ClosedMeansNoLive == closeReturned => (live \cap accepted = {})
=============================================================================
