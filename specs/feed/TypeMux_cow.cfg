SPECIFICATION Spec
CONSTANTS Subs = {s1, s2, s3, s4} NPosts = 2 CopyOnWrite = TRUE
INVARIANTS NoDuplicate NoLoss OnlySubscribers
CHECK_DEADLOCK FALSE
