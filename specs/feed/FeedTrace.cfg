SPECIFICATION TSpec
INVARIANTS AtMostOnce NoBadRecv NoDeliveryAfterUnsub EndExactlyOnce EndNsent EndAllReturned EndCommonOrder
POSTCONDITION TraceAccepted
CHECK_DEADLOCK FALSE
