-------------------------------- MODULE MuxTrace --------------------------------
(***************************************************************************)
(* Trace specification for the TypeMux part of C19.  One line = one        *)
(* scenario: the ordered steps of the driver thread (post-start, recv,     *)
(* unsub, sub, post-done).  The driver thread owns all subscribers, so the *)
(* order of the steps is the real order.  The predicates are TypeMux.tla's *)
(* NoDuplicate / NoLoss / OnlySubscribers, evaluated on the history.       *)
(***************************************************************************)
EXTENDS TraceLib, FiniteSets
VARIABLES l, X
tvars == <<l, X>>
Ev == Trace[l]
TInit == l = 1 /\ X = [e |-> "none"] /\ InitHW
TStep == l <= NLines /\ l' = l + 1 /\ Consumed(l) /\ X' = Ev
TSpec == TInit /\ [][TStep]_tvars

\* SubscriptionScope (Scope.tla): once Close has returned, nothing the scope accepted is still subscribed and nothing new is accepted
ScopeT == X.e = "scope" => (X.countAfterClose = 0 /\ X.deliveredAfterClose = 0 /\ ~X.trackAfterCloseAccepted)

M == X.e = "mux"
St == X.steps
Idx(op, p) == {k \in 1..Len(St) : St[k].op = op /\ St[k].post = p}
PostsOf == {St[k].post : k \in {j \in 1..Len(St) : St[j].op = "post-start"}}
StartOf(p) == CHOOSE k \in Idx("post-start", p) : TRUE
DoneOf(p) == IF Idx("post-done", p) = {} THEN Len(St) + 1 ELSE CHOOSE k \in Idx("post-done", p) : TRUE
\* subscriptions live at step k (initial ones are 0..nsubs-1; later ones appear with "sub")
SubbedBefore(k) == (0..(X.nsubs - 1)) \cup {St[j].sub : j \in {i \in 1..(k - 1) : St[i].op = "sub"}}
UnsubbedBefore(k) == {St[j].sub : j \in {i \in 1..(k - 1) : St[i].op \in {"unsub", "closed"}}}
LiveAt(k) == SubbedBefore(k) \ UnsubbedBefore(k)
Recvs(p, s) == {k \in Idx("recv", p) : St[k].sub = s}

NoWedgeT == M => \A k \in 1..Len(St) : St[k].op \notin {"wedge", "closed"}
\* "delivered exactly once ..." : never twice
NoDuplicateT == M => \A p \in PostsOf : \A s \in SubbedBefore(Len(St) + 1) : Cardinality(Recvs(p, s)) <= 1
\* "... to each subscriber that subscribed before the send began and has not unsubscribed"
NoLossT == M => \A p \in PostsOf : DoneOf(p) <= Len(St) =>
             \A s \in LiveAt(StartOf(p)) \ UnsubbedBefore(DoneOf(p)) : Cardinality(Recvs(p, s)) = 1
\* nobody else gets it, and nothing is delivered after Unsubscribe returned
OnlySubscribersT == M => \A p \in PostsOf : \A k \in Idx("recv", p) : St[k].sub \in LiveAt(StartOf(p)) /\ St[k].sub \in LiveAt(k)
=============================================================================
