\* liveness under fairness (no symmetry, no constraint)
SPECIFICATION LiveSpec
CONSTANTS
  s1 = s1  s2 = s2  s3 = s3  a = a  b = b
  Senders <- Send2
  Subs <- Subs2
  Cap <- MCCap
  K = 1
INVARIANTS NoPanic
PROPERTIES AllSendsReturn UnsubReturns
