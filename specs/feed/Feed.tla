------------------------------- MODULE Feed -------------------------------
(***************************************************************************)
(* L2, implementation-shaped model of aqua/event/feed.go.                  *)
(* One action per statement group between two points where another         *)
(* goroutine can observe or interfere (the verifYield sites of the Go      *)
(* hooks carry the same names).                                            *)
(*                                                                         *)
(*   f.sendLock  -> sendLock (TRUE = token in the 1-slot channel)          *)
(*   f.inbox     -> inbox    (guarded by f.mu; each mu section is atomic)  *)
(*   f.sendCases -> sc       (WITHOUT element 0, the removeSub recv case)  *)
(*   cases       -> the prefix sc[1..n[i]] of the SAME backing array:      *)
(*                  deactivate = swap with last active + shrink n;         *)
(*                  caseList.delete = shift left in the shared array       *)
(*   f.removeSub -> rendezvous between a sender at "select" and a remover  *)
(*                  at "r_sel"                                             *)
(* Subscriber channels: capacity Cap[s] in {0,1,..}; a receiver is either  *)
(* parked in `<-ch` (parked[s]) or not; TrySend/select-send succeed iff    *)
(* there is buffer room or a parked receiver (Go channel semantics).       *)
(***************************************************************************)
EXTENDS Integers, Sequences, FiniteSets, TLC, FeedProps

CONSTANTS Senders,      \* set of sender process ids
          Subs,         \* set of subscribers (one channel each)
          Cap,          \* [Subs -> Nat] channel capacity
          K             \* sends per sender

Values == Senders \X (1..K)

VARIABLES
  sendLock, inbox, sc,          \* Feed fields
  buf, parked, got,             \* channels and receivers
  pcS, kS, n, idx, nsent,       \* sender locals: pc, current send number, len(cases)-1, loop index, nsent
  pcC,                          \* subscriber controller pc
  \* ---- history / observation (what FeedProps talks about) ----
  subCalled, subRet, unsubCalled, unsubRet,
  atCall,                       \* atCall[v] = [subRet, unsubRet] snapshot when Send(v) was called
  atRet,                        \* atRet[v] = [unsubCalled, subCalled, nsent] snapshot when Send(v) returned
  dl,                           \* dl[v][s] deliveries of v to channel s
  panicked

vars == <<sendLock, inbox, sc, buf, parked, got, pcS, kS, n, idx, nsent, pcC,
          subCalled, subRet, unsubCalled, unsubRet, atCall, atRet, dl, panicked>>

NoSnap == [none |-> TRUE]

Init ==
  /\ sendLock = TRUE /\ inbox = <<>> /\ sc = <<>>
  /\ buf = [s \in Subs |-> <<>>] /\ parked = [s \in Subs |-> FALSE] /\ got = [s \in Subs |-> <<>>]
  /\ pcS = [i \in Senders |-> "idle"] /\ kS = [i \in Senders |-> 1]
  /\ n = [i \in Senders |-> 0] /\ idx = [i \in Senders |-> 0] /\ nsent = [i \in Senders |-> 0]
  /\ pcC = [s \in Subs |-> "init"]
  /\ subCalled = {} /\ subRet = {} /\ unsubCalled = {} /\ unsubRet = {}
  /\ atCall = [v \in Values |-> NoSnap] /\ atRet = [v \in Values |-> NoSnap]
  /\ dl = [v \in Values |-> [s \in Subs |-> 0]]
  /\ panicked = FALSE

----------------------------------------------------------------------------
\* helpers on the shared case array
Find(q, s) == Pos(q, s)                              \* 0 = not found (Go: -1)
Delete(q, k) == SubSeq(q, 1, k-1) \o SubSeq(q, k+1, Len(q))
Swap(q, a, b) == [q EXCEPT ![a] = q[b], ![b] = q[a]]

CanSend(s) == Len(buf[s]) < Cap[s] \/ parked[s]

\* effect of putting value v on s's channel
Deliver(s, v) ==
  /\ IF parked[s]
       THEN /\ got' = [got EXCEPT ![s] = Append(@, v)]
            /\ parked' = [parked EXCEPT ![s] = FALSE]
            /\ buf' = buf
       ELSE /\ buf' = [buf EXCEPT ![s] = Append(@, v)]
            /\ UNCHANGED <<got, parked>>
  /\ dl' = [dl EXCEPT ![v][s] = @ + 1]

Val(i) == <<i, kS[i]>>

----------------------------------------------------------------------------
\* Sender i
SCall(i) ==   \* Send() is called
  /\ pcS[i] = "idle" /\ kS[i] <= K
  /\ pcS' = [pcS EXCEPT ![i] = "lock"]
  /\ atCall' = [atCall EXCEPT ![Val(i)] = [subRet |-> subRet, unsubRet |-> unsubRet]]
  /\ nsent' = [nsent EXCEPT ![i] = 0]
  /\ UNCHANGED <<sendLock, inbox, sc, buf, parked, got, kS, n, idx, pcC,
                 subCalled, subRet, unsubCalled, unsubRet, atRet, dl, panicked>>

SLock(i) ==   \* <-f.sendLock
  /\ pcS[i] = "lock" /\ sendLock
  /\ sendLock' = FALSE
  /\ pcS' = [pcS EXCEPT ![i] = "merge"]
  /\ UNCHANGED <<inbox, sc, buf, parked, got, kS, n, idx, nsent, pcC,
                 subCalled, subRet, unsubCalled, unsubRet, atCall, atRet, dl, panicked>>

SMerge(i) ==  \* f.mu section: sendCases = append(sendCases, inbox...); inbox = nil; cases := f.sendCases
  /\ pcS[i] = "merge"
  /\ sc' = sc \o inbox
  /\ inbox' = <<>>
  /\ n' = [n EXCEPT ![i] = Len(sc')]
  /\ idx' = [idx EXCEPT ![i] = 1]
  /\ pcS' = [pcS EXCEPT ![i] = "try"]
  /\ UNCHANGED <<sendLock, buf, parked, got, kS, nsent, pcC,
                 subCalled, subRet, unsubCalled, unsubRet, atCall, atRet, dl, panicked>>

STry(i) ==    \* one iteration of the TrySend fast-path loop
  /\ pcS[i] = "try" /\ idx[i] <= n[i]
  /\ LET s == sc[idx[i]] IN
       IF CanSend(s)
         THEN /\ Deliver(s, Val(i))
              /\ nsent' = [nsent EXCEPT ![i] = @ + 1]
              /\ sc' = Swap(sc, idx[i], n[i])            \* cases.deactivate(i)
              /\ n' = [n EXCEPT ![i] = @ - 1]
              /\ idx' = idx                               \* i--; i++
         ELSE /\ idx' = [idx EXCEPT ![i] = @ + 1]
              /\ UNCHANGED <<buf, parked, got, dl, nsent, sc, n>>
  /\ UNCHANGED <<sendLock, inbox, pcS, kS, pcC, subCalled, subRet, unsubCalled, unsubRet,
                 atCall, atRet, panicked>>

STryEnd(i) == \* loop exhausted: break if no active case is left, else go to the blocking select
  /\ pcS[i] = "try" /\ idx[i] > n[i]
  /\ pcS' = [pcS EXCEPT ![i] = IF n[i] = 0 THEN "clear" ELSE "select"]
  /\ UNCHANGED <<sendLock, inbox, sc, buf, parked, got, kS, n, idx, nsent, pcC,
                 subCalled, subRet, unsubCalled, unsubRet, atCall, atRet, dl, panicked>>

SSelectSend(i) ==   \* reflect.Select chose a subscriber channel that became ready
  /\ pcS[i] = "select"
  /\ \E k \in 1..n[i] :
       /\ CanSend(sc[k])
       /\ Deliver(sc[k], Val(i))
       /\ sc' = Swap(sc, k, n[i])                         \* cases.deactivate(chosen)
  /\ n' = [n EXCEPT ![i] = @ - 1]
  /\ nsent' = [nsent EXCEPT ![i] = @ + 1]
  /\ idx' = [idx EXCEPT ![i] = 1]
  /\ pcS' = [pcS EXCEPT ![i] = "try"]
  /\ UNCHANGED <<sendLock, inbox, kS, pcC, subCalled, subRet, unsubCalled, unsubRet,
                 atCall, atRet, panicked>>

SSelectRemove(i) == \* reflect.Select chose <-f.removeSub: rendezvous with a remover blocked at r_sel
  /\ pcS[i] = "select"
  /\ \E s \in Subs :
       /\ pcC[s] = "r_sel"
       /\ LET index == Find(sc, s) IN
            IF index = 0
              THEN /\ panicked' = TRUE                    \* f.sendCases.delete(-1) panics
                   /\ UNCHANGED <<sc, n>>
              ELSE /\ sc' = Delete(sc, index)
                   /\ n' = [n EXCEPT ![i] = IF index <= @ THEN @ - 1 ELSE @]
                   /\ UNCHANGED panicked
       /\ pcC' = [pcC EXCEPT ![s] = "dead"]              \* remove() returns, Unsubscribe returns
       /\ unsubRet' = unsubRet \cup {s}
  /\ idx' = [idx EXCEPT ![i] = 1]
  /\ pcS' = [pcS EXCEPT ![i] = "try"]
  /\ UNCHANGED <<sendLock, inbox, buf, parked, got, kS, nsent, subCalled, subRet, unsubCalled,
                 atCall, atRet, dl>>

SClear(i) ==  \* clear Send fields, f.sendLock <- struct{}{}, return nsent
  /\ pcS[i] = "clear"
  /\ sendLock' = TRUE
  /\ atRet' = [atRet EXCEPT ![Val(i)] = [unsubCalled |-> unsubCalled, subCalled |-> subCalled,
                                          nsent |-> nsent[i]]]
  /\ kS' = [kS EXCEPT ![i] = @ + 1]
  /\ pcS' = [pcS EXCEPT ![i] = "idle"]
  /\ UNCHANGED <<inbox, sc, buf, parked, got, n, idx, nsent, pcC,
                 subCalled, subRet, unsubCalled, unsubRet, atCall, dl, panicked>>

----------------------------------------------------------------------------
\* Controller of subscriber s: Subscribe, later Unsubscribe (= Feed.remove)
CSubscribe(s) ==  \* f.mu section of Subscribe (call and return collapse: nothing blocks in between)
  /\ pcC[s] = "init"
  /\ inbox' = Append(inbox, s)
  /\ pcC' = [pcC EXCEPT ![s] = "live"]
  /\ subCalled' = subCalled \cup {s} /\ subRet' = subRet \cup {s}
  /\ UNCHANGED <<sendLock, sc, buf, parked, got, pcS, kS, n, idx, nsent,
                 unsubCalled, unsubRet, atCall, atRet, dl, panicked>>

CUnsubCall(s) ==
  /\ pcC[s] = "live"
  /\ pcC' = [pcC EXCEPT ![s] = "r_inbox"]
  /\ unsubCalled' = unsubCalled \cup {s}
  /\ UNCHANGED <<sendLock, inbox, sc, buf, parked, got, pcS, kS, n, idx, nsent,
                 subCalled, subRet, unsubRet, atCall, atRet, dl, panicked>>

RInbox(s) ==      \* f.mu section of remove: delete from inbox if still there
  /\ pcC[s] = "r_inbox"
  /\ IF Find(inbox, s) # 0
       THEN /\ inbox' = Delete(inbox, Find(inbox, s))
            /\ pcC' = [pcC EXCEPT ![s] = "dead"]
            /\ unsubRet' = unsubRet \cup {s}
       ELSE /\ pcC' = [pcC EXCEPT ![s] = "r_sel"]
            /\ UNCHANGED <<inbox, unsubRet>>
  /\ UNCHANGED <<sendLock, sc, buf, parked, got, pcS, kS, n, idx, nsent,
                 subCalled, subRet, unsubCalled, atCall, atRet, dl, panicked>>

RSelLock(s) ==    \* select chose <-f.sendLock (no Send in progress)
  /\ pcC[s] = "r_sel" /\ sendLock
  /\ sendLock' = FALSE
  /\ pcC' = [pcC EXCEPT ![s] = "r_del"]
  /\ UNCHANGED <<inbox, sc, buf, parked, got, pcS, kS, n, idx, nsent,
                 subCalled, subRet, unsubCalled, unsubRet, atCall, atRet, dl, panicked>>

RDel(s) ==        \* f.sendCases = f.sendCases.delete(f.sendCases.find(ch))
  /\ pcC[s] = "r_del"
  /\ IF Find(sc, s) = 0
       THEN panicked' = TRUE /\ sc' = sc
       ELSE sc' = Delete(sc, Find(sc, s)) /\ UNCHANGED panicked
  /\ pcC' = [pcC EXCEPT ![s] = "r_unlock"]
  /\ UNCHANGED <<sendLock, inbox, buf, parked, got, pcS, kS, n, idx, nsent,
                 subCalled, subRet, unsubCalled, unsubRet, atCall, atRet, dl>>

RUnlock(s) ==     \* f.sendLock <- struct{}{}; return
  /\ pcC[s] = "r_unlock"
  /\ sendLock' = TRUE
  /\ pcC' = [pcC EXCEPT ![s] = "dead"]
  /\ unsubRet' = unsubRet \cup {s}
  /\ UNCHANGED <<inbox, sc, buf, parked, got, pcS, kS, n, idx, nsent,
                 subCalled, subRet, unsubCalled, atCall, atRet, dl, panicked>>

----------------------------------------------------------------------------
\* Receiver of s's channel: may park in `<-ch` when the buffer is empty, or take a buffered value
\* (only modelled for unbuffered channels: a receiver parked on a buffered channel is observationally
\*  the same as one that takes the value from the buffer right after the send)
RPark(s) ==
  /\ Cap[s] = 0 /\ buf[s] = <<>> /\ ~parked[s] /\ pcC[s] # "init"
  /\ parked' = [parked EXCEPT ![s] = TRUE]
  /\ UNCHANGED <<sendLock, inbox, sc, buf, got, pcS, kS, n, idx, nsent, pcC,
                 subCalled, subRet, unsubCalled, unsubRet, atCall, atRet, dl, panicked>>

RTake(s) ==
  /\ buf[s] # <<>>
  /\ got' = [got EXCEPT ![s] = Append(@, Head(buf[s]))]
  /\ buf' = [buf EXCEPT ![s] = Tail(@)]
  /\ UNCHANGED <<sendLock, inbox, sc, parked, pcS, kS, n, idx, nsent, pcC,
                 subCalled, subRet, unsubCalled, unsubRet, atCall, atRet, dl, panicked>>

----------------------------------------------------------------------------
SenderStep(i) == SCall(i) \/ SLock(i) \/ SMerge(i) \/ STry(i) \/ STryEnd(i)
                 \/ SSelectSend(i) \/ SSelectRemove(i) \/ SClear(i)
CtrlStep(s) == CSubscribe(s) \/ CUnsubCall(s) \/ RInbox(s) \/ RSelLock(s) \/ RDel(s) \/ RUnlock(s)
RecvStep(s) == RPark(s) \/ RTake(s)

AllDone == /\ \A i \in Senders : pcS[i] = "idle" /\ kS[i] > K
           /\ \A s \in Subs : pcC[s] \in {"live", "dead"}

Next == \/ \E i \in Senders : SenderStep(i)
        \/ \E s \in Subs : CtrlStep(s) \/ RecvStep(s)
        \/ (AllDone /\ UNCHANGED vars)

Spec == Init /\ [][Next]_vars

\* Fairness for liveness: every process keeps running, receivers keep receiving.
\* Unsubscribing is NOT forced (a subscriber may stay forever).
Fairness ==
  /\ \A i \in Senders : WF_vars(SenderStep(i))
  /\ \A s \in Subs : WF_vars(RInbox(s) \/ RSelLock(s) \/ RDel(s) \/ RUnlock(s)) /\ WF_vars(RecvStep(s))
  /\ \A s \in Subs : WF_vars(CSubscribe(s))
LiveSpec == Spec /\ Fairness

----------------------------------------------------------------------------
\* Properties (C19), through the L1 operators of FeedProps
TypeOK ==
  /\ sendLock \in BOOLEAN
  /\ \A s \in Subs : Len(buf[s]) <= Cap[s]
  /\ \A i \in Senders : n[i] <= Len(sc) \/ pcS[i] \in {"idle", "lock", "merge"}

NoPanic == ~panicked

\* evaluated for every completed send
ReturnedSends == {v \in Values : atRet[v] # NoSnap}

ExactlyOnceInv ==
  \A v \in ReturnedSends :
     ExactlyOnce(Subs, dl[v], atCall[v].subRet, atCall[v].unsubRet,
                 atRet[v].unsubCalled, atRet[v].subCalled)

AtMostOnceAlways == \A v \in Values : \A s \in Subs : dl[v][s] <= 1

NsentInv == \A v \in ReturnedSends : NsentIsDeliveries(Subs, dl[v], atRet[v].nsent)

\* order in which values were put on each channel = got[s] \o buf[s]
Stream(s) == got[s] \o buf[s]
CommonOrderInv == CommonOrder(Subs, [s \in Subs |-> Stream(s)])

\* "never delivers after unsubscription has returned"
NoDeliveryAfterUnsub ==
  [][\A s \in unsubRet : \A v \in Values : dl'[v][s] = dl[v][s]]_vars

\* mutual exclusion on the shared array: at most one sender between lock and clear, and no remover inside
LockDiscipline ==
  Cardinality({i \in Senders : pcS[i] \in {"merge", "try", "select", "clear"}})
    + Cardinality({s \in Subs : pcC[s] \in {"r_del", "r_unlock"}})
    + (IF sendLock THEN 1 ELSE 0) = 1

\* no subscriber appears twice in the case list and unsubscribed ones are gone
CaseListSane ==
  /\ \A a, b \in 1..Len(sc) : a # b => sc[a] # sc[b]
  /\ \A s \in unsubRet : Find(sc, s) = 0 /\ Find(inbox, s) = 0

\* liveness: with receivers that keep receiving, every send returns and every Unsubscribe returns
AllSendsReturn == <>(\A i \in Senders : pcS[i] = "idle" /\ kS[i] > K)
UnsubReturns == \A s \in Subs : (pcC[s] = "r_inbox") ~> (pcC[s] = "dead")

\* state-space reduction: history variables that no guard reads are kept out of the fingerprint
\* only in configurations that do not check them (see Feed_liveness.cfg)
=============================================================================
