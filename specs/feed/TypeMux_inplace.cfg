SPECIFICATION Spec
CONSTANTS Subs = {s1, s2, s3, s4} NPosts = 1 CopyOnWrite = FALSE
INVARIANTS NoDuplicate NoLoss OnlySubscribers
CHECK_DEADLOCK FALSE
