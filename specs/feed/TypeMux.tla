-------------------------------- MODULE TypeMux --------------------------------
(***************************************************************************)
(* C19, the older event.TypeMux (aqua/event/event.go), still used for      *)
(* NewMinedBlockEvent and the downloader events.                           *)
(*                                                                         *)
(* The subscriber list of an event type is a Go slice.  Post takes the     *)
(* slice under the read lock and then walks it WITHOUT the lock; Subscribe *)
(* and Unsubscribe therefore must never write into an array a Post may be  *)
(* walking: both build a fresh array (copy-on-write).  Arrays are modelled *)
(* explicitly (heap: array id -> cells) so that the alternative - deleting *)
(* in place with append(s[:i], s[i+1:]...) - can be expressed: it shifts   *)
(* the cells of the shared array to the left and leaves the old last cell  *)
(* in place, which a walking Post then reads.                              *)
(*                                                                         *)
(* Delivery to one subscriber is a rendezvous on an unbuffered channel     *)
(* (the subscriber takes it: Recv) or is abandoned when the subscription   *)
(* is closing (Unsubscribe).                                               *)
(***************************************************************************)
EXTENDS Integers, Sequences, FiniteSets
CONSTANTS Subs,           \* subscription ids
          NPosts,         \* number of Post calls
          CopyOnWrite     \* TRUE: posdelete builds a fresh array (the code); FALSE: in-place delete

VARIABLES heap,           \* array id -> sequence of cells (subscription ids)
          cur,            \* the mux's slice: [arr, len]
          nextArr,
          live,           \* subscriptions that are subscribed (not yet unsubscribed)
          post,           \* post id -> [state: "idle"|"walking"|"done", arr, len, i]
          got,            \* <<post, sub>> -> number of deliveries received
          atStart,        \* post id -> set of subscriptions live when the Post took its snapshot
          goneBefore      \* post id -> subscriptions whose Unsubscribe returned before the delivery to them was attempted
vars == <<heap, cur, nextArr, live, post, got, atStart, goneBefore>>
Posts == 1..NPosts

SubSeqOrder == CHOOSE s \in [1..Cardinality(Subs) -> Subs] : \A i, j \in 1..Cardinality(Subs) : i # j => s[i] # s[j]
Init == /\ heap = [a \in {1} |-> SubSeqOrder] /\ cur = [arr |-> 1, len |-> Cardinality(Subs)] /\ nextArr = 2
        /\ live = Subs
        /\ post = [p \in Posts |-> [state |-> "idle", arr |-> 0, len |-> 0, i |-> 0]]
        /\ got = [x \in Posts \X Subs |-> 0]
        /\ atStart = [p \in Posts |-> {}] /\ goneBefore = [p \in Posts |-> {}]

Slice(s) == [k \in 1..s.len |-> heap[s.arr][k]]

\* Post: snapshot under RLock
PostStart(p) == /\ post[p].state = "idle"
                /\ post' = [post EXCEPT ![p] = [state |-> IF cur.len = 0 THEN "done" ELSE "walking", arr |-> cur.arr, len |-> cur.len, i |-> 1]]
                /\ atStart' = [atStart EXCEPT ![p] = live]
                /\ UNCHANGED <<heap, cur, nextArr, live, got, goneBefore>>
Advance(p) == IF post[p].i = post[p].len THEN [post EXCEPT ![p].state = "done"] ELSE [post EXCEPT ![p].i = @ + 1]
Target(p) == heap[post[p].arr][post[p].i]
\* the subscriber takes the event from its channel
Recv(p) == /\ post[p].state = "walking" /\ Target(p) \in live
           /\ got' = [got EXCEPT ![<<p, Target(p)>>] = @ + 1]
           /\ post' = Advance(p)
           /\ UNCHANGED <<heap, cur, nextArr, live, atStart, goneBefore>>
\* the subscription is closed: deliver returns without sending
SkipClosed(p) == /\ post[p].state = "walking" /\ Target(p) \notin live
                 /\ post' = Advance(p)
                 /\ UNCHANGED <<heap, cur, nextArr, live, got, atStart, goneBefore>>

Unsubscribe(s) ==
  /\ s \in live
  /\ live' = live \ {s}
  /\ LET sl == Slice(cur)
         pos == CHOOSE k \in 1..cur.len : sl[k] = s
         rest == [k \in 1..(cur.len - 1) |-> IF k < pos THEN sl[k] ELSE sl[k + 1]]
     IN IF CopyOnWrite
        THEN /\ heap' = [a \in DOMAIN heap \cup {nextArr} |-> IF a = nextArr THEN rest ELSE heap[a]]
             /\ cur' = [arr |-> nextArr, len |-> cur.len - 1] /\ nextArr' = nextArr + 1
        ELSE /\ heap' = [heap EXCEPT ![cur.arr] = [k \in 1..Len(@) |-> IF k < pos \/ k >= cur.len THEN @[k] ELSE @[k + 1]]]
             /\ cur' = [cur EXCEPT !.len = @ - 1] /\ UNCHANGED nextArr
  \* a Post that has not yet reached s will not deliver to it any more
  /\ goneBefore' = [p \in Posts |-> IF post[p].state = "walking" THEN goneBefore[p] \cup {s} ELSE goneBefore[p]]
  /\ UNCHANGED <<post, got, atStart>>

Next == \/ \E p \in Posts : PostStart(p) \/ Recv(p) \/ SkipClosed(p)
        \/ \E s \in Subs : Unsubscribe(s)
Spec == Init /\ [][Next]_vars

\* "delivered exactly once to each subscriber that subscribed before the send began and has not unsubscribed"
NoDuplicate == \A x \in Posts \X Subs : got[x] <= 1
NoLoss == \A p \in Posts : post[p].state = "done" => \A s \in atStart[p] \ goneBefore[p] : got[<<p, s>>] = 1
OnlySubscribers == \A p \in Posts, s \in Subs : got[<<p, s>>] > 0 => s \in atStart[p]
=============================================================================
