SPECIFICATION Spec
CONSTANTS Subs = {s1, s2, s3} AtomicClose = FALSE
INVARIANT ClosedMeansNoLive
CHECK_DEADLOCK FALSE
