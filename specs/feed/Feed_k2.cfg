\* 1 sender x 2 sends, 2 subscribers: subscribe/unsubscribe between sends, case-list persistence
SPECIFICATION Spec
CONSTANTS
  s1 = s1  s2 = s2  s3 = s3  a = a  b = b
  Senders <- Send1
  Subs <- Subs2
  Cap <- MCCap
  K = 2
INVARIANTS TypeOK NoPanic ExactlyOnceInv AtMostOnceAlways NsentInv CommonOrderInv LockDiscipline CaseListSane
PROPERTIES NoDeliveryAfterUnsub
