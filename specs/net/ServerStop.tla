------------------------------ MODULE ServerStop ------------------------------
(***************************************************************************)
(* Shutdown of p2p.Server while connections are still being set up         *)
(* (p2p/server.go: Stop, run, checkpoint, Self).                           *)
(*                                                                         *)
(* Stop takes Server.lock, clears `running`, closes `quit` and waits for   *)
(* the run loop.  The run loop, when a connection reaches one of its two   *)
(* checkpoints, evaluates encHandshakeChecks, which calls Server.Self() -  *)
(* and Self() takes Server.lock.  The select in the run loop may pick a    *)
(* waiting checkpoint although quit is already closed.  If Stop still      *)
(* holds the lock while it waits (HoldLock = TRUE: the code before         *)
(* "fix: p2p Stop") the loop waits for Stop and Stop for the loop.         *)
(***************************************************************************)
EXTENDS Naturals
CONSTANTS Conns,        \* connections that reach a checkpoint during shutdown
          HoldLock      \* TRUE: Stop keeps Server.lock while waiting for the run loop (as it was); FALSE: as it is
VARIABLES lock,         \* "free" | "stop" | "loop"
          quit,         \* the quit channel is closed
          stop,         \* "idle" | "locked" | "waiting" | "returned"
          loop,         \* "select" | "checking" | "done"
          cur,          \* the connection the loop is evaluating
          hs            \* per connection: "handshaking" | "sent" | "answered" | "stopped"
vars == <<lock, quit, stop, loop, cur, hs>>
None == "none"

Init == /\ lock = "free" /\ quit = FALSE /\ stop = "idle" /\ loop = "select" /\ cur = None
        /\ hs = [c \in Conns |-> "handshaking"]

\* Server.Stop
StopLock   == stop = "idle" /\ lock = "free" /\ lock' = "stop" /\ stop' = "locked" /\ UNCHANGED <<quit, loop, cur, hs>>
StopQuit   == /\ stop = "locked" /\ quit' = TRUE /\ stop' = "waiting"
              /\ lock' = IF HoldLock THEN lock ELSE "free"
              /\ UNCHANGED <<loop, cur, hs>>
StopReturn == /\ stop = "waiting" /\ loop = "done" /\ stop' = "returned"
              /\ lock' = IF HoldLock THEN "free" ELSE lock
              /\ UNCHANGED <<quit, loop, cur, hs>>

\* checkpoint(): the connection offers itself to the run loop, or sees quit
Offer(c)   == hs[c] = "handshaking" /\ loop = "select" /\ loop' = "checking" /\ cur' = c /\ hs' = [hs EXCEPT ![c] = "sent"]
              /\ UNCHANGED <<lock, quit, stop>>
GiveUp(c)  == hs[c] = "handshaking" /\ quit /\ hs' = [hs EXCEPT ![c] = "stopped"] /\ UNCHANGED <<lock, quit, stop, loop, cur>>

\* the run loop: encHandshakeChecks -> Self() takes and releases the lock, then answers the connection
LoopCheck  == /\ loop = "checking" /\ lock = "free"
              /\ loop' = "select" /\ hs' = [hs EXCEPT ![cur] = "answered"] /\ cur' = None
              /\ UNCHANGED <<lock, quit, stop>>
LoopQuit   == loop = "select" /\ quit /\ loop' = "done" /\ UNCHANGED <<lock, quit, stop, cur, hs>>

Next == StopLock \/ StopQuit \/ StopReturn \/ LoopCheck \/ LoopQuit \/ \E c \in Conns : Offer(c) \/ GiveUp(c)
Fair == WF_vars(StopLock) /\ WF_vars(StopQuit) /\ WF_vars(StopReturn) /\ WF_vars(LoopCheck) /\ WF_vars(LoopQuit)
Spec == Init /\ [][Next]_vars /\ Fair

\* Stop and the run loop never wait for each other
NoDeadlock == ~(stop = "waiting" /\ loop = "checking" /\ lock = "stop")
\* Stop returns
StopReturns == <>(stop = "returned")
TypeOK == lock \in {"free", "stop", "loop"} /\ stop \in {"idle", "locked", "waiting", "returned"} /\ loop \in {"select", "checking", "done"}
=============================================================================
