SPECIFICATION Spec
CONSTANTS NMsgs = 3 MaxAdv = 3 CheckHeaderMac = TRUE CheckFrameMac = TRUE
INVARIANTS Authentic NoSessionWithoutHandshake
PROPERTIES DeliveredAppendOnly ErrorFinal
CHECK_DEADLOCK FALSE
