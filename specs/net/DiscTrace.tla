------------------------------ MODULE DiscTrace ------------------------------
(***************************************************************************)
(* Trace specification for C17 (discovery).  Every line is one datagram    *)
(* handed to the real udp.handlePacket with the features the driver        *)
(* computed itself.  Features the driver cannot know (does a stale         *)
(* signature still recover some key, does a mutated payload still decode)  *)
(* range over both values; the observed outcome must be one the decision   *)
(* table DiscPacket!Verdict allows.                                        *)
(***************************************************************************)
EXTENDS TraceLib, DiscPacket
VARIABLES l, X
tvars == <<l, X>>
Ev == Trace[l]
TInit == l = 1 /\ X = [e |-> "none"] /\ InitHW
TStep == l <= NLines /\ l' = l + 1 /\ Consumed(l) /\ X' = Ev
TSpec == TInit /\ [][TStep]_tvars

D == X.e = "dgram"
ByK == X.sigBy = "K"
Cands == [len : {X.len}, hashOK : {X.hashOK}, netcompat : {X.netcompat}, type : {IF X.type < 0 THEN 0 ELSE X.type},
          sigOK : IF ByK THEN {TRUE} ELSE BOOLEAN,
          rlpOK : IF X.payloadOK = "yes" THEN {TRUE} ELSE IF X.payloadOK = "no" THEN {FALSE} ELSE BOOLEAN,
          expired : IF X.payloadOK = "yes" THEN {X.expired} ELSE BOOLEAN,
          bonded : {ByK /\ X.bonded}, solicited : {ByK /\ X.solicited}]
Allowed == {Verdict(c) : c \in Cands}

\* "No input of any length or content crashes the node, wedges the connection handler ..."
NoPanicT == D => X.outcome \notin {"panic", "wedge"} /\ X.decPanic = ""
\* "... either delivered ... or rejected with an error": the verdict is the one the decision table gives
VerdictT == D => X.outcome \in Allowed \cup {"panic", "wedge"}     \* (panic / wedge are reported by NoPanicT)
\* "exactly the message that the identified remote key authenticated": a datagram is attributed to K iff K signed exactly these bytes
AttributionT == D /\ X.decoded => X.hashOK /\ (X.fromK <=> ByK)
\* "... or makes it allocate beyond the protocol's size limits" (a datagram is at most 1280 bytes)
AllocT == D => X.alloc <= 4194304
\* replies: a handled ping is answered by a pong echoing its hash; neighbors only go to bonded senders that asked
ReplyT == D => /\ (X.outcome = "handled" /\ TypeName(X.netcompat, X.type) = "ping") => (("pong" \in SetOf(X.replies)) /\ X.echo)
               /\ ("neighbors" \in SetOf(X.replies)) => (ByK /\ X.bonded /\ TypeName(X.netcompat, X.type) = "findnode" /\ X.outcome = "handled")
               /\ X.outcome = "error" => ~("pong" \in SetOf(X.replies)) /\ ~("neighbors" \in SetOf(X.replies))
=============================================================================
