------------------------------ MODULE DialState ------------------------------
(***************************************************************************)
(* The dial scheduler of p2p.Server (p2p/dial.go: dialstate.newTasks,      *)
(* checkDial, taskDone, addStatic, removeStatic, dialHistory).  Beyond the *)
(* listed properties (DESIGN 12.2).  newTasks is called by the run loop on *)
(* every iteration with the current peer set and the time; it is one       *)
(* action here, written in the order of the code, so that the list of      *)
(* tasks it returns can be compared with the real one.  The environment    *)
(* (peers connecting and leaving, time passing, lookups returning) is      *)
(* free.  Time is in seconds.                                              *)
(***************************************************************************)
EXTENDS Integers, FiniteSets, Sequences

CONSTANTS Ids,            \* node identities the scheduler can meet
          Self,           \* the node's own identity (may turn up in lookups and as a static node)
          Restricted,     \* SUBSET Ids: nodes outside the netrestrict whitelist
          MaxDyn,         \* maxDynDials
          Boot,           \* sequence of bootnodes
          Table,          \* sequence: what ReadRandomNodes copies (a prefix of it)
          HistExp,        \* dialHistoryExpiration (30)
          Fallback,       \* fallbackInterval (20)
          Order,          \* sequence of all identities: the order static dial tasks are compared in
          Ticks,          \* set of amounts of time that can pass in one step
          MaxTime,        \* model bound
          PeerKinds,      \* kinds of peers the environment connects: SUBSET {"dyn", "static", "inbound"}
          MaxRes,         \* longest lookup result (0..2)
          CheckHist       \* TRUE: as the code; FALSE: checkDial ignores the dial history (must fail)

VARIABLES now, started, start,
          dialing,        \* function: id -> "dyn" | "static"
          static,         \* set of static ids
          hist,           \* function: id -> expiry time
          lookupRunning, lookupBuf,
          boot,           \* rotating bootnode list
          peers,          \* environment: id -> "dyn" | "static" | "inbound"
          running,        \* environment: number of tasks the run loop has running (dial + discover + wait)
          out             \* what the last call returned: sequence of [t, id, flag]
vars == <<now, started, start, dialing, static, hist, lookupRunning, lookupBuf, boot, peers, running, out>>

AllIds == Ids \cup {Self}
Drop1(f, k) == [x \in (DOMAIN f) \ {k} |-> f[x]]
Put(f, k, v) == [x \in (DOMAIN f) \cup {k} |-> IF x = k THEN v ELSE f[x]]
Count(f, v) == Cardinality({k \in DOMAIN f : f[k] = v})
Div2(n) == IF n <= 0 THEN 0 ELSE n \div 2          \* Go: needDynDials / 2 is used only when positive

Init == /\ now = 0 /\ started = FALSE /\ start = 0
        /\ dialing = <<>> /\ static = {} /\ hist = <<>> /\ lookupRunning = FALSE /\ lookupBuf = <<>>
        /\ boot = Boot /\ peers = <<>> /\ running = 0 /\ out = <<>>

\* checkDial, in the order of its switch; d = dialing map, h = history at the time of the call
CheckDial(n, d, h) ==
  IF n \in DOMAIN d THEN "already dialing"
  ELSE IF n \in DOMAIN peers THEN "already connected"
  ELSE IF n = Self THEN "is self"
  ELSE IF n \in Restricted THEN "not whitelisted"
  ELSE IF CheckHist /\ n \in DOMAIN h THEN "recently dialed"
  ELSE "ok"

\* the members of a set in the order of Order (the static loop ranges over a Go map: any order; the driver sorts the same way)
SortedSeq(S) == SelectSeq(Order, LAMBDA x : x \in S)

\* addDial over the first `limit` candidates of a sequence; returns [d, tasks, need]
RECURSIVE DialSeq(_, _, _, _, _, _)
DialSeq(cands, limit, d, h, tasks, need) ==
  \* limit: how many candidates are looked at
  IF cands = <<>> \/ limit = 0 THEN [d |-> d, tasks |-> tasks, need |-> need]
  ELSE LET n == Head(cands) IN
       IF CheckDial(n, d, h) = "ok"
       THEN DialSeq(Tail(cands), limit - 1, Put(d, n, "dyn"), h, Append(tasks, [t |-> "dial", id |-> n, flag |-> "dyn", dur |-> 0]), need - 1)
       ELSE DialSeq(Tail(cands), limit - 1, d, h, tasks, need)

\* the lookup buffer loop: candidates are tried while need > 0
RECURSIVE BufLoop(_, _, _, _, _, _)
BufLoop(buf, i, d, h, tasks, need) ==
  IF i > Len(buf) \/ need <= 0 THEN [d |-> d, tasks |-> tasks, need |-> need, i |-> i]
  ELSE LET n == buf[i] IN
       IF CheckDial(n, d, h) = "ok"
       THEN BufLoop(buf, i + 1, Put(d, n, "dyn"), h, Append(tasks, [t |-> "dial", id |-> n, flag |-> "dyn", dur |-> 0]), need - 1)
       ELSE BufLoop(buf, i + 1, d, h, tasks, need)

Min(S) == CHOOSE x \in S : \A y \in S : x <= y

NewTasks ==
  LET st == IF started THEN start ELSE now
      need0 == MaxDyn - Count(peers, "dyn") - Count(dialing, "dyn")
      \* hist.expire(now): entries whose expiry lies before now go
      h1 == [k \in {x \in DOMAIN hist : hist[x] >= now} |-> hist[k]]
      \* static nodes
      sOK == {s \in static : CheckDial(s, dialing, h1) = "ok"}
      sGone == {s \in static : CheckDial(s, dialing, h1) \in {"not whitelisted", "is self"}}
      d1 == [k \in (DOMAIN dialing) \cup sOK |-> IF k \in sOK THEN "static" ELSE dialing[k]]
      sTasks == [k \in 1..Cardinality(sOK) |-> [t |-> "dial", id |-> SortedSeq(sOK)[k], flag |-> "static", dur |-> 0]]
      \* bootnode fallback
      useBoot == Cardinality(DOMAIN peers) = 0 /\ Len(boot) > 0 /\ need0 > 0 /\ now - st > Fallback
      boot1 == IF useBoot THEN Append(Tail(boot), Head(boot)) ELSE boot
      r1 == IF useBoot THEN DialSeq(<<Head(boot)>>, 1, d1, h1, sTasks, need0) ELSE [d |-> d1, tasks |-> sTasks, need |-> need0]
      \* random nodes from the table: the buffer holds MaxDyn/2 nodes, needDyn/2 of them are tried
      nbuf == IF Len(Table) < MaxDyn \div 2 THEN Len(Table) ELSE MaxDyn \div 2
      rc == Div2(r1.need)
      r2 == IF rc > 0 THEN DialSeq(SubSeq(Table, 1, nbuf), rc, r1.d, h1, r1.tasks, r1.need) ELSE r1
      \* lookup results
      r3 == BufLoop(lookupBuf, 1, r2.d, h1, r2.tasks, r2.need)
      buf1 == SubSeq(lookupBuf, r3.i, Len(lookupBuf))
      look == Len(buf1) < r3.need /\ ~lookupRunning
      t4 == IF look THEN Append(r3.tasks, [t |-> "discover", id |-> "", flag |-> "", dur |-> 0]) ELSE r3.tasks
      wait == running = 0 /\ t4 = <<>> /\ DOMAIN h1 # {}
      t5 == IF wait THEN <<[t |-> "wait", id |-> "", flag |-> "", dur |-> Min({h1[k] : k \in DOMAIN h1}) - now]>> ELSE t4
  IN /\ started' = TRUE /\ start' = st
     /\ hist' = h1
     /\ static' = static \ sGone
     /\ dialing' = r3.d
     /\ boot' = boot1
     /\ lookupBuf' = buf1
     /\ lookupRunning' = (lookupRunning \/ look)
     /\ out' = t5
     /\ running' = running + Len(t5)          \* the run loop starts them (the bound of 16 active tasks is not reached here)
     /\ UNCHANGED <<now, peers>>

\* a dial task finished (whether or not it produced a peer)
DialDone(id) ==
  /\ id \in DOMAIN dialing /\ running > 0
  /\ hist' = Put(hist, id, now + HistExp)
  /\ dialing' = Drop1(dialing, id)
  /\ running' = running - 1
  /\ out' = <<>>
  /\ UNCHANGED <<now, started, start, static, lookupRunning, lookupBuf, boot, peers>>

\* the discovery lookup returned
LookupDone(res) ==
  /\ lookupRunning /\ running > 0
  /\ lookupRunning' = FALSE
  /\ lookupBuf' = lookupBuf \o res
  /\ running' = running - 1
  /\ out' = <<>>
  /\ UNCHANGED <<now, started, start, dialing, static, hist, boot, peers>>

\* a wait task finished
WaitDone ==
  /\ running > Cardinality(DOMAIN dialing) + (IF lookupRunning THEN 1 ELSE 0)
  /\ running' = running - 1 /\ out' = <<>>
  /\ UNCHANGED <<now, started, start, dialing, static, hist, lookupRunning, lookupBuf, boot, peers>>

AddStatic(id) == /\ static' = static \cup {id} /\ out' = <<>>
                 /\ UNCHANGED <<now, started, start, dialing, hist, lookupRunning, lookupBuf, boot, peers, running>>
RemoveStatic(id) == /\ static' = static \ {id} /\ hist' = Drop1(hist, id) /\ out' = <<>>
                    /\ UNCHANGED <<now, started, start, dialing, lookupRunning, lookupBuf, boot, peers, running>>

\* environment
PeerUp(id, kind) == /\ id \notin DOMAIN peers /\ peers' = Put(peers, id, kind) /\ out' = <<>>
                    /\ UNCHANGED <<now, started, start, dialing, static, hist, lookupRunning, lookupBuf, boot, running>>
PeerDown(id) == /\ id \in DOMAIN peers /\ peers' = Drop1(peers, id) /\ out' = <<>>
                /\ UNCHANGED <<now, started, start, dialing, static, hist, lookupRunning, lookupBuf, boot, running>>
Tick(dt) == /\ now + dt <= MaxTime /\ now' = now + dt /\ out' = <<>>
            /\ UNCHANGED <<started, start, dialing, static, hist, lookupRunning, lookupBuf, boot, peers, running>>

\* what a lookup can return: nothing, one node, or two nodes (neighbours in Order, twice the same one included)
LookupResults == {<<>>} \cup (IF MaxRes >= 1 THEN {<<a>> : a \in AllIds} ELSE {})
                 \cup (IF MaxRes >= 2 THEN {<<Order[i], Order[i + 1]>> : i \in 1..(Len(Order) - 1)} \cup {<<Order[1], Order[1]>>} ELSE {})

Next == \/ NewTasks
        \/ \E id \in DOMAIN dialing : DialDone(id)
        \/ \E res \in LookupResults : LookupDone(res)
        \/ WaitDone
        \/ \E id \in AllIds : AddStatic(id) \/ RemoveStatic(id)
        \/ \E id \in Ids, k \in PeerKinds : PeerUp(id, k)
        \/ \E id \in DOMAIN peers : PeerDown(id)
        \/ \E dt \in Ticks : Tick(dt)
Spec == Init /\ [][Next]_vars

----------------------------------------------------------------------------
Dialled == {out[k].id : k \in {j \in 1..Len(out) : out[j].t = "dial"}}
\* the node never dials itself or a node outside the whitelist
NeverSelfOrRestricted == \A k \in 1..Len(out) : out[k].t = "dial" => (out[k].id # Self /\ out[k].id \notin Restricted)
\* one call never dials the same node twice
NoDoubleDial == \A j, k \in 1..Len(out) : (out[j].t = "dial" /\ out[k].t = "dial" /\ out[j].id = out[k].id) => j = k
\* dynamic dials in flight plus dynamically dialled peers stay within the budget whenever a dynamic dial is issued
DynBudget == (\E k \in 1..Len(out) : out[k].t = "dial" /\ out[k].flag = "dyn") => Count(peers, "dyn") + Count(dialing, "dyn") <= MaxDyn
\* at most one discovery lookup at a time
OneLookup == Cardinality({k \in 1..Len(out) : out[k].t = "discover"}) <= 1
\* action properties: what is dialled was neither connected, nor being dialled, nor dialled within the last HistExp seconds
FreshDialsProp == [][NewTasks => \A id \in Dialled' : /\ id \notin DOMAIN peers /\ id \notin DOMAIN dialing
                                                     /\ (id \in DOMAIN hist => hist[id] < now)]_vars
NoLookupWhileRunningProp == [][(NewTasks /\ lookupRunning) => \A k \in 1..Len(out') : out'[k].t # "discover"]_vars
\* every static node that can be dialled is dialled at once
StaticServedProp == [][NewTasks => \A s \in static' : s \in DOMAIN dialing' \/ s \in DOMAIN peers \/ s \in DOMAIN hist']_vars
TypeOK == /\ DOMAIN dialing \subseteq AllIds /\ static \subseteq AllIds /\ now \in 0..MaxTime /\ running \in Nat

\* sequence constants for the configuration files (a .cfg cannot write a sequence)
BootS == <<"b">>
TableS == <<"a">>
OrderS == <<"a", "b", "c", "self">>
BootG == <<"e", "f">>
TableG == <<"a", "b", "c", "d">>
OrderG == <<"a", "b", "c", "d", "e", "f", "r", "self">>

\* exhaustive runs only
Bound == Len(lookupBuf) <= 1 /\ running <= 3
View == <<now, started, start, dialing, static, hist, lookupRunning, lookupBuf, boot, peers, running>>
=============================================================================
