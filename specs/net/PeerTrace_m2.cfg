SPECIFICATION TSpec
CONSTANTS Ids = {"a", "b", "c", "d", "e"} Self = "self" Trusted = {"a"} MaxPeers = 2 MaxInbound = 1 MaxConns = 1000000 Recheck = TRUE
INVARIANTS AnswerT PeersT LimitsT NoWedgeT CountConsistent OrdinaryBounded InboundBounded NeverSelf
POSTCONDITION TraceAccepted
CHECK_DEADLOCK FALSE
