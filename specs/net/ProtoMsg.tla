-------------------------------- MODULE ProtoMsg --------------------------------
(***************************************************************************)
(* C17, sub-protocol messages (aqua/handler.go handleMsg).  The verdict on *)
(* one message read from an established peer, in the order of the code's   *)
(* checks:                                                                 *)
(*   size > ProtocolMaxMsgSize            -> the peer is dropped           *)
(*   a status message after the handshake -> dropped                       *)
(*   unknown code                         -> dropped                       *)
(*   payload does not decode as the code's type -> dropped                 *)
(*   otherwise the message is handled within the protocol's limits and the *)
(*   peer is kept (requests are answered with at most softResponseLimit +  *)
(*   one item, deliveries nobody asked for are ignored).                   *)
(* "kept" or "dropped" is the whole outcome alphabet: no panic, no wedge.  *)
(***************************************************************************)
EXTENDS Integers
MaxMsgSize == 10 * 1024 * 1024
KnownCodes == {1, 2, 3, 4, 5, 6, 7, 13, 14, 15, 16}
Verdict(m) == IF m.size > MaxMsgSize THEN "dropped"
              ELSE IF m.code = 0 THEN "dropped"
              ELSE IF m.code \notin KnownCodes THEN "dropped"
              ELSE IF ~m.decodes THEN "dropped"
              ELSE "kept"
=============================================================================
