SPECIFICATION Spec
CONSTANTS CheckTagLen = TRUE
INVARIANTS OutcomeAlphabet AuthenticatedOnly NoAmplification
