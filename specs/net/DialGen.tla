------------------------------- MODULE DialGen -------------------------------
(* Direction A for DialState.tla: behaviours with a history variable; every behaviour of GenDepth steps is printed as JSON and
   replayed by the Go driver on a real p2p dialstate (newTasks / taskDone / addStatic / removeStatic with a fake clock). *)
EXTENDS DialState, Json, TLC
CONSTANT GenDepth
VARIABLE h
gvars == <<vars, h>>
E == [op |-> "", id |-> "", kind |-> "", dt |-> 0, res |-> <<>>]
GInit == Init /\ h = <<>>
\* every third step is a call of newTasks (it is always enabled); the simulator picks uniformly among the others in between
GNext == /\ Len(h) < GenDepth
         /\ IF Len(h) % 3 = 2
            THEN NewTasks /\ h' = Append(h, [E EXCEPT !.op = "newtasks"])
            ELSE \/ \E id \in DOMAIN dialing : DialDone(id) /\ h' = Append(h, [E EXCEPT !.op = "dialdone", !.id = id])
                 \/ \E res \in LookupResults : LookupDone(res) /\ h' = Append(h, [E EXCEPT !.op = "lookupdone", !.res = res])
                 \/ WaitDone /\ h' = Append(h, [E EXCEPT !.op = "waitdone"])
                 \/ \E id \in AllIds : AddStatic(id) /\ h' = Append(h, [E EXCEPT !.op = "addstatic", !.id = id])
                 \/ \E id \in static : RemoveStatic(id) /\ h' = Append(h, [E EXCEPT !.op = "removestatic", !.id = id])
                 \/ \E id \in Ids : \E k \in {CHOOSE x \in PeerKinds : TRUE, IF id \in DOMAIN dialing THEN dialing[id] ELSE "inbound"} \cap PeerKinds :
                        PeerUp(id, k) /\ h' = Append(h, [E EXCEPT !.op = "peerup", !.id = id, !.kind = k])
                 \/ \E id \in DOMAIN peers : PeerDown(id) /\ h' = Append(h, [E EXCEPT !.op = "peerdown", !.id = id])
                 \/ \E dt \in Ticks : Tick(dt) /\ h' = Append(h, [E EXCEPT !.op = "tick", !.dt = dt])
GSpec == GInit /\ [][GNext]_gvars
Emit == Len(h) < GenDepth \/ PrintT(<<"GEN", ToJson([ops |-> h, maxdyn |-> MaxDyn, boot |-> Boot, table |-> Table, restricted |-> Restricted, self |-> Self])>>)
=============================================================================
