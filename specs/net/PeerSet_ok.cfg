SPECIFICATION Spec
CONSTANTS Ids = {"a", "b", "c"} Self = "self" Trusted = {"a"} MaxPeers = 2 MaxInbound = 1 MaxConns = 5 Recheck = TRUE
INVARIANTS TypeOK CountConsistent OrdinaryBounded InboundBounded NeverSelf TrustedFlagged
VIEW View
CHECK_DEADLOCK FALSE
