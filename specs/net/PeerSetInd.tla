----------------------------- MODULE PeerSetInd -----------------------------
(***************************************************************************)
(* Inductive invariant of PeerSet.tla, discharged by Apalache:             *)
(*   IndInit => IndInv                      (--init=IndInit --length=0)    *)
(*   IndInv /\ Next => IndInv'              (--init=IndInit --length=1)    *)
(* IndInit is "any state satisfying IndInv", so the second run covers      *)
(* every transition from every such state: the limits of PeerSet.tla hold  *)
(* after ANY number of connects, handshakes and drops - TLC's exhaustive   *)
(* run (PeerSet_ok.cfg) stops at MaxConns connection attempts.             *)
(* IndInv adds to the listed invariants only what the pending entries      *)
(* carry between the two checkpoints (their trusted flag is the truth).    *)
(***************************************************************************)
EXTENDS PeerSet

Flags == [inbound : BOOLEAN, trusted : BOOLEAN, static : BOOLEAN]
PendRec == [id : AllIds, inbound : BOOLEAN, trusted : BOOLEAN, static : BOOLEAN]
LastRec == [op : {"init", "connect", "addpeer", "drop"}, conn : 0..MaxConns, id : AllIds \cup {""},
            res : {"", "ok", "too many peers", "already connected", "connected to self"}]

PendingOK == \A n \in DOMAIN pending : pending[n].trusted <=> pending[n].id \in Trusted

IndInv == /\ CountConsistent /\ OrdinaryBounded /\ InboundBounded /\ NeverSelf /\ TrustedFlagged
          /\ PendingOK
          /\ PeerIds \subseteq AllIds /\ inboundCount >= 0 /\ nconn \in 0..MaxConns
          /\ DOMAIN pending \subseteq 1..MaxConns

IndInit == /\ \E D \in SUBSET AllIds : peers \in [D -> Flags]
           /\ inboundCount \in 0..Cardinality(AllIds)
           /\ \E D \in SUBSET (1..MaxConns) : pending \in [D -> PendRec]
           /\ nconn \in 0..MaxConns
           /\ last \in LastRec
           /\ IndInv
=============================================================================
