------------------------------ MODULE DiscPacket ------------------------------
(***************************************************************************)
(* C17, discovery datagrams.  A datagram is                                *)
(*     hash(32) || sig(65) || type(1) || ["aqua"] || rlp(payload)          *)
(* The verdict of p2p/discover decodePacket / handlePacket as a decision   *)
(* table over the features of the datagram.  The table follows the order   *)
(* of the checks in the code (one line per check), so that "what is        *)
(* checked before what" is part of the specification.                      *)
(*  features: len (total bytes), hashOK, sigOK (a key is recoverable),     *)
(*  netcompat (chain id 1: no tag, type bytes 1..4), type byte, rlpOK,     *)
(*  expired, and the receiver's state: bonded(sender), solicited(reply).   *)
(* Verdicts: "error" (returned to the read loop, nothing happens),         *)
(*  "handled"; anything else ("panic") is outside the outcome alphabet.    *)
(***************************************************************************)
EXTENDS Integers, FiniteSets
CONSTANTS CheckTagLen      \* TRUE: the length of the tag is checked before it is stripped (the repaired code)

MacSize == 32
SigSize == 65
HeadSize == MacSize + SigSize
TagLen(netcompat) == IF netcompat THEN 0 ELSE 4
TypeName(netcompat, t) ==
  LET u == IF netcompat /\ t < 133 THEN t + 133 ELSE t IN   \* byte arithmetic: 133+t never wraps for t < 133... except t >= 123
    CASE u % 256 = 134 -> "ping" [] u % 256 = 135 -> "pong" [] u % 256 = 136 -> "findnode" [] u % 256 = 137 -> "neighbors" [] OTHER -> "unknown"

\* decodePacket
Decode(f) ==
  IF f.len < HeadSize + 1 THEN "error"                                   \* errPacketTooSmall
  ELSE IF ~f.hashOK THEN "error"                                         \* errBadHash
  ELSE IF ~f.sigOK THEN "error"                                          \* recoverNodeID failed
  ELSE IF TypeName(f.netcompat, f.type) = "unknown" THEN "error"
  ELSE IF f.len < HeadSize + 1 + TagLen(f.netcompat) THEN (IF CheckTagLen THEN "error" ELSE "panic")   \* sigdata[1+4:]
  ELSE IF ~f.rlpOK THEN "error"
  ELSE "decoded"

\* packet.handle
Handle(f) ==
  IF f.expired THEN "error"
  ELSE CASE TypeName(f.netcompat, f.type) = "ping" -> "handled"                               \* replies with a pong echoing the hash
         [] TypeName(f.netcompat, f.type) = "pong" -> IF f.solicited THEN "handled" ELSE "error"
         [] TypeName(f.netcompat, f.type) = "findnode" -> IF f.bonded THEN "handled" ELSE "error"   \* no amplification for strangers
         [] TypeName(f.netcompat, f.type) = "neighbors" -> IF f.solicited THEN "handled" ELSE "error"

Verdict(f) == IF Decode(f) = "decoded" THEN Handle(f) ELSE Decode(f)
Reply(f) == IF Verdict(f) # "handled" THEN "none"
            ELSE IF TypeName(f.netcompat, f.type) = "ping" THEN "pong"
            ELSE IF TypeName(f.netcompat, f.type) = "findnode" THEN "neighbors" ELSE "none"

=============================================================================
