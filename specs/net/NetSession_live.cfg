SPECIFICATION Spec
CONSTANTS NMsgs = 2 MaxAdv = 2 CheckHeaderMac = TRUE CheckFrameMac = TRUE
INVARIANTS Authentic
PROPERTIES NoWedge
CHECK_DEADLOCK FALSE
