SPECIFICATION TSpec
INVARIANTS NoPanicT VerdictT AllocT
POSTCONDITION TraceAccepted
CHECK_DEADLOCK FALSE
