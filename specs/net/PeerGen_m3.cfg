SPECIFICATION GSpec
CONSTANTS Ids = {"a", "b", "c", "d", "e", "f"} Self = "self" Trusted = {"a", "b"} MaxPeers = 3 MaxInbound = 2 MaxConns = 40 Recheck = TRUE GenDepth = 28 DialRatio = 3
INVARIANTS Emit
CHECK_DEADLOCK FALSE
