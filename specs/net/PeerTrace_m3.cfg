SPECIFICATION TSpec
CONSTANTS Ids = {"a", "b", "c", "d", "e", "f"} Self = "self" Trusted = {"a", "b"} MaxPeers = 3 MaxInbound = 2 MaxConns = 1000000 Recheck = TRUE
INVARIANTS AnswerT PeersT LimitsT NoWedgeT CountConsistent OrdinaryBounded InboundBounded NeverSelf
POSTCONDITION TraceAccepted
CHECK_DEADLOCK FALSE
