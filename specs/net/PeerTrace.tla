------------------------------ MODULE PeerTrace ------------------------------
(* Trace validation of the real p2p.Server run loop against PeerSet.tla: every recorded step names the action the driver let the
   real code take, the answer the real checkpoint gave and the peer set (identity, inbound, trusted, static) read from
   Server.Peers() after it; the trace spec takes the same action in the model and demands the same answer and the same set.
   "reset" starts a new server with the recorded limits. *)
EXTENDS PeerSet, TraceLib
VARIABLES l, obs
tvars == <<vars, l, obs>>
Ev == Trace[l]
IsEv(op) == l <= NLines /\ Ev.op = op /\ l' = l + 1 /\ Consumed(l) /\ obs' = Ev
TInit == Init /\ l = 1 /\ obs = [op |-> "none"] /\ InitHW
TReset == IsEv("reset") /\ peers' = <<>> /\ inboundCount' = 0 /\ pending' = <<>> /\ nconn' = 0
          /\ last' = [op |-> "init", conn |-> 0, id |-> "", res |-> ""]
TNext == \/ TReset
         \/ IsEv("connect") /\ Connect(Ev.id, Ev.kind)
         \/ IsEv("addpeer") /\ AddPeer(Ev.conn)
         \/ IsEv("drop") /\ Drop(Ev.id)
         \/ IsEv("stop") /\ UNCHANGED vars        \* Server.Stop() while the pending handshakes complete (ServerStop.tla)
TSpec == TInit /\ [][TNext]_tvars

Step == obs.op \notin {"none", "reset", "stop"}
\* the real checkpoint answers what the model answers
AnswerT == Step => obs.res = last.res
\* the real peer set is the model's
ObsPeers == [k \in 1..Len(obs.peers) |-> obs.peers[k]]
PeersT == Step => /\ {obs.peers[k].id : k \in 1..Len(obs.peers)} = PeerIds
                  /\ \A k \in 1..Len(obs.peers) : LET p == obs.peers[k] IN
                        p.id \in PeerIds => (p.inbound = peers[p.id].inbound /\ p.trusted = peers[p.id].trusted /\ p.static = peers[p.id].static)
                  /\ Len(obs.peers) = Cardinality(PeerIds)
\* the safety properties on what the real server showed
LimitsT == Step => LET ps == {obs.peers[k] : k \in 1..Len(obs.peers)} IN
                   /\ Cardinality({p \in ps : ~(p.trusted \/ p.static)}) <= MaxPeers
                   /\ Cardinality({p \in ps : p.inbound /\ ~p.trusted}) <= MaxInbound
                   /\ \A p \in ps : p.id # Self
                   /\ \A j, k \in 1..Len(obs.peers) : obs.peers[j].id = obs.peers[k].id => j = k
\* no step and no shutdown wedges the server
NoWedgeT == obs.op \notin {"none", "reset"} => ~obs.wedged
=============================================================================
