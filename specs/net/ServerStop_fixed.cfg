SPECIFICATION Spec
CONSTANTS Conns = {"c1", "c2", "c3"} HoldLock = FALSE
INVARIANTS TypeOK NoDeadlock
PROPERTIES StopReturns
CHECK_DEADLOCK FALSE
