SPECIFICATION TSpec
INVARIANTS NoCrashT RejectT HonestT
POSTCONDITION TraceAccepted
CHECK_DEADLOCK FALSE
