SPECIFICATION GSpec
CONSTANTS Ids = {"a", "b", "c", "d", "e"} Self = "self" Trusted = {"a"} MaxPeers = 2 MaxInbound = 1 MaxConns = 40 Recheck = TRUE GenDepth = 24 DialRatio = 2
INVARIANTS Emit
CHECK_DEADLOCK FALSE
