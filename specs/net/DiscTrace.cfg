SPECIFICATION TSpec
CONSTANTS CheckTagLen = TRUE
INVARIANTS NoPanicT VerdictT AttributionT AllocT ReplyT
POSTCONDITION TraceAccepted
CHECK_DEADLOCK FALSE
