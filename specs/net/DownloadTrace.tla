---------------------------- MODULE DownloadTrace ----------------------------
(* C17, sync replies: the first request of every sync cycle asks the peer for its head header; the peer's BlockHeaders reply is
   network input like any other.  One line per (protocol version, sync mode, kind of reply):
     sync{protocol, mode, reply, err, panic, back}
   "either delivered ... or rejected with an error; no input crashes the node or wedges the handler" *)
EXTENDS TraceLib
VARIABLES l, X
tvars == <<l, X>>
TInit == l = 1 /\ X = [e |-> "none"] /\ InitHW
TStep == l <= NLines /\ l' = l + 1 /\ Consumed(l) /\ X' = Trace[l]
TSpec == TInit /\ [][TStep]_tvars
S == X.e = "sync"
NoCrashT == S => (X.panic = "" /\ X.back)
\* an empty reply, or a header that is not the one asked for, ends the cycle with an error
RejectT == (S /\ X.reply \in {"empty", "other"}) => X.err # ""
\* the honest peer is synchronised with
HonestT == (S /\ X.reply = "honest") => X.err = ""
=============================================================================
