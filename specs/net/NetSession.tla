------------------------------ MODULE NetSession ------------------------------
(***************************************************************************)
(* C17, an RLPx session with an adversary on the wire (p2p/rlpx.go).       *)
(*                                                                         *)
(* Handshake: the initiator sends auth, the receiver answers ack; both are *)
(* ECIES messages (encrypted and MACed to the recipient's key), so an      *)
(* altered handshake message is rejected by its recipient; if both pass,   *)
(* the two ends share the secrets and each MAC state is seeded with the    *)
(* handshake bytes.  If only the ack is altered the receiver believes the  *)
(* session is up while the initiator has given up.                         *)
(*                                                                         *)
(* Frames: message i travels as four chunks, read POSITIONALLY by the      *)
(* receiver (bytes have no kinds on the wire):                             *)
(*    header(i)  header-MAC  frame(i)  frame-MAC                           *)
(* The egress MAC is a running digest over everything written, keyed with  *)
(* the session secret: abstractly Mac(k, history).  The adversary may      *)
(* replace any chunk by garbage, drop, duplicate or swap chunks, and       *)
(* truncate the stream; it does not know the secret, so the only MAC       *)
(* values it can put on the wire are ones it has seen.                     *)
(*                                                                         *)
(* CheckHeaderMac / CheckFrameMac: what ReadMsg verifies.  Both TRUE is    *)
(* the code; CheckFrameMac = FALSE is the seeded defect that the           *)
(* properties must catch.                                                  *)
(***************************************************************************)
EXTENDS Integers, Sequences, FiniteSets, SequencesExt
CONSTANTS NMsgs, MaxAdv, CheckHeaderMac, CheckFrameMac

VARIABLES hs,          \* handshake: "start" | "authSent" | "ackSent" | "done" | "failed"
          authOK, ackOK, \* did auth / ack arrive unaltered
          iUp, rUp,    \* initiator / receiver consider the session established
          nsent,       \* messages written by the initiator so far
          shist,       \* egress MAC history of the sender (sequence of data chunks)
          wire,        \* chunks in flight (sequence)
          closed,      \* the adversary cut the stream: no more chunks will arrive
          phase,       \* receiver's position in the frame: 1 header, 2 header MAC, 3 frame, 4 frame MAC
          rhist, rcur, \* ingress MAC history, chunk being verified
          delivered,   \* messages handed to the application
          rstate,      \* "reading" | "error"
          adv          \* adversary actions used
vars == <<hs, authOK, ackOK, iUp, rUp, nsent, shist, wire, closed, phase, rhist, rcur, delivered, rstate, adv>>

Mac(h) == <<"mac", h>>
Hdr(i) == <<"h", i>>
Frm(i) == <<"f", i>>
Garbage == <<"x">>

Init == /\ hs = "start" /\ authOK = TRUE /\ ackOK = TRUE /\ iUp = FALSE /\ rUp = FALSE
        /\ nsent = 0 /\ shist = <<>> /\ wire = <<>> /\ closed = FALSE /\ phase = 1 /\ rhist = <<>> /\ rcur = Garbage
        /\ delivered = <<>> /\ rstate = "reading" /\ adv = 0

(* ---- handshake ---- *)
SendAuth(tamper) == /\ hs = "start" /\ hs' = "authSent" /\ authOK' = ~tamper /\ adv' = adv + (IF tamper THEN 1 ELSE 0) /\ adv' <= MaxAdv
                    /\ UNCHANGED <<ackOK, iUp, rUp, nsent, shist, wire, closed, phase, rhist, rcur, delivered, rstate>>
RecvAuth == /\ hs = "authSent"
            /\ IF authOK THEN hs' = "ackSent" /\ rUp' = TRUE /\ UNCHANGED rstate       \* receiverEncHandshake returns secrets after writing ack
               ELSE hs' = "failed" /\ rstate' = "error" /\ UNCHANGED rUp               \* ECIES MAC / signature recovery fails
            /\ UNCHANGED <<authOK, ackOK, iUp, nsent, shist, wire, closed, phase, rhist, rcur, delivered, adv>>
RecvAck(tamper) == /\ hs = "ackSent" /\ adv' = adv + (IF tamper THEN 1 ELSE 0) /\ adv' <= MaxAdv
                   /\ ackOK' = ~tamper
                   /\ IF tamper THEN hs' = "failed" /\ UNCHANGED iUp ELSE hs' = "done" /\ iUp' = TRUE
                   /\ UNCHANGED <<authOK, rUp, nsent, shist, wire, closed, phase, rhist, rcur, delivered, rstate>>

(* ---- frames ---- *)
Send == /\ iUp /\ nsent < NMsgs /\ ~closed
        /\ LET i == nsent + 1
               h1 == Append(shist, Hdr(i))
               h2 == Append(h1, Frm(i))
           IN /\ wire' = wire \o <<Hdr(i), Mac(h1), Frm(i), Mac(h2)>>
              /\ shist' = h2
              /\ nsent' = i
        /\ UNCHANGED <<hs, authOK, ackOK, iUp, rUp, closed, phase, rhist, rcur, delivered, rstate, adv>>

Adversary ==
  /\ adv < MaxAdv /\ adv' = adv + 1 /\ ~closed
  /\ \/ \E k \in 1..Len(wire) : wire' = [wire EXCEPT ![k] = Garbage] /\ UNCHANGED closed          \* flip bits
     \/ \E k \in 1..Len(wire) : wire' = RemoveAt(wire, k) /\ UNCHANGED closed                     \* drop bytes
     \/ \E k \in 1..Len(wire) : wire' = InsertAt(wire, k, wire[k]) /\ UNCHANGED closed            \* replay
     \/ \E k \in 1..(Len(wire) - 1) : wire' = [wire EXCEPT ![k] = wire[k + 1], ![k + 1] = wire[k]] /\ UNCHANGED closed
     \/ \E k \in 0..Len(wire) : wire' = SubSeq(wire, 1, k) /\ closed' = TRUE                      \* truncate and close
  /\ UNCHANGED <<hs, authOK, ackOK, iUp, rUp, nsent, shist, phase, rhist, rcur, delivered, rstate>>

Read ==
  /\ rUp /\ rstate = "reading" /\ wire # <<>>
  /\ LET c == Head(wire) IN
     /\ wire' = Tail(wire)
     /\ CASE phase \in {1, 3} -> /\ rcur' = c /\ phase' = phase + 1 /\ UNCHANGED <<rhist, delivered, rstate>>
          [] phase = 2 -> IF CheckHeaderMac /\ c # Mac(Append(rhist, rcur))
                          THEN rstate' = "error" /\ UNCHANGED <<rhist, rcur, phase, delivered>>       \* "bad header MAC"
                          ELSE rhist' = Append(rhist, rcur) /\ phase' = 3 /\ UNCHANGED <<rcur, delivered, rstate>>
          [] phase = 4 -> IF CheckFrameMac /\ c # Mac(Append(rhist, rcur))
                          THEN rstate' = "error" /\ UNCHANGED <<rhist, rcur, phase, delivered>>       \* "bad frame MAC"
                          ELSE /\ rhist' = Append(rhist, rcur) /\ phase' = 1 /\ UNCHANGED <<rcur, rstate>>
                               /\ delivered' = Append(delivered, rcur)
  /\ UNCHANGED <<hs, authOK, ackOK, iUp, rUp, nsent, shist, closed, adv>>

ReadEOF == /\ rUp /\ rstate = "reading" /\ wire = <<>> /\ (closed \/ hs = "failed")
           /\ rstate' = "error"                                                                        \* io.ErrUnexpectedEOF / EOF
           /\ UNCHANGED <<hs, authOK, ackOK, iUp, rUp, nsent, shist, wire, closed, phase, rhist, rcur, delivered, adv>>

Next == \/ \E t \in BOOLEAN : SendAuth(t) \/ RecvAck(t)
        \/ RecvAuth \/ Send \/ Adversary \/ Read \/ ReadEOF
Spec == Init /\ [][Next]_vars /\ WF_vars(Read) /\ WF_vars(ReadEOF)

SentSeq == [i \in 1..nsent |-> Frm(i)]
\* "what one side writes is what the other reads": the application sees a prefix of what the identified peer wrote
Authentic == IsPrefix(delivered, SentSeq)
\* nothing is delivered on a session whose handshake was altered
NoSessionWithoutHandshake == delivered # <<>> => authOK /\ ackOK
\* "any bit flipped on the wire is detected before delivery": once the stream differs from what was written, nothing more is delivered
DeliveredAppendOnly == [][IsPrefix(delivered, delivered')]_vars
\* an error is final
ErrorFinal == [][rstate = "error" => rstate' = "error" /\ delivered' = delivered]_vars
\* liveness: a cut stream does not wedge the reader (every read has a deadline or sees EOF)
NoWedge == (rUp /\ (closed \/ hs = "failed")) ~> (rstate = "error")
=============================================================================
