------------------------------- MODULE PeerGen -------------------------------
(* Direction A for PeerSet.tla: behaviours with a history variable; every behaviour of GenDepth steps is printed as JSON and
   replayed by the Go driver on a real p2p.Server run loop (connections through setupConn with a gated protocol handshake). *)
EXTENDS PeerSet, Json, TLC
CONSTANTS GenDepth, DialRatio
VARIABLE hist
gvars == <<vars, hist>>
GInit == Init /\ hist = <<>>
GNext == /\ Len(hist) < GenDepth
         /\ \/ \E id \in AllIds, k \in Kinds : Connect(id, k) /\ hist' = Append(hist, [op |-> "connect", id |-> id, kind |-> k, conn |-> nconn + 1])
            \/ \E n \in DOMAIN pending : AddPeer(n) /\ hist' = Append(hist, [op |-> "addpeer", id |-> pending[n].id, kind |-> "", conn |-> n])
            \/ \E id \in DOMAIN peers : Drop(id) /\ hist' = Append(hist, [op |-> "drop", id |-> id, kind |-> "", conn |-> 0])
GSpec == GInit /\ [][GNext]_gvars
Emit == Len(hist) < GenDepth \/ PrintT(<<"GEN", ToJson([ops |-> hist, maxpeers |-> MaxPeers, dialratio |-> DialRatio, trusted |-> Trusted, self |-> Self])>>)
=============================================================================
