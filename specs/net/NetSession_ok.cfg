SPECIFICATION Spec
CONSTANTS NMsgs = 3 MaxAdv = 2 CheckHeaderMac = TRUE CheckFrameMac = TRUE
INVARIANTS Authentic NoSessionWithoutHandshake
PROPERTIES DeliveredAppendOnly ErrorFinal
CHECK_DEADLOCK FALSE
