SPECIFICATION Spec
CONSTANTS Ids = {"a", "b", "c"} Self = "self" Restricted = {"c"} MaxDyn = 2 HistExp = 2 Fallback = 1
          Ticks = {2} MaxTime = 4 CheckHist = TRUE PeerKinds = {"dyn"} MaxRes = 1
          Boot <- BootS Table <- TableS Order <- OrderS
INVARIANTS TypeOK NeverSelfOrRestricted NoDoubleDial DynBudget OneLookup
PROPERTIES FreshDialsProp NoLookupWhileRunningProp StaticServedProp
CONSTRAINT Bound
CHECK_DEADLOCK FALSE
