SPECIFICATION TSpec
CONSTANTS Ids = {"a", "b", "c", "d", "e", "f", "r"} Self = "self" Restricted = {"r"} MaxDyn = 4 HistExp = 30 Fallback = 20
          Ticks = {1, 9, 15, 31} MaxTime = 1000000000 CheckHist = TRUE PeerKinds = {"dyn", "static", "inbound"} MaxRes = 2
          Boot <- BootG Table <- TableG Order <- OrderG
INVARIANTS TasksT StateT DialsT NeverSelfOrRestricted NoDoubleDial DynBudget OneLookup
PROPERTIES FreshDialsProp NoLookupWhileRunningProp StaticServedProp
POSTCONDITION TraceAccepted
CHECK_DEADLOCK FALSE
