SPECIFICATION Spec
CONSTANTS CheckTagLen = FALSE
INVARIANTS OutcomeAlphabet AuthenticatedOnly NoAmplification
