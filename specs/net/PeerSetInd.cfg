INIT IndInit
NEXT Next
CONSTANTS Ids = {"a", "b", "c"} Self = "self" Trusted = {"a"} MaxPeers = 2 MaxInbound = 1 MaxConns = 3 Recheck = TRUE
INVARIANT IndInv
