------------------------------ MODULE DiscPacketMC ------------------------------
(* every feature combination of a discovery datagram against the decision table *)
EXTENDS DiscPacket
Features == [len : {0, 1, 31, 32, 96, 97, 98, 99, 100, 101, 102, 103, 150, 1280}, hashOK : BOOLEAN, sigOK : BOOLEAN, netcompat : BOOLEAN,
             type : {0, 1, 2, 3, 4, 5, 122, 123, 133, 134, 135, 136, 137, 138, 255}, rlpOK : BOOLEAN, expired : BOOLEAN,
             bonded : BOOLEAN, solicited : BOOLEAN]

VARIABLE f
Init == f \in Features
Next == UNCHANGED f
Spec == Init /\ [][Next]_f

\* C17: "either delivered ... or rejected with an error.  No input of any length or content crashes the node"
OutcomeAlphabet == Verdict(f) \in {"error", "handled"}
\* nothing is acted upon unless hash, signature and encoding are all good
AuthenticatedOnly == Verdict(f) = "handled" => f.hashOK /\ f.sigOK /\ f.rlpOK /\ ~f.expired /\ f.len >= HeadSize + 1 + TagLen(f.netcompat)
\* the large reply only goes to bonded senders
NoAmplification == Reply(f) = "neighbors" => f.bonded
=============================================================================
