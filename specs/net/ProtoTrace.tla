------------------------------- MODULE ProtoTrace -------------------------------
(* Trace specification for the sub-protocol part of C17: one line = one message sent to a real ProtocolManager by a
   handshaken peer.  `expect` is what the driver knows by construction (keep: well-formed; drop: undecodable, oversized,
   unknown or status; either: a mutation whose decodability is not known), i.e. the `decodes` feature of ProtoMsg!Verdict. *)
EXTENDS TraceLib, ProtoMsg
VARIABLES l, X
tvars == <<l, X>>
Ev == Trace[l]
TInit == l = 1 /\ X = [e |-> "none"] /\ InitHW
TStep == l <= NLines /\ l' = l + 1 /\ Consumed(l) /\ X' = Ev
TSpec == TInit /\ [][TStep]_tvars

P == X.e = "proto"
\* codes above the 32-bit range are recorded as they are; any code outside KnownCodes is unknown
CodeOf == IF X.code > 1000 THEN 1000 ELSE X.code
Cands == {[size |-> X.size, code |-> CodeOf, decodes |-> d] : d \in (IF X.expect = "keep" THEN {TRUE} ELSE IF X.expect = "drop" THEN {FALSE} ELSE BOOLEAN)}
\* "No input of any length or content crashes the node, wedges the connection handler ..."
NoPanicT == P => X.outcome \notin {"panic", "wedge"} /\ X.panic = ""
\* "... delivered ... or rejected with an error"
VerdictT == P => X.outcome \in {Verdict(c) : c \in Cands} \cup {"panic", "wedge"}
\* "... or makes it allocate beyond the protocol's size limits": a message is at most 10 MiB; handling it (decoding, the reply) stays within
\* a small multiple; a reply is at most the soft response limit (2 MiB) plus one item
AllocT == P => X.alloc <= 134217728 /\ X.replyMax <= 4194304 /\ X.ms < 600000
=============================================================================
