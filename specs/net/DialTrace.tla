------------------------------ MODULE DialTrace ------------------------------
(* Trace validation of the real p2p dialstate against DialState.tla: every recorded step names the call the driver made on the
   real scheduler and carries what it returned (the task list) and what it holds afterwards (dialing, static nodes, dial
   history with expiry times, lookup flag and buffer); the trace spec takes the same action in the model and demands equality. *)
EXTENDS DialState, TraceLib
VARIABLES l, obs
tvars == <<vars, l, obs>>
Ev == Trace[l]
IsEv(op) == l <= NLines /\ Ev.op = op /\ l' = l + 1 /\ Consumed(l) /\ obs' = Ev
TInit == Init /\ l = 1 /\ obs = [op |-> "none"] /\ InitHW
TReset == IsEv("reset") /\ now' = 0 /\ started' = FALSE /\ start' = 0 /\ dialing' = <<>> /\ static' = {} /\ hist' = <<>>
          /\ lookupRunning' = FALSE /\ lookupBuf' = <<>> /\ boot' = Boot /\ peers' = <<>> /\ running' = 0 /\ out' = <<>>
TNext == \/ TReset
         \/ IsEv("newtasks") /\ NewTasks
         \/ IsEv("dialdone") /\ DialDone(Ev.id)
         \/ IsEv("lookupdone") /\ LookupDone(Ev.res)
         \/ IsEv("waitdone") /\ WaitDone
         \/ IsEv("addstatic") /\ AddStatic(Ev.id)
         \/ IsEv("removestatic") /\ RemoveStatic(Ev.id)
         \/ IsEv("peerup") /\ PeerUp(Ev.id, Ev.kind)
         \/ IsEv("peerdown") /\ PeerDown(Ev.id)
         \/ IsEv("tick") /\ Tick(Ev.dt)
TSpec == TInit /\ [][TNext]_tvars

Step == obs.op \notin {"none", "reset"}
Pairs(seq, f1, f2) == {<<seq[k][f1], seq[k][f2]>> : k \in 1..Len(seq)}
\* the real scheduler returned the tasks the model returns (static dial tasks in the order of Order)
TasksT == Step => /\ Len(obs.tasks) = Len(out)
                  /\ \A k \in 1..Len(out) : /\ obs.tasks[k].t = out[k].t /\ obs.tasks[k].id = out[k].id
                                            /\ obs.tasks[k].flag = out[k].flag /\ obs.tasks[k].dur = out[k].dur
\* and holds the state the model holds
StateT == Step => /\ Pairs(obs.dialing, "id", "flag") = {<<k, dialing[k]>> : k \in DOMAIN dialing}
                  /\ SetOf(obs.static) = static
                  /\ Pairs(obs.hist, "id", "exp") = {<<k, hist[k]>> : k \in DOMAIN hist}
                  /\ Len(obs.hist) = Cardinality(DOMAIN hist)
                  /\ obs.lookupRunning = lookupRunning
                  /\ obs.lookupBuf = lookupBuf
\* the safety properties on what the real scheduler returned
DialsT == Step => /\ \A k \in 1..Len(obs.tasks) : obs.tasks[k].t = "dial" => (obs.tasks[k].id # Self /\ obs.tasks[k].id \notin Restricted)
                  /\ \A j, k \in 1..Len(obs.tasks) : (obs.tasks[j].t = "dial" /\ obs.tasks[k].t = "dial" /\ obs.tasks[j].id = obs.tasks[k].id) => j = k
                  /\ Cardinality({k \in 1..Len(obs.tasks) : obs.tasks[k].t = "discover"}) <= 1
=============================================================================
