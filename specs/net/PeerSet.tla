------------------------------- MODULE PeerSet -------------------------------
(***************************************************************************)
(* p2p.Server's admission state machine (p2p/server.go: run, setupConn,    *)
(* encHandshakeChecks, protoHandshakeChecks, runPeer).  Beyond the listed  *)
(* properties (DESIGN 12.2): the peer set of a node is bounded, keyed by   *)
(* remote identity and never contains the node itself - whatever order     *)
(* connections, handshakes and disconnects interleave in.                  *)
(*                                                                         *)
(* One connection takes several steps in the code and so here:             *)
(*   Connect(c, id, kind)  setupConn: the encryption handshake has named   *)
(*                         the remote identity; the run loop evaluates     *)
(*                         encHandshakeChecks ("posthandshake" checkpoint) *)
(*   AddPeer(c)            the protocol handshake is done; the run loop    *)
(*                         evaluates protoHandshakeChecks - the same       *)
(*                         checks AGAIN (Recheck), because the peer set    *)
(*                         may have changed in between - and adds the peer *)
(*   Drop(id)              the peer's run() returned, delpeer is processed *)
(* kinds: "inbound", "dyn" (dialled from discovery), "static" (AddPeer).   *)
(***************************************************************************)
EXTENDS Naturals, FiniteSets, Sequences

\* The @type comments are for Apalache (PeerSetInd.tla: inductive invariant, unbounded in the number of steps); TLC ignores them.
CONSTANTS
          \* @type: Set(Str);
          Ids,          \* remote identities
          \* @type: Str;
          Self,         \* the node's own identity (may present itself as a remote)
          \* @type: Set(Str);
          Trusted,      \* SUBSET Ids: Config.TrustedNodes
          \* @type: Int;
          MaxPeers,     \* Config.MaxPeers
          \* @type: Int;
          MaxInbound,   \* Server.maxInboundConns() = MaxPeers - MaxPeers/DialRatio
          \* @type: Int;
          MaxConns,     \* bound on connection attempts per behaviour (model only)
          \* @type: Bool;
          Recheck       \* TRUE: as the code; FALSE: protoHandshakeChecks does not repeat the checks (must fail)

VARIABLES
          \* @type: Str -> {inbound: Bool, trusted: Bool, static: Bool};
          peers,        \* function: identity -> [inbound, trusted, static]   (the run loop's `peers` map)
          \* @type: Int;
          inboundCount, \* the run loop's counter
          \* @type: Int -> {id: Str, inbound: Bool, trusted: Bool, static: Bool};
          pending,      \* function: connection number -> [id, inbound, trusted, static]  (between the two checkpoints)
          \* @type: Int;
          nconn,        \* connections attempted so far
          \* @type: {op: Str, conn: Int, id: Str, res: Str};
          last          \* outcome of the last step: [op, conn, id, res]

vars == <<peers, inboundCount, pending, nconn, last>>

AllIds == Ids \cup {Self}
Kinds == {"inbound", "dyn", "static"}

\* the empty maps, written as functions over the empty set (equal to <<>> in TLC; typable for Apalache)
NoPeers == [x \in {} |-> [inbound |-> FALSE, trusted |-> FALSE, static |-> FALSE]]
NoPending == [x \in {} |-> [id |-> "", inbound |-> FALSE, trusted |-> FALSE, static |-> FALSE]]
Init == /\ peers = NoPeers /\ inboundCount = 0 /\ pending = NoPending /\ nconn = 0
        /\ last = [op |-> "init", conn |-> 0, id |-> "", res |-> ""]

\* @type: (a -> b, a) => (a -> b);
Drop1(f, k) == [x \in (DOMAIN f) \ {k} |-> f[x]]
\* @type: (a -> b, a, b) => (a -> b);
Put(f, k, v) == [x \in (DOMAIN f) \cup {k} |-> IF x = k THEN v ELSE f[x]]

\* encHandshakeChecks, in the order of its switch
\* @type: ({id: Str, inbound: Bool, trusted: Bool, static: Bool}) => Str;
Checks(c) ==
  IF ~(c.trusted \/ c.static) /\ Cardinality(DOMAIN peers) >= MaxPeers THEN "too many peers"
  ELSE IF ~c.trusted /\ c.inbound /\ inboundCount >= MaxInbound THEN "too many peers"
  ELSE IF c.id \in DOMAIN peers THEN "already connected"
  ELSE IF c.id = Self THEN "connected to self"
  ELSE "ok"

Connect(id, kind) ==
  /\ nconn < MaxConns
  /\ LET n == nconn + 1
         c == [id |-> id, inbound |-> kind = "inbound", trusted |-> id \in Trusted, static |-> kind = "static"]
         r == Checks(c)
     IN /\ nconn' = n
        /\ pending' = IF r = "ok" THEN Put(pending, n, c) ELSE pending
        /\ last' = [op |-> "connect", conn |-> n, id |-> id, res |-> r]
  /\ UNCHANGED <<peers, inboundCount>>

AddPeer(n) ==
  /\ n \in DOMAIN pending
  /\ LET c == pending[n]
         r == IF Recheck THEN Checks(c) ELSE "ok"
     IN /\ pending' = Drop1(pending, n)
        /\ IF r = "ok"
           THEN /\ peers' = Put(peers, c.id, [inbound |-> c.inbound, trusted |-> c.trusted, static |-> c.static])
                /\ inboundCount' = IF c.inbound THEN inboundCount + 1 ELSE inboundCount
           ELSE UNCHANGED <<peers, inboundCount>>
        /\ last' = [op |-> "addpeer", conn |-> n, id |-> c.id, res |-> r]
  /\ UNCHANGED nconn

Drop(id) ==
  /\ id \in DOMAIN peers
  /\ peers' = Drop1(peers, id)
  /\ inboundCount' = IF peers[id].inbound THEN inboundCount - 1 ELSE inboundCount
  /\ last' = [op |-> "drop", conn |-> 0, id |-> id, res |-> "ok"]
  /\ UNCHANGED <<pending, nconn>>

Next == \/ \E id \in AllIds, k \in Kinds : Connect(id, k)
        \/ \E n \in DOMAIN pending : AddPeer(n)
        \/ \E id \in DOMAIN peers : Drop(id)

Spec == Init /\ [][Next]_vars

----------------------------------------------------------------------------
\* @type: ({inbound: Bool, trusted: Bool, static: Bool}) => Bool;
Privileged(p) == p.trusted \/ p.static
PeerIds == DOMAIN peers

\* the counter is the number of inbound peers
CountConsistent == inboundCount = Cardinality({i \in PeerIds : peers[i].inbound})
\* ordinary peers never push the set beyond MaxPeers: whatever exceeds it is trusted or static
OrdinaryBounded == Cardinality({i \in PeerIds : ~Privileged(peers[i])}) <= MaxPeers
\* inbound connections of untrusted nodes leave room for outbound ones
InboundBounded == Cardinality({i \in PeerIds : peers[i].inbound /\ ~peers[i].trusted}) <= MaxInbound
\* the node is never its own peer
NeverSelf == Self \notin PeerIds
\* a trusted identity is always flagged trusted (and so never counted against the limits)
TrustedFlagged == \A i \in PeerIds : peers[i].trusted <=> i \in Trusted
TypeOK == /\ PeerIds \subseteq AllIds /\ inboundCount \in Nat /\ nconn \in 0..MaxConns

\* exhaustive runs: the outcome register is output only
View == <<peers, inboundCount, pending, nconn>>

\* what the driver can read from the real server after a step
Projection == [peers |-> [i \in PeerIds |-> peers[i]], npeers |-> Cardinality(PeerIds)]
=============================================================================
