SPECIFICATION GSpec
CONSTANTS Ids = {"a", "b", "c", "d", "e", "f", "r"} Self = "self" Restricted = {"r"} MaxDyn = 4 HistExp = 30 Fallback = 20
          Ticks = {1, 9, 15, 31} MaxTime = 100000 CheckHist = TRUE PeerKinds = {"dyn", "static", "inbound"} MaxRes = 2
          Boot <- BootG Table <- TableG Order <- OrderG GenDepth = 45
INVARIANTS Emit
CHECK_DEADLOCK FALSE
