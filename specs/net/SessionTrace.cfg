SPECIFICATION TSpec
INVARIANTS ListenerT NoPanicT HandshakeT AuthenticT SizeLimitT NoWedgeT HostileT AllocT HostileHsT
POSTCONDITION TraceAccepted
CHECK_DEADLOCK FALSE
