----------------------------- MODULE SessionTrace -----------------------------
(***************************************************************************)
(* Trace specification for C17 (RLPx).  Lines:                             *)
(*  "session"   : honest writer and reader, adversary under the writer     *)
(*                (NetSession's Adversary actions at concrete offsets);    *)
(*                firstBad = first message whose place on the wire does    *)
(*                not carry the bytes written.                             *)
(*  "hostile"   : a peer with valid secrets writing malformed frames.      *)
(*  "hostile-hs": malformed handshake packets under valid ECIES.           *)
(* NetSession.tla proves Authentic (delivered is a prefix of sent, errors  *)
(* are final) for the design; here the same statement is evaluated on what *)
(* the real transports did, sharpened by firstBad: exactly the messages    *)
(* before the first altered one are delivered, and the read then fails.    *)
(***************************************************************************)
EXTENDS TraceLib, SequencesExt
VARIABLES l, X
tvars == <<l, X>>
Ev == Trace[l]
TInit == l = 1 /\ X = [e |-> "none"] /\ InitHW
TStep == l <= NLines /\ l' = l + 1 /\ Consumed(l) /\ X' = Ev
TSpec == TInit /\ [][TStep]_tvars

S == X.e = "session"
Up == X.hsErrI = "" /\ X.hsErrR = ""
MaxMsg == 16777215

\* "No input ... crashes the node"
NoPanicT == /\ S => X.hsPanic = "" /\ X.panic = ""
            /\ X.e \in {"hostile", "hostile-hs"} => X.panic = ""
            /\ X.e = "peermsg" => X.outcome \in {"returned", "running"}    \* base-protocol messages of a connected peer (disconnect reasons, ping, ...)
\* an altered handshake packet is rejected by its recipient; an unaltered handshake succeeds and identifies the right keys
HandshakeT == S => /\ X.tamper.phase = "auth" => X.hsErrR # ""
                   /\ X.tamper.phase = "ack" => X.hsErrI # ""
                   /\ X.tamper.phase \in {"none", "frames"} => Up /\ X.idI /\ X.idR
                   /\ ~Up => X.delivered = <<>>
\* "what one side writes is what the other reads, and any bit flipped on the wire is detected before delivery"
AuthenticT == S /\ Up /\ X.pipeErr = "" =>        \* (pipeErr: the driver's own pipe write failed - nothing to judge)
              /\ IsPrefix(X.delivered, X.sent)
                         /\ Len(X.delivered) = X.firstBad - 1
                         /\ X.err # ""                       \* the stream ends (altered, or closed by the writer): the reader is told
\* the writer refuses what does not fit a frame, and nothing else
SizeLimitT == S /\ Up => /\ \A k \in 1..Len(X.sent) : X.sent[k].size <= MaxMsg
                         /\ \A k \in 1..Len(X.delivered) : X.delivered[k].size <= MaxMsg
\* no wedge: handshakes end within the handshake deadline (5 s) and reads end when the stream does
NoWedgeT == /\ S => X.hsMs < 120000 /\ ~X.wedge     \* (the handshake deadline is 5 s; a wedge is "never", not "slowly")
            /\ X.e = "hostile" => X.ms < 600000
            /\ X.e = "hostile-hs" => X.ms < 120000

\* refused connection attempts never wedge the accept loop: an honest peer is still answered afterwards
ListenerT == (X.e = "listener" /\ X.skipped = "") => (X.rejected > 0 /\ X.honest = "")

H == X.e = "hostile"
\* a peer with valid secrets: malformed or oversized content is an error, well-formed content is delivered as written
HostileT == H => /\ X.expect = "error" => X.err # "" /\ X.delivered = <<>>
                 /\ X.expect = "deliver" => X.err = "" /\ X.delivered = <<X.sent>>
\* "... or makes it allocate beyond the protocol's size limits": one message is at most 16 MiB; reading it (frame buffer, decompression,
\* payload copy) stays within a small multiple of that, whatever length the peer announces
AllocT == /\ H => X.alloc <= 268435456
          /\ X.e = "hostile-hs" => X.alloc <= 16777216

HS == X.e = "hostile-hs"
HostileHsT == HS => /\ X.class = "valid" => X.err = ""
                    /\ X.class = "reject" => X.err # "" /\ ~X.timedOut       \* rejected on its own evidence, not by the deadline
                    /\ X.class = "any" => TRUE
=============================================================================
