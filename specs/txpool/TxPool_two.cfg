\* 2 senders, nonces 0..2, 4 operations
SPECIFICATION Spec
CONSTANTS
  S <- S2
  MaxNonce = 2
  MaxPrice = 3
  MaxCost = 2
  Bump = 50
  AccountSlots = 3
  AccountQueue = 2
  MaxOps = 4
  OrphanBug = FALSE
INVARIANTS PendingExecutableInv OnePerNonceInv QueueSaneInv LimitsInv ReplaceInv
