---------------------------- MODULE TxPoolTrace ----------------------------
(***************************************************************************)
(* Trace specification for C15.  Lines recorded (under pool.mu) by         *)
(* harness/core/txpool_test.go:                                            *)
(*   cfg{...limits, roomy}   new pool                                      *)
(*   op{op, s, tx, err, dropped, proj}   one pool call + projection after  *)
(*   sample{proj}            projection taken by a concurrent sampler      *)
(***************************************************************************)
EXTENDS TraceLib, TxPoolProps

VARIABLES l, kind, C, P, Pprev, last
tvars == <<l, kind, C, P, Pprev, last>>
Ev == Trace[l]
Is(e) == l <= NLines /\ Ev.e = e /\ l' = l + 1 /\ Consumed(l)

Proj(j) == [senders |-> SetOf(j.senders), nonce |-> j.nonce, balance |-> j.balance, gasLimit |-> j.gasLimit,
            gasPrice |-> j.gasPrice, pending |-> j.pending, queue |-> j.queue, locals |-> SetOf(j.locals), all |-> j.all,
            pnonce |-> j.pnonce]
Empty == [senders |-> {}, pending |-> <<>>, queue |-> <<>>, locals |-> {}, all |-> 0, nonce |-> <<>>, balance |-> <<>>,
          gasLimit |-> 0, gasPrice |-> 0, pnonce |-> <<>>]

TInit == l = 1 /\ kind = "init" /\ C = <<>> /\ P = Empty /\ Pprev = Empty /\ last = [op |-> "none"] /\ InitHW
TCfg == /\ Is("cfg") /\ C' = Ev.cfg /\ P' = Proj(Ev.proj) /\ Pprev' = Proj(Ev.proj) /\ kind' = "cfg" /\ last' = [op |-> "cfg"]
TOp == /\ Is("op") /\ Pprev' = P /\ P' = Proj(Ev.proj) /\ kind' = "op"
       /\ last' = [op |-> Ev.op, s |-> Ev.s, tx |-> Ev.tx, err |-> Ev.err, dropped |-> Ev.dropped, depth |-> Ev.depth]
       /\ UNCHANGED C
TSample == /\ Is("sample") /\ Pprev' = P /\ P' = Proj(Ev.proj) /\ kind' = "sample" /\ last' = [op |-> "sample"]
           /\ UNCHANGED C
TNext == TCfg \/ TOp \/ TSample
TSpec == TInit /\ [][TNext]_tvars

Live == kind \in {"cfg", "op", "sample"}
PendingExecutableT == Live => PendingExecutable(P)
OnePerNonceT == Live => OnePerNonce(P)
QueueSaneT == Live => QueueSane(P)
LimitsHoldT == Live => LimitsHold(P, C)
ReplaceNeedsBumpT == (kind = "op" /\ last.op = "add" /\ last.err = "") => ReplaceNeedsBump(Pprev, P, last.s, last.tx, C)
\* checked for shallow reorganisations in pools that are far from their limits (C.roomy)
ReorgReinjectsT == (kind = "op" /\ last.op = "reset" /\ C.roomy /\ last.depth <= 64) => ReorgReinjects(P, C, last.dropped)
\* the pending nonce the pool reports is the first nonce after the pending run
PendingNonceT == Live => \A s \in P.senders : Len(P.pending[s]) > 0 => P.pnonce[s] = P.nonce[s] + Len(P.pending[s])
\* a valid, affordable transaction with the next nonce offered to a roomy pool is accepted into pending
AcceptsNextT == (kind = "op" /\ last.op = "add" /\ C.roomy /\ last.tx.nonce = Pprev.nonce[last.s] + Len(Pprev.pending[last.s])
                  /\ last.tx.cost <= Pprev.balance[last.s] /\ last.tx.gas <= Pprev.gasLimit /\ last.tx.gas >= 21000
                  /\ last.tx.price >= Pprev.gasPrice /\ last.tx.fresh)
                 => (last.err = "" /\ \E x \in SeqSet(P.pending[last.s]) : x.id = last.tx.id)
=============================================================================
