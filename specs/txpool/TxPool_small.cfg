\* 1 sender, nonces 0..3, prices 1..3 (bump 50%), costs 1..2, per-account limits 2/2, 5 operations
SPECIFICATION Spec
CONSTANTS
  S <- S1
  MaxNonce = 3
  MaxPrice = 3
  MaxCost = 2
  Bump = 50
  AccountSlots = 3
  AccountQueue = 2
  MaxOps = 4
  OrphanBug = FALSE
INVARIANTS PendingExecutableInv OnePerNonceInv QueueSaneInv LimitsInv ReplaceInv
