SPECIFICATION TSpec
INVARIANTS PendingExecutableT OnePerNonceT LimitsHoldT ReplaceNeedsBumpT ReorgReinjectsT PendingNonceT AcceptsNextT
POSTCONDITION TraceAccepted
CHECK_DEADLOCK FALSE
