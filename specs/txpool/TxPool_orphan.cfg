\* vacuity guard: the pinned orphan defect must violate OnePerNonceInv (all # pending + queue)
SPECIFICATION Spec
CONSTANTS
  S <- S1
  MaxNonce = 3
  MaxPrice = 3
  MaxCost = 2
  Bump = 50
  AccountSlots = 3
  AccountQueue = 2
  MaxOps = 4
  OrphanBug = TRUE
INVARIANTS PendingExecutableInv OnePerNonceInv QueueSaneInv LimitsInv ReplaceInv
