\* 1 sender, 5 operations (thorough)
SPECIFICATION Spec
CONSTANTS
  S <- S1
  MaxNonce = 3
  MaxPrice = 3
  MaxCost = 2
  Bump = 50
  AccountSlots = 3
  AccountQueue = 2
  MaxOps = 5
  OrphanBug = FALSE
INVARIANTS PendingExecutableInv OnePerNonceInv QueueSaneInv LimitsInv ReplaceInv
