---------------------------- MODULE TxPoolProps ----------------------------
(***************************************************************************)
(* L1 predicates of C15 over a PROJECTION of the transaction pool.         *)
(*  P.senders        set of sender ids                                     *)
(*  P.nonce[s], P.balance[s]   the pool's view of the chain state          *)
(*  P.gasLimit       current block gas limit                               *)
(*  P.pending[s], P.queue[s]   sequences (ascending nonce) of              *)
(*                   [id, nonce, price, cost, gas]                         *)
(*  P.locals         set of local senders                                  *)
(*  P.all            number of transactions the pool tracks                *)
(*  C : [priceLimit, bump, accountSlots, globalSlots, accountQueue,        *)
(*       globalQueue]                                                      *)
(* All quantities are small integers (the drivers keep them below 2^31).   *)
(***************************************************************************)
EXTENDS Integers, Sequences, FiniteSets

SeqSet(q) == {q[k] : k \in 1..Len(q)}
RECURSIVE SumLen(_, _)
SumLen(f, S) == IF S = {} THEN 0 ELSE LET x == CHOOSE y \in S : TRUE IN Len(f[x]) + SumLen(f, S \ {x})

\* "the pending set is, per sender, a gap-free run of nonces starting at the sender's current chain nonce
\*  in which every transaction is affordable (cost <= balance, gas <= block gas limit)"
PendingExecutable(P) ==
  \A s \in P.senders :
     \A k \in 1..Len(P.pending[s]) :
        /\ P.pending[s][k].nonce = P.nonce[s] + k - 1
        /\ P.pending[s][k].cost <= P.balance[s]
        /\ P.pending[s][k].gas <= P.gasLimit

\* "at most one transaction exists per sender and nonce across pending and queue"
OnePerNonce(P) ==
  /\ \A s \in P.senders :
       LET both == P.pending[s] \o P.queue[s] IN
         \A a, b \in 1..Len(both) : a # b => both[a].nonce # both[b].nonce
  /\ P.all = SumLen(P.pending, P.senders) + SumLen(P.queue, P.senders)

\* queued transactions are never executable-in-waiting below the chain nonce, and are affordable
QueueSane(P) ==
  \A s \in P.senders : \A k \in 1..Len(P.queue[s]) :
     P.queue[s][k].nonce >= P.nonce[s] /\ P.queue[s][k].cost <= P.balance[s] /\ P.queue[s][k].gas <= P.gasLimit

\* "a same-nonce replacement is accepted only with the configured price bump"
\* (the bump threshold is old*(100+bump)/100 in integer arithmetic, as gas prices are integers of wei)
\* Pb / Pa: projections before / after an add of transaction tx by sender s that was accepted
Find(q, n) == {k \in 1..Len(q) : q[k].nonce = n}
ReplaceNeedsBump(Pb, Pa, s, tx, C) ==
  LET oldq == Pb.pending[s] \o Pb.queue[s]
      old == {oldq[k] : k \in Find(oldq, tx.nonce)}
      newq == Pa.pending[s] \o Pa.queue[s]
      now == {newq[k] : k \in Find(newq, tx.nonce)}
  IN \A o \in old :
       (\E x \in now : x.id = tx.id)            \* tx took the slot of o ...
          => (o.id = tx.id \/ (tx.price > o.price /\ tx.price >= (o.price * (100 + C.bump)) \div 100))

\* "pool-wide and per-account limits hold for non-local senders"
LimitsHold(P, C) ==
  LET nonlocal == P.senders \ P.locals IN
  /\ (SumLen(P.pending, P.senders) <= C.globalSlots
        \/ \A s \in nonlocal : Len(P.pending[s]) <= C.accountSlots)
  /\ \A s \in nonlocal : Len(P.queue[s]) <= C.accountQueue
  /\ (SumLen(P.queue, P.senders) <= C.globalQueue \/ \A s \in nonlocal : Len(P.queue[s]) = 0)

\* "after a chain reorganisation the transactions that dropped out of the canonical chain are pooled
\*  again if still valid": dropped = sequence of [id, s, nonce, price, cost, gas] of the transactions of the
\*  abandoned branch that are not in the new one
StillValid(P, C, d) ==
  /\ d.nonce >= P.nonce[d.s] /\ d.cost <= P.balance[d.s] /\ d.gas <= P.gasLimit /\ d.price >= P.gasPrice
InPool(P, d) == \E x \in SeqSet(P.pending[d.s] \o P.queue[d.s]) : x.nonce = d.nonce /\ (x.id = d.id \/ x.price >= d.price)
ReorgReinjects(P, C, dropped) ==
  \A k \in 1..Len(dropped) : StillValid(P, C, dropped[k]) => InPool(P, dropped[k])
=============================================================================
