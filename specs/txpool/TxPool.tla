------------------------------- MODULE TxPool -------------------------------
(***************************************************************************)
(* L2 model of core/tx_pool.go + tx_list.go for a small universe: senders  *)
(* S, nonces 0..MaxNonce, prices 1..MaxPrice, costs 1..MaxCost.  One       *)
(* action per locked pool call: Add (validateTx -> replace in pending |    *)
(* enqueue -> promoteExecutables) and Reset (new chain view ->             *)
(* demoteUnexecutables -> promoteExecutables).  pending / queue are, per   *)
(* sender, functions nonce -> [price, cost, id]; ids make replaced         *)
(* transactions distinguishable.                                           *)
(*                                                                         *)
(* OrphanBug = TRUE reproduces the pinned removeTx/eviction defect class:  *)
(* successors of a removed first pending transaction are dropped from both *)
(* lists but stay counted in `all`.                                        *)
(***************************************************************************)
EXTENDS TxPoolProps, TLC

CONSTANTS S, MaxNonce, MaxPrice, MaxCost, Bump, AccountSlots, AccountQueue, MaxOps, OrphanBug

VARIABLES cnonce, balance, pend, que, all, nextId, ops, lastAdd
vars == <<cnonce, balance, pend, que, all, nextId, ops, lastAdd>>

Nonces == 0..MaxNonce
NoTx == [price |-> 0, cost |-> 0, id |-> 0]
Empty == [n \in Nonces |-> NoTx]
Has(f, n) == f[n].id # 0

Init == /\ cnonce = [s \in S |-> 0] /\ balance = [s \in S |-> MaxCost]
        /\ pend = [s \in S |-> Empty] /\ que = [s \in S |-> Empty]
        /\ all = 0 /\ nextId = 1 /\ ops = 0 /\ lastAdd = [s |-> CHOOSE s \in S : TRUE, ok |-> FALSE, before |-> <<>>, tx |-> <<>>]

Count(f) == Cardinality({n \in Nonces : Has(f, n)})
PendEnd(s) == cnonce[s] + Count(pend[s])       \* first nonce after the pending run

\* list.Ready: move the gap-free run starting at the pending end from queue to pending, capped by AccountSlots
RECURSIVE Promote(_, _, _)
Promote(p, q, n) ==
  IF n \in Nonces /\ Has(q, n) /\ Count(p) < AccountSlots
    THEN Promote([p EXCEPT ![n] = q[n]], [q EXCEPT ![n] = NoTx], n + 1)
    ELSE <<p, q>>

\* queue cap: keep the AccountQueue lowest nonces
CapQueue(q) == [n \in Nonces |-> IF Has(q, n) /\ Cardinality({m \in Nonces : m < n /\ Has(q, m)}) >= AccountQueue THEN NoTx ELSE q[n]]

AcceptBump(old, price) == price > old.price /\ price >= (old.price * (100 + Bump)) \div 100

Add(s, n, price, cost) ==
  /\ ops < MaxOps /\ ops' = ops + 1
  /\ LET tx == [price |-> price, cost |-> cost, id |-> nextId]
         valid == n >= cnonce[s] /\ cost <= balance[s]
         inPend == Has(pend[s], n)
         inQue == Has(que[s], n)
         replOK == IF inPend THEN AcceptBump(pend[s][n], price) ELSE IF inQue THEN AcceptBump(que[s][n], price) ELSE TRUE
     IN IF ~valid \/ ~replOK
          THEN /\ UNCHANGED <<pend, que, all>>
               /\ lastAdd' = [s |-> s, ok |-> FALSE, before |-> <<>>, tx |-> <<>>]
          ELSE LET p1 == IF inPend THEN [pend[s] EXCEPT ![n] = tx] ELSE pend[s]
                   q1 == IF inPend THEN que[s] ELSE [que[s] EXCEPT ![n] = tx]
                   pq == Promote(p1, q1, cnonce[s] + Count(p1))
                   q2 == CapQueue(pq[2])
               IN /\ pend' = [pend EXCEPT ![s] = pq[1]]
                  /\ que' = [que EXCEPT ![s] = q2]
                  /\ all' = all + (IF inPend \/ inQue THEN 0 ELSE 1) - (Count(pq[2]) - Count(q2))
                  /\ lastAdd' = [s |-> s, ok |-> TRUE, before |-> [pending |-> pend[s], queue |-> que[s]],
                                 tx |-> [nonce |-> n, price |-> price, id |-> nextId]]
  /\ nextId' = nextId + 1
  /\ UNCHANGED <<cnonce, balance>>

\* reset to a new chain view for sender s (a head advance, a reorganisation, a drained or funded account)
Reset(s, newNonce, newBal) ==
  /\ ops < MaxOps /\ ops' = ops + 1
  /\ LET \* demoteUnexecutables: drop old nonces; drop unaffordable; everything after the first dropped/gap -> queue
         keepP == [n \in Nonces |-> IF Has(pend[s], n) /\ n >= newNonce /\ pend[s][n].cost <= newBal THEN pend[s][n] ELSE NoTx]
         runEnd == IF \E n \in Nonces : n >= newNonce /\ ~Has(keepP, n)
                   THEN CHOOSE n \in Nonces : n >= newNonce /\ ~Has(keepP, n) /\ \A m \in newNonce..(n - 1) : Has(keepP, m)
                   ELSE MaxNonce + 1
         p1 == [n \in Nonces |-> IF n < runEnd THEN keepP[n] ELSE NoTx]
         strays == {n \in Nonces : n >= runEnd /\ Has(keepP, n)}
         \* the pinned defect: strays of a list whose first transaction vanished are lost, but stay in `all`
         lost == IF OrphanBug /\ ~Has(p1, newNonce) THEN strays ELSE {}
         q0 == [n \in Nonces |-> IF n \in strays \ lost THEN keepP[n]
                                  ELSE IF Has(que[s], n) /\ n >= newNonce /\ que[s][n].cost <= newBal THEN que[s][n] ELSE NoTx]
         pq == Promote(p1, q0, newNonce + Count(p1))
         q2 == CapQueue(pq[2])
     IN /\ pend' = [pend EXCEPT ![s] = pq[1]]
        /\ que' = [que EXCEPT ![s] = q2]
        /\ all' = all - (Count(pend[s]) + Count(que[s])) + Count(pq[1]) + Count(q2) + Cardinality(lost)
  /\ cnonce' = [cnonce EXCEPT ![s] = newNonce]
  /\ balance' = [balance EXCEPT ![s] = newBal]
  /\ lastAdd' = [s |-> s, ok |-> FALSE, before |-> <<>>, tx |-> <<>>]
  /\ UNCHANGED nextId

Next == \/ \E s \in S, n \in Nonces, p \in 1..MaxPrice, c \in 1..MaxCost : Add(s, n, p, c)
        \/ \E s \in S, n \in Nonces, b \in 0..MaxCost : Reset(s, n, b)
Spec == Init /\ [][Next]_vars

----------------------------------------------------------------------------
AsSeq(f) == LET ns == {n \in Nonces : Has(f, n)} IN
            [k \in 1..Cardinality(ns) |->
               LET n == CHOOSE m \in ns : Cardinality({x \in ns : x < m}) = k - 1
               IN [id |-> f[n].id, nonce |-> n, price |-> f[n].price, cost |-> f[n].cost, gas |-> 1]]
P == [senders |-> S, nonce |-> cnonce, balance |-> balance, gasLimit |-> 1, gasPrice |-> 1,
      pending |-> [s \in S |-> AsSeq(pend[s])], queue |-> [s \in S |-> AsSeq(que[s])], locals |-> {}, all |-> all]
C == [bump |-> Bump, accountSlots |-> AccountSlots, globalSlots |-> 1000, accountQueue |-> AccountQueue, globalQueue |-> 1000]

PendingExecutableInv == PendingExecutable(P)
OnePerNonceInv == OnePerNonce(P)
QueueSaneInv == QueueSane(P)
LimitsInv == LimitsHold(P, C)
ReplaceInv == lastAdd.ok =>
   LET s == lastAdd.s
       Pb == [pending |-> [x \in S |-> IF x = s THEN AsSeq(lastAdd.before.pending) ELSE <<>>],
              queue |-> [x \in S |-> IF x = s THEN AsSeq(lastAdd.before.queue) ELSE <<>>]]
   IN ReplaceNeedsBump(Pb, P, s, lastAdd.tx, C)
=============================================================================
