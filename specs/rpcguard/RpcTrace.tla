------------------------------- MODULE RpcTrace -------------------------------
(***************************************************************************)
(* Trace specification for C18.  Lines recorded from a real node:          *)
(*   node    : the environment assignment and the transports that are up   *)
(*   served  : the methods a transport's server really serves              *)
(*   call    : one call through a real client, with the keystore signing   *)
(*             counter delta observed around it                            *)
(*   skipped : a method the driver does not invoke (it would tear the      *)
(*             endpoint down); it must be on the fixed list below          *)
(***************************************************************************)
EXTENDS TraceLib, RpcGuard
VARIABLES l, X, servedBy
tvars == <<l, X, servedBy>>
Ev == Trace[l]
TInit == l = 1 /\ X = [e |-> "none"] /\ servedBy = [tr \in Transports |-> {}] /\ InitHW
TStep == /\ l <= NLines /\ l' = l + 1 /\ Consumed(l) /\ X' = Ev
         /\ servedBy' = IF Ev.e = "served" THEN [servedBy EXCEPT ![Ev.transport] = SetOf(Ev.methods)]
                        ELSE IF Ev.e = "node" THEN [tr \in Transports |-> {}] ELSE servedBy
TSpec == TInit /\ [][TStep]_tvars

EnvOf == SetOf(X.env)
MaySkip == {"admin_stopRPC", "admin_stopWS", "admin_startRPC", "admin_startWS", "debug_setGCPercent", "admin_shutdown", "admin_sleep",
            "admin_sleepBlocks", "debug_verbosity", "debug_vmodule", "debug_backtraceAt"}
ProtectedWire == {"aqua_sign", "aqua_signTransaction", "aqua_sendTransaction", "personal_sign", "personal_signTransaction", "personal_sendTransaction",
                  "personal_signAndSendTransaction", "eth_sign", "eth_signTransaction", "eth_sendTransaction"}

\* "no RPC endpoint ... offers any method through which a caller can cause the node to produce a signature" unless that transport is opted in
NoSignUnlessOptInT == X.e = "call" => (X.signed > 0 => OptIn(X.transport, EnvOf))
\* the registration guard of the model: protected names are served only on opted-in transports.  (Not a verdict: a served method that
\* refuses to sign would not break C18; kept for reading a rejected trace.)
GuardT == X.e = "served" => \A m \in ProtectedWire : m \in SetOf(X.methods) => OptIn(X.transport, EnvOf)
\* "Opting in for one transport enables signing methods on that transport only": over a whole run the transports on which a signature
\* was produced are exactly the opted-in ones
OptInExactT == X.e = "envsummary" => SetOf(X.signedOn) = {t \in Transports : OptIn(t, EnvOf)}

\* every transport is up, so "every transport" is what was examined
TransportsT == X.e = "node" => SetOf(X.transports) = Transports
\* only endpoint-destroying methods are left uninvoked
SkipT == X.e = "skipped" => X.method \in MaySkip
=============================================================================
