SPECIFICATION Spec
CONSTANTS ProtectedNames = {"Sign", "SignTransaction", "SendTransaction"}
INVARIANTS NoSignUnlessOptIn OptInServes
