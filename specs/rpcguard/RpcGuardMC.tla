------------------------------ MODULE RpcGuardMC ------------------------------
(* all 32 environment assignments x 4 transports against the registration guard *)
EXTENDS RpcGuard
VARIABLES env, t
Init == env \in SUBSET Flags /\ t \in Transports
Next == UNCHANGED <<env, t>>
Spec == Init /\ [][Next]_<<env, t>>

\* "In the default environment ... no RPC endpoint offers any method through which a caller can cause the node to produce a signature"
\* and "Opting in for one transport enables signing methods on that transport only"
NoSignUnlessOptIn == \A m \in Served(CallerOf(t), env) : m.signs => OptIn(t, env)
\* a server built by any other caller (a refactor of the start functions) is never allowed to sign
UnknownCallerSafe == \A m \in Served("other", env) : ~m.signs \/ m.name \notin ProtectedNames
\* opting in serves the signing methods (the lock-down is not a removal)
OptInServes == OptIn(t, env) => Served(CallerOf(t), env) = Methods
=============================================================================
