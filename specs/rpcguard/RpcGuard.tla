------------------------------- MODULE RpcGuard -------------------------------
(***************************************************************************)
(* C18: which RPC methods a transport serves, as rpc.Server.RegisterName   *)
(* and node.start{InProc,IPC,HTTP,WS} decide it.                           *)
(*                                                                         *)
(*  - the opt-in flags are read from the environment once, at start-up;    *)
(*  - each transport builds its own server from the API list;              *)
(*  - RegisterName looks at the NAME of the function that called it: only  *)
(*    the four start functions map to a flag, every other caller gets "not *)
(*    allowed";                                                            *)
(*  - a method is withheld iff its Go NAME is in the protected list and    *)
(*    the transport is not opted in.  Protection is by name, so a method   *)
(*    that reaches a keystore signing entry point under another name is    *)
(*    served: the model makes that explicit (Methods carry the observed    *)
(*    attribute `signs`; ProtectedNames is what the code lists).           *)
(*  - UNSAFE_RPC_SIGNING is read but consulted nowhere.                    *)
(***************************************************************************)
EXTENDS FiniteSets, TLC
CONSTANTS ProtectedNames      \* the names isProtectedMethodName lists

Transports == {"inproc", "ipc", "http", "ws"}
Flags == {"UNSAFE_RPC_SIGNING", "UNSAFE_ALLOW_SIGN_IPC", "UNSAFE_RPC_SIGNING_HTTP", "UNSAFE_RPC_SIGNING_WS", "UNSAFE_ALLOW_SIGN_INPROC"}
Callers == {"startInProc", "startIPC", "startHTTP", "startWS", "other"}
CallerOf(t) == CASE t = "inproc" -> "startInProc" [] t = "ipc" -> "startIPC" [] t = "http" -> "startHTTP" [] t = "ws" -> "startWS"
FlagOf(caller) == CASE caller = "startInProc" -> "UNSAFE_ALLOW_SIGN_INPROC" [] caller = "startIPC" -> "UNSAFE_ALLOW_SIGN_IPC"
                    [] caller = "startHTTP" -> "UNSAFE_RPC_SIGNING_HTTP" [] caller = "startWS" -> "UNSAFE_RPC_SIGNING_WS" [] OTHER -> "none"
Allowed(caller, env) == FlagOf(caller) \in env
OptIn(t, env) == Allowed(CallerOf(t), env)

\* the signing surface of the node: Go method names and whether their body reaches a keystore signing entry point
Methods == { [ns |-> "aqua", name |-> "Sign", signs |-> TRUE], [ns |-> "aqua", name |-> "SignTransaction", signs |-> TRUE],
             [ns |-> "aqua", name |-> "SendTransaction", signs |-> TRUE], [ns |-> "aqua", name |-> "SendRawTransaction", signs |-> FALSE],
             [ns |-> "personal", name |-> "Sign", signs |-> TRUE], [ns |-> "personal", name |-> "SendTransaction", signs |-> TRUE],
             [ns |-> "personal", name |-> "SignAndSendTransaction", signs |-> TRUE], [ns |-> "personal", name |-> "UnlockAccount", signs |-> FALSE],
             [ns |-> "personal", name |-> "EcRecover", signs |-> FALSE] }

Served(caller, env) == {m \in Methods : m.name \notin ProtectedNames \/ Allowed(caller, env)}

=============================================================================
