SPECIFICATION Spec
CONSTANTS ProtectedNames = {"Sign", "SignTransaction", "SendTransaction", "SignAndSendTransaction"}
INVARIANTS NoSignUnlessOptIn OptInServes
