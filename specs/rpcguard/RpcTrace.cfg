SPECIFICATION TSpec
CONSTANTS ProtectedNames = {"Sign", "SignTransaction", "SendTransaction", "SignAndSendTransaction"}
INVARIANTS OptInExactT NoSignUnlessOptInT TransportsT SkipT
POSTCONDITION TraceAccepted
CHECK_DEADLOCK FALSE
