------------------------------ MODULE TrieCheck ------------------------------
(* Model-checks the reference itself: for every content over a small key universe the canonical tree returns
   exactly the content, is independent of how the content is described, and has no degenerate nodes. *)
EXTENDS Trie
KeyU == {<<>>, <<1>>, <<1, 2>>, <<1, 2, 3>>, <<1, 3>>, <<2, 0>>, <<2, 1>>}
ValU == {<<7>>, <<8, 9>>}
VARIABLES c
Contents == {x \in SUBSET (KeyU \X ValU) : \A p, q \in x : p[1] = q[1] => p = q}
Init == c \in Contents
Next == UNCHANGED c
Spec == Init /\ [][Next]_c
LookupOK == \A k \in KeyU : Lookup(Build(c), k) = (IF \E p \in c : p[1] = k THEN (CHOOSE p \in c : p[1] = k)[2] ELSE <<>>)
RECURSIVE WellFormed(_)
WellFormed(n) ==
  IF n.t \in {"nil", "leaf"} THEN TRUE
  ELSE IF n.t = "ext" THEN n.path # <<>> /\ n.child.t = "branch" /\ WellFormed(n.child)      \* no ext->ext, no ext->leaf
  ELSE /\ Cardinality({i \in 0..15 : n.kids[i].t # "nil"}) + (IF n.val # <<>> THEN 1 ELSE 0) >= 2   \* a branch never has one child
       /\ \A i \in 0..15 : WellFormed(n.kids[i])
WellFormedInv == WellFormed(Build(c))
=============================================================================
