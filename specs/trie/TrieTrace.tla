------------------------------ MODULE TrieTrace ------------------------------
(***************************************************************************)
(* Trace specification for C10.  State: the content, folded by TLC from    *)
(* the recorded operations (put / del).  At every checkpoint the recorded  *)
(* root, node store dump, lookups, iteration and proofs are compared with  *)
(* the canonical trie Trie!Build(content) computed in TLA+.                *)
(***************************************************************************)
EXTENDS TraceLib, Trie
VARIABLES l, content, X
tvars == <<l, content, X>>
Ev == Trace[l]

RECURSIVE Fold(_, _)
Fold(c, ops) ==
  IF ops = <<>> THEN c
  ELSE LET o == Head(ops)
           k == Nibbles(o.k)
           c1 == {p \in c : p[1] # k}
       IN Fold(IF o.op = "put" THEN c1 \cup {<<k, o.v>>} ELSE c1, Tail(ops))

TInit == l = 1 /\ content = {} /\ X = [e |-> "none"] /\ InitHW
TNew == l <= NLines /\ Ev.e = "newtrie" /\ l' = l + 1 /\ Consumed(l) /\ content' = {} /\ X' = Ev
TCkpt == l <= NLines /\ Ev.e = "ckpt" /\ l' = l + 1 /\ Consumed(l) /\ content' = Fold(content, Ev.ops) /\ X' = Ev
TOther == l <= NLines /\ Ev.e \notin {"newtrie", "ckpt"} /\ l' = l + 1 /\ Consumed(l) /\ UNCHANGED content /\ X' = Ev
TSpec == TInit /\ [][TNew \/ TCkpt \/ TOther]_tvars

Ck == X.e = "ckpt"
Store == [h \in {X.dump[i][1] : i \in 1..Len(X.dump)} |-> (X.dump[CHOOSE i \in 1..Len(X.dump) : X.dump[i][1] = h][2])]
ValOf(k) == IF \E p \in content : p[1] = k THEN (CHOOSE p \in content : p[1] = k)[2] ELSE <<>>

\* the list commitments of a block (transaction / receipt root): the trie root of {rlp(i) -> item i}, sensitive to every item
DeriveShaT == X.e = "derive" => (X.derived = X.reference /\ X.blind = <<>>)

\* "a trie's root hash ... equals the Merkle-Patricia root the specification defines for that content"
RootCanonicalT == Ck => (X.keccakOK /\ RootIsCanonical(X.root, Store, content))
\* "lookups ... return exactly the live content"
GetsT == Ck => \A i \in 1..Len(X.gets) : X.gets[i][2] = ValOf(Nibbles(X.gets[i][1]))
\* "... and iteration"; iteration is in key order and complete
IterT == Ck => /\ X.iterErr = ""
               /\ {<<Nibbles(X.iter[i][1]), X.iter[i][2]>> : i \in 1..Len(X.iter)} = content
               /\ Len(X.iter) = Cardinality(content)
\* "a trie reopened from a committed root reproduces it"
ReopenT == X.e # "reopenfail"
\* "a Merkle proof produced for any key verifies against the root to that key's value (or its absence)"
ProofT == Ck => \A i \in 1..Len(X.proofs) :
            LET p == X.proofs[i] IN
              /\ p.panic = "" /\ p.err = ""
              /\ p.value = ValOf(Nibbles(p.key))
              /\ p.nodes = PathEncs(Build(content), Nibbles(p.key), Store, TRUE)
\* "and no altered proof verifies to a different value"
MutatedProofNeverLiesT == Ck => \A i \in 1..Len(X.proofs) :
            \A j \in 1..Len(X.proofs[i].mutvals) : X.proofs[i].mutvals[j] = ValOf(Nibbles(X.proofs[i].key))
=============================================================================
