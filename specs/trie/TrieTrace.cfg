SPECIFICATION TSpec
INVARIANTS DeriveShaT RootCanonicalT GetsT IterT ReopenT ProofT MutatedProofNeverLiesT
POSTCONDITION TraceAccepted
CHECK_DEADLOCK FALSE
