-------------------------------- MODULE Trie --------------------------------
(***************************************************************************)
(* L1 reference of the Merkle-Patricia trie (Yellow Paper appendix D) on   *)
(* top of RLP.tla.  A content is a set of <<key nibbles, value bytes>>     *)
(* pairs with distinct keys and non-empty values.                          *)
(*   Build(c)      the canonical node tree of a content                    *)
(*   EncNode(n, D) the canonical RLP encoding of node n, children that     *)
(*                 encode to >= 32 bytes referenced by the hash under      *)
(*                 which the node store D (hash -> bytes) holds them       *)
(* Hashing itself is not computed in TLA+: keccak256(D[h]) = h is asserted *)
(* by the driver with an independent keccak for every dumped node.         *)
(***************************************************************************)
EXTENDS RLP, FiniteSets, TLC

Nibbles(bytes) == [i \in 1..(2 * Len(bytes)) |-> IF i % 2 = 1 THEN bytes[(i + 1) \div 2] \div 16 ELSE bytes[i \div 2] % 16]

\* hex-prefix (compact) encoding of a nibble path
HP(path, leaf) ==
  LET odd == Len(path) % 2
      flag == 2 * (IF leaf THEN 1 ELSE 0) + odd
      first == IF odd = 1 THEN <<16 * flag + path[1]>> ELSE <<16 * flag>>
      rest == IF odd = 1 THEN Tail(path) ELSE path
  IN first \o [i \in 1..(Len(rest) \div 2) |-> 16 * rest[2 * i - 1] + rest[2 * i]]

Keys(c) == {p[1] : p \in c}
\* longest common prefix length of a non-empty set of nibble sequences
RECURSIVE LcpLen(_, _)
LcpLen(ks, n) ==
  IF \E k \in ks : Len(k) <= n THEN n
  ELSE LET x == (CHOOSE k \in ks : TRUE)[n + 1] IN
       IF \A k \in ks : k[n + 1] = x THEN LcpLen(ks, n + 1) ELSE n
Strip(c, n) == {<<SubSeq(p[1], n + 1, Len(p[1])), p[2]>> : p \in c}

Nil == [t |-> "nil"]
RECURSIVE Build(_)
Build(c) ==
  IF c = {} THEN Nil
  ELSE IF Cardinality(c) = 1 THEN LET p == CHOOSE q \in c : TRUE IN [t |-> "leaf", path |-> p[1], val |-> p[2]]
  ELSE LET n == LcpLen(Keys(c), 0) IN
       IF n > 0 THEN [t |-> "ext", path |-> SubSeq((CHOOSE k \in Keys(c) : TRUE), 1, n), child |-> Build(Strip(c, n))]
       ELSE [t |-> "branch",
             kids |-> [i \in 0..15 |-> Build({<<Tail(p[1]), p[2]>> : p \in {q \in c : q[1] # <<>> /\ q[1][1] = i}})],
             val |-> IF \E p \in c : p[1] = <<>> THEN (CHOOSE p \in c : p[1] = <<>>)[2] ELSE <<>>]

\* lookup in the node tree
RECURSIVE Lookup(_, _)
Lookup(n, k) ==
  IF n.t = "nil" THEN <<>>
  ELSE IF n.t = "leaf" THEN (IF n.path = k THEN n.val ELSE <<>>)
  ELSE IF n.t = "ext" THEN (IF Len(k) >= Len(n.path) /\ SubSeq(k, 1, Len(n.path)) = n.path
                              THEN Lookup(n.child, SubSeq(k, Len(n.path) + 1, Len(k))) ELSE <<>>)
  ELSE IF k = <<>> THEN n.val ELSE Lookup(n.kids[k[1]], Tail(k))

----------------------------------------------------------------------------
\* the hash under which store D holds exactly these bytes ("?" if none: the store lacks the canonical node)
Missing == <<256>>                 \* not a byte: can never equal a stored encoding
HashOf(enc, D) == IF \E h \in DOMAIN D : D[h] = enc THEN (CHOOSE h \in DOMAIN D : D[h] = enc) ELSE Missing

RECURSIVE EncTerm(_, _)
\* RLP term of node n (children embedded when their encoding is shorter than 32 bytes)
Ref(n, D) == IF n.t = "nil" THEN Str(<<>>)
             ELSE LET e == Enc(EncTerm(n, D)) IN IF Len(e) < 32 THEN EncTerm(n, D) ELSE Str(HashOf(e, D))
EncTerm(n, D) ==
  IF n.t = "leaf" THEN Lst(<<Str(HP(n.path, TRUE)), Str(n.val)>>)
  ELSE IF n.t = "ext" THEN Lst(<<Str(HP(n.path, FALSE)), Ref(n.child, D)>>)
  ELSE Lst([i \in 1..17 |-> IF i <= 16 THEN Ref(n.kids[i - 1], D) ELSE Str(n.val)])
EncNode(n, D) == Enc(EncTerm(n, D))

EmptyRoot == <<86, 232, 31, 23, 27, 204, 85, 166, 255, 131, 69, 230, 146, 192, 248, 110, 91, 72, 224, 27, 153, 108, 173, 192, 1, 98, 47, 181, 227, 99, 180, 33>>

\* "the root equals the Merkle-Patricia root the specification defines for that content":
\* the store holds, under the root hash, the canonical encoding of the canonical tree, and every canonical
\* child that must be hashed is in the store under the hash its parent names
RootIsCanonical(root, D, c) ==
  IF c = {} THEN root = EmptyRoot
  ELSE /\ root \in DOMAIN D
       /\ D[root] = EncNode(Build(c), D)

\* the hashed nodes on the path of key k: what a Merkle proof for k consists of
RECURSIVE PathEncs(_, _, _, _)
PathEncs(n, k, D, top) ==
  IF n.t = "nil" THEN <<>>
  ELSE LET e == EncNode(n, D)
           here == IF top \/ Len(e) >= 32 THEN <<e>> ELSE <<>>
       IN IF n.t = "leaf" THEN here
          ELSE IF n.t = "ext"
            THEN IF Len(k) >= Len(n.path) /\ SubSeq(k, 1, Len(n.path)) = n.path
                   THEN here \o PathEncs(n.child, SubSeq(k, Len(n.path) + 1, Len(k)), D, FALSE) ELSE here
          ELSE IF k = <<>> THEN here ELSE here \o PathEncs(n.kids[k[1]], Tail(k), D, FALSE)
=============================================================================
