SPECIFICATION Spec
INVARIANTS LookupOK WellFormedInv
