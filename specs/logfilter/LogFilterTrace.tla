--------------------------- MODULE LogFilterTrace ---------------------------
(***************************************************************************)
(* Trace specification for C16.  A "chain" event carries the canonical     *)
(* receipts (as read back from the database), header / receipt blooms as   *)
(* bit positions and the independent keccak bit positions of every item;   *)
(* "query" events carry criteria, range, the way the query was answered    *)
(* and the result.  TLC computes LogFilter!BruteForce and judges.          *)
(***************************************************************************)
EXTENDS TraceLib, LogFilter, BitCodec
VARIABLES l, CH, X
tvars == <<l, CH, X>>
Ev == Trace[l]

RECURSIVE Flat(_)
Flat(ss) == IF ss = <<>> THEN <<>> ELSE Head(ss) \o Flat(Tail(ss))

TInit == l = 1 /\ CH = [e |-> "none"] /\ X = [e |-> "none"] /\ InitHW
TChain == l <= NLines /\ Ev.e = "chain" /\ l' = l + 1 /\ Consumed(l) /\ X' = Ev
          /\ CH' = [chain |-> [n \in 1..Len(Ev.blocks) |-> Flat(Ev.blocks[n].receipts)], head |-> Ev.head]
TQuery == l <= NLines /\ Ev.e = "query" /\ l' = l + 1 /\ Consumed(l) /\ X' = Ev /\ UNCHANGED CH
TCodec == l <= NLines /\ Ev.e = "codec" /\ l' = l + 1 /\ Consumed(l) /\ X' = Ev /\ UNCHANGED CH
TSpec == TInit /\ [][TChain \/ TQuery \/ TCodec]_tvars

\* the compression of index vectors (BitCodec.tla): what was stored decompresses to the vector, and - for the short vectors the
\* specification evaluates - is the encoding the specification defines
CodecT == X.e = "codec" => (X.decOk /\ X.same /\ (X.small => (X.dec = X.data /\ X.enc = Compress(X.data))))

IsChain == X.e = "chain"
Bits == [i \in {X.items[k].item : k \in 1..Len(X.items)} |-> SetOf(X.items[CHOOSE k \in 1..Len(X.items) : X.items[k].item = i].bits)]

\* "The bloom filter of every receipt and block header contains every address and topic of every log it covers"
HeaderBloomCompleteT == IsChain => \A n \in 1..Len(X.blocks) : NoFalseNegative(Bits, Flat(X.blocks[n].receipts), SetOf(X.blocks[n].hbloom))
ReceiptBloomCompleteT == IsChain => \A n \in 1..Len(X.blocks) : \A r \in 1..Len(X.blocks[n].receipts) :
                           NoFalseNegative(Bits, X.blocks[n].receipts[r], SetOf(X.blocks[n].rblooms[r]))
ChainShapeT == IsChain => Len(X.blocks) = X.head + 1

Crit == [addrs |-> SetOf(X.addrs), topics |-> [p \in 1..Len(X.topics) |-> SetOf(X.topics[p])]]
\* "returns exactly the logs a brute-force scan of the canonical receipts would return, in chain order, whether it is answered through
\*  the bloom-bits index or by scanning headers"
QueryExactT == X.e = "query" =>
   /\ X.err = ""
   /\ [k \in 1..Len(X.result) |-> <<X.result[k].n, X.result[k].k>>] = BruteForce(CH.chain, Crit, X.from, X.to)
   /\ \A k \in 1..Len(X.result) : /\ X.result[k].canon
                                  /\ X.result[k].log = CH.chain[X.result[k].n + 1][X.result[k].k]
=============================================================================
