------------------------------ MODULE BitCodec ------------------------------
(***************************************************************************)
(* The compression of bloom-bit vectors (common/bitutil/compress.go), which *)
(* every section of the log index passes through on its way into and out of *)
(* the database (BloomIndexer.Commit -> CompressBytes, the retrieval in      *)
(* aqua/bloombits.go -> DecompressBytes): a vector is replaced by the bitset *)
(* of its non-zero bytes (itself encoded the same way) followed by those     *)
(* bytes - if that is SHORTER than the vector; a stored vector whose length  *)
(* equals the target is taken as raw data.  C16 needs                        *)
(*     Decompress(Compress(v), Len(v)) = v     for every vector v.           *)
(***************************************************************************)
EXTENDS Naturals, Sequences, FiniteSets
CONSTANT StoreWhenEqual     \* FALSE: as the code ("<"); TRUE: the encoding is also stored when it is exactly as long ("<=", must fail)

Zeros(n) == [i \in 1..n |-> 0]
\* bit i (0-based) of the bitset seq bs: byte i \div 8, mask 1 << (7 - i % 8)
BitSet(bs, i) == (bs[(i \div 8) + 1] \div (2 ^ (7 - (i % 8)))) % 2 = 1
NonZero(data) == SelectSeq(data, LAMBDA b : b # 0)
BitsetOf(data) == [k \in 1..((Len(data) + 7) \div 8) |->
                     LET bit(j) == IF (k - 1) * 8 + j + 1 <= Len(data) /\ data[(k - 1) * 8 + j + 1] # 0 THEN 2 ^ (7 - j) ELSE 0
                     IN bit(0) + bit(1) + bit(2) + bit(3) + bit(4) + bit(5) + bit(6) + bit(7)]

RECURSIVE Encode(_)
Encode(data) ==
  IF Len(data) = 0 THEN <<>>
  ELSE IF Len(data) = 1 THEN (IF data[1] = 0 THEN <<>> ELSE data)
  ELSE IF NonZero(data) = <<>> THEN <<>>
  ELSE Encode(BitsetOf(data)) \o NonZero(data)

Compress(data) == LET out == Encode(data) IN
                  IF Len(out) < Len(data) \/ (StoreWhenEqual /\ Len(out) = Len(data)) THEN out ELSE data

\* bitsetDecodePartialBytes: [ok, out, used]
RECURSIVE DecodePartial(_, _)
DecodePartial(data, target) ==
  IF target = 0 THEN [ok |-> TRUE, out |-> <<>>, used |-> 0]
  ELSE IF Len(data) = 0 THEN [ok |-> TRUE, out |-> Zeros(target), used |-> 0]
  ELSE IF target = 1 THEN [ok |-> TRUE, out |-> <<data[1]>>, used |-> IF data[1] # 0 THEN 1 ELSE 0]
  ELSE LET r == DecodePartial(data, (target + 7) \div 8) IN
       IF ~r.ok THEN r
       ELSE LET bs == r.out
                set == {i \in 0..(8 * Len(bs) - 1) : BitSet(bs, i)}
                rank(i) == Cardinality({j \in set : j < i})
            IN IF \E i \in set : r.used + rank(i) + 1 > Len(data) \/ i >= target \/ data[r.used + rank(i) + 1] = 0
               THEN [ok |-> FALSE, out |-> <<>>, used |-> 0]
               ELSE [ok |-> TRUE, out |-> [i \in 1..target |-> IF (i - 1) \in set THEN data[r.used + rank(i - 1) + 1] ELSE 0],
                     used |-> r.used + Cardinality(set)]

Decompress(data, target) ==
  IF Len(data) > target THEN [ok |-> FALSE, out |-> <<>>]
  ELSE IF Len(data) = target THEN [ok |-> TRUE, out |-> data]
  ELSE LET r == DecodePartial(data, target) IN
       IF r.ok /\ r.used = Len(data) THEN [ok |-> TRUE, out |-> r.out] ELSE [ok |-> FALSE, out |-> <<>>]

RoundTrips(v) == LET d == Decompress(Compress(v), Len(v)) IN d.ok /\ d.out = v
=============================================================================
