SPECIFICATION Spec
INVARIANTS PipelineIsBruteForce BloomsComplete
