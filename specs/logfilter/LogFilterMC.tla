------------------------------ MODULE LogFilterMC ------------------------------
(* Model check: for every small chain, every criteria and every range the bloom-prefiltered pipeline returns the brute-force
   result, with bit assignments that COLLIDE (a and t1 share positions; t2 is covered by a and t1 together). *)
EXTENDS LogFilter, TLC
Items == {"a", "b", "t1", "t2"}
MBits == [i \in Items |-> IF i = "a" THEN {1, 2, 3} ELSE IF i = "b" THEN {4, 5, 6} ELSE IF i = "t1" THEN {3, 7, 8} ELSE {1, 7, 2}]
Logs == [addr : {"a", "b"}, topics : {<<>>, <<"t1">>, <<"t2">>, <<"t1", "t2">>, <<"t2", "t1">>}]
BlocksU == {<<>>} \cup {<<x>> : x \in Logs}
VARIABLES chain, C, from, to
Init == /\ chain \in [1..3 -> BlocksU]
        /\ C \in [addrs : {{}, {"a"}, {"a", "b"}}, topics : {<<>>, <<{"t1"}>>, <<{}, {"t2"}>>, <<{"t1", "t2"}>>, <<{"t2"}, {"t1"}>>}]
        /\ from \in {-1, 0, 1} /\ to \in {-1, 1, 2, 5}
Next == UNCHANGED <<chain, C, from, to>>
Spec == Init /\ [][Next]_<<chain, C, from, to>>
Blooms == [n \in 1..3 |-> BloomOf(MBits, chain[n])]
PipelineIsBruteForce == \A ss \in {1, 2} : \A secs \in 0..2 : Pipeline(MBits, chain, Blooms, C, from, to, ss, secs) = BruteForce(chain, C, from, to)
BloomsComplete == \A n \in 1..3 : NoFalseNegative(MBits, chain[n], Blooms[n])
=============================================================================
