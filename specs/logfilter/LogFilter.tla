------------------------------- MODULE LogFilter -------------------------------
(***************************************************************************)
(* C16: log blooms and log queries.                                        *)
(*  Bits   : [item -> set of bit positions]  (three positions in 0..2047   *)
(*           from keccak; supplied and asserted by the driver, or chosen   *)
(*           WITH collisions in the model)                                 *)
(*  a log  : [addr, topics (sequence)]                                     *)
(*  a chain: sequence of blocks, block b (number b-1) = sequence of logs   *)
(*  criteria C : [addrs (set, {} = any), topics (sequence of sets,         *)
(*               {} = wildcard position)]                                  *)
(* L1: LogMatch, BruteForce, NoFalseNegative.                              *)
(* L2: Pipeline - what aqua/filters does: sections answered through the    *)
(* bloom-bits index (a block is a candidate iff every criteria group has   *)
(* an alternative whose three bit-vectors are all set for that block),     *)
(* the unindexed tail through the header bloom, every candidate re-checked *)
(* exactly.                                                                *)
(***************************************************************************)
EXTENDS Integers, Sequences, FiniteSets

SeqSet(s) == {s[k] : k \in 1..Len(s)}
ItemsOf(log) == {log.addr} \cup SeqSet(log.topics)
BloomOf(Bits, logs) == UNION {UNION {Bits[i] : i \in ItemsOf(logs[k])} : k \in 1..Len(logs)}
InBloom(Bits, bloom, item) == Bits[item] \subseteq bloom

\* "the bloom filter of every receipt and block header contains every address and topic of every log it covers"
NoFalseNegative(Bits, logs, bloom) == \A k \in 1..Len(logs) : \A i \in ItemsOf(logs[k]) : InBloom(Bits, bloom, i)

\* exact matching (filterLogs)
LogMatch(log, C) ==
  /\ (C.addrs = {} \/ log.addr \in C.addrs)
  /\ Len(C.topics) <= Len(log.topics)
  /\ \A p \in 1..Len(C.topics) : C.topics[p] = {} \/ log.topics[p] \in C.topics[p]

\* block numbers covered by a query on a chain whose head is number head
Lo(from, head) == IF from < 0 THEN head ELSE from
Hi(to, head) == IF to < 0 THEN head ELSE IF to > head THEN head ELSE to

\* "exactly the logs a brute-force scan of the canonical receipts would return, in chain order": <<block number, log index>>
RECURSIVE Scan(_, _, _, _, _)
Scan(chain, C, n, hi, keep) ==        \* keep(n) says whether block n is examined at all
  IF n > hi THEN <<>>
  ELSE (IF keep[n] THEN SelectSeq([k \in 1..Len(chain[n + 1]) |-> <<n, k>>], LAMBDA p : LogMatch(chain[n + 1][p[2]], C)) ELSE <<>>)
       \o Scan(chain, C, n + 1, hi, keep)
BruteForce(chain, C, from, to) ==
  LET head == Len(chain) - 1 IN Scan(chain, C, Lo(from, head), Hi(to, head), [n \in 0..head |-> TRUE])

\* the bloom test of one block against the criteria groups (addresses are one group, every non-wildcard topic position another)
Groups(C) == (IF C.addrs = {} THEN {} ELSE {C.addrs}) \cup {C.topics[p] : p \in {q \in 1..Len(C.topics) : C.topics[q] # {}}}
BloomMatch(Bits, bloom, C) == \A g \in Groups(C) : \E i \in g : InBloom(Bits, bloom, i)

\* L2: indexed sections use the transposed blooms, the rest the header blooms; both are the same predicate on the block's bloom
Pipeline(Bits, chain, blooms, C, from, to, sectionSize, sections) ==
  LET head == Len(chain) - 1
      indexedTo == sections * sectionSize         \* blocks below are answered from the index
      cand == [n \in 0..head |-> BloomMatch(Bits, blooms[n + 1], C)]
  IN Scan(chain, C, Lo(from, head), Hi(to, head), cand)
=============================================================================
