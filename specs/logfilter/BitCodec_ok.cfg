SPECIFICATION Spec
CONSTANTS Alphabet = {0, 1, 128, 255} MaxLen = 9 StoreWhenEqual = FALSE
INVARIANTS RoundTripInv
CHECK_DEADLOCK FALSE
