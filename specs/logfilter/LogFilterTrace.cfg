SPECIFICATION TSpec
CONSTANTS StoreWhenEqual = FALSE
INVARIANTS HeaderBloomCompleteT ReceiptBloomCompleteT ChainShapeT QueryExactT CodecT
POSTCONDITION TraceAccepted
CHECK_DEADLOCK FALSE
