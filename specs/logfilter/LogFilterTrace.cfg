SPECIFICATION TSpec
INVARIANTS HeaderBloomCompleteT ReceiptBloomCompleteT ChainShapeT QueryExactT
POSTCONDITION TraceAccepted
CHECK_DEADLOCK FALSE
