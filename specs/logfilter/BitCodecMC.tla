----------------------------- MODULE BitCodecMC -----------------------------
(* every vector of up to MaxLen bytes over a boundary alphabet round-trips *)
EXTENDS BitCodec
CONSTANTS Alphabet, MaxLen
VARIABLE v
Init == v = <<>>
Next == Len(v) < MaxLen /\ \E b \in Alphabet : v' = Append(v, b)
Spec == Init /\ [][Next]_v
RoundTripInv == RoundTrips(v)
=============================================================================
