----------------------------- MODULE ChainCrash -----------------------------
(***************************************************************************)
(* L2 write-level model of block import for C04: every database write of   *)
(* WriteBlockWithState / reorg / insert is one step, a batch is one atomic *)
(* step, and the process may die between any two steps.  Recover is        *)
(* loadLastState + repair.                                                 *)
(*                                                                         *)
(* The disk:  tdK, dataK (header+body+receipts), stateK (state roots whose *)
(* whole trie is on disk), nodeK (state roots whose ROOT NODE is on disk), *)
(* canon, lastBlock.  A state trie of block b is two writes: children      *)
(* first (kids[b]) then the root - or the other way round when RootFirst   *)
(* (a seeded defect the invariant RootImpliesTrie must catch).             *)
(*                                                                         *)
(* Order == "fixed"  : code after the fix: reorg inserts the ancestors     *)
(*                     only; block data + canon + LastBlock in ONE batch   *)
(* Order == "clearfirst" : like "fixed" but the stale numbers above the new *)
(*                     head are deleted by a separate write BEFORE the     *)
(*                     head moves (the first version of fix D1; the model  *)
(*                     showed the crash window and the fix was reworked)   *)
(* Order == "asis"   : pinned code: reorg inserts the incoming block (two  *)
(*                     separate puts: canon, LastBlock) before its data    *)
(*                     batch is flushed                                    *)
(***************************************************************************)
EXTENDS ChainCrashProps, TLC

CONSTANTS BSeq, MaxDiff, Order, RootFirst, Archive
G == "g"
NB == Len(BSeq)
Blocks == {BSeq[k] : k \in 1..NB}
AllB == Blocks \cup {G}
Idx(b) == IF b = G THEN 0 ELSE CHOOSE k \in 1..NB : BSeq[k] = b
Heights0 == 0..(NB + 1)

VARIABLES T, tdK, dataK, stateK, nodeK, kidsK, canon, lastBlock,   \* disk
          head, memState,                                          \* process memory (lost in a crash)
          queue,                                                   \* writes still to be issued for the block in flight
          given, phase, recHead, recOK

vars == <<T, tdK, dataK, stateK, nodeK, kidsK, canon, lastBlock, head, memState, queue, given, phase, recHead, recOK>>

ParentFns == {p \in [Blocks -> AllB] : \A b \in Blocks : Idx(p[b]) < Idx(b)}
RECURSIVE NumOf(_, _)
NumOf(p, b) == IF b = G THEN 0 ELSE 1 + NumOf(p, p[b])
MkTree(p, d) == [parent |-> [b \in AllB |-> IF b = G THEN NoBlock ELSE p[b]],
                 num |-> [b \in AllB |-> NumOf(p, b)],
                 diff |-> [b \in AllB |-> IF b = G THEN FromInt(1) ELSE FromInt(d[b])],
                 txs |-> [b \in AllB |-> <<>>]]

Init ==
  /\ \E p \in ParentFns : \E d \in [Blocks -> 1..MaxDiff] : T = MkTree(p, d)
  /\ tdK = (G :> FromInt(1)) /\ dataK = {G} /\ stateK = {G} /\ nodeK = {G} /\ kidsK = {G}
  /\ canon = [n \in Heights0 |-> IF n = 0 THEN G ELSE NoBlock] /\ lastBlock = G
  /\ head = G /\ memState = {G} /\ queue = <<>> /\ given = {G}
  /\ phase = "run" /\ recHead = G /\ recOK = TRUE

Num(b) == T.num[b]
Par(b) == T.parent[b]
Anc(b, n) == AncestorAt(T, b, n)
RECURSIVE PathDown(_, _)
PathDown(b, n) == IF Num(b) <= n THEN <<>> ELSE <<b>> \o PathDown(Par(b), n)
Rev(s) == [k \in 1..Len(s) |-> s[Len(s) + 1 - k]]
CommonHeight(a, b) ==
  CHOOSE n \in Heights0 : /\ Anc(a, n) = Anc(b, n) /\ Anc(a, n) # NoBlock
                          /\ \A m \in Heights0 : (m > n /\ Anc(a, m) # NoBlock /\ Anc(b, m) # NoBlock) => Anc(a, m) # Anc(b, m)

\* write records
W(k, b) == [k |-> k, b |-> b]

StateWrites(b) ==
  IF ~Archive THEN <<>>                       \* pruning node: state stays in memory until Stop
  ELSE IF RootFirst THEN <<W("root", b), W("kids", b)>> ELSE <<W("kids", b), W("root", b)>>

InsertWrites(x) ==
  IF Order = "asis" THEN <<W("canon", x), W("lastblock", x)>> ELSE <<W("canon+lastblock", x)>>

RECURSIVE Flatten(_)
Flatten(ss) == IF ss = <<>> THEN <<>> ELSE Head(ss) \o Flatten(Tail(ss))

\* the complete write sequence of importing b on top of the current disk/memory state
WritesFor(b) ==
  LET externTd == Add(tdK[Par(b)], T.diff[b])
      c == Cmp(externTd, tdK[head])
      doReorg == c > 0 \/ (c = 0 /\ Num(b) < Num(head))
      branch == IF doReorg /\ Par(b) # head THEN Rev(PathDown(b, CommonHeight(head, b))) ELSE <<>>
      \* "asis": reorg() inserts the whole new branch including b; "fixed": only the ancestors of b
      reorgIns == IF Order = "asis" THEN branch
                  ELSE IF branch = <<>> THEN <<>> ELSE SubSeq(branch, 1, Len(branch) - 1)
      reorgW == Flatten([k \in 1..Len(reorgIns) |-> InsertWrites(reorgIns[k])])
  IN <<W("td", b)>> \o StateWrites(b) \o reorgW \o
     (IF doReorg
        THEN IF Order = "asis" THEN <<W("data", b)>> \o InsertWrites(b)
             ELSE IF Order = "clearfirst" THEN <<W("clearabove", b), W("data+canon+lastblock", b)>>
             ELSE <<W("data+canon+lastblock", b)>>      \* also deletes the numbers above Num(b), same batch
        ELSE <<W("data", b)>>)

Begin(b) ==
  /\ phase = "run" /\ queue = <<>>
  /\ b \notin dataK /\ Par(b) \in dataK /\ Par(b) \in DOMAIN tdK
  /\ (Par(b) \in stateK \/ Par(b) \in memState)
  /\ queue' = WritesFor(b)
  /\ memState' = memState \cup {b}
  /\ UNCHANGED <<T, tdK, dataK, stateK, nodeK, kidsK, canon, lastBlock, head, given, phase, recHead, recOK>>

Apply(w) ==
  /\ tdK' = IF w.k = "td" THEN (w.b :> Add(tdK[Par(w.b)], T.diff[w.b])) @@ tdK ELSE tdK
  /\ kidsK' = IF w.k = "kids" THEN kidsK \cup {w.b} ELSE kidsK
  /\ nodeK' = IF w.k = "root" THEN nodeK \cup {w.b} ELSE nodeK
  /\ stateK' = IF (w.k = "root" /\ w.b \in kidsK) \/ (w.k = "kids" /\ w.b \in nodeK) THEN stateK \cup {w.b} ELSE stateK
  /\ dataK' = IF w.k \in {"data", "data+canon+lastblock"} THEN dataK \cup {w.b} ELSE dataK
  /\ canon' = IF w.k \in {"canon", "canon+lastblock"} THEN [canon EXCEPT ![Num(w.b)] = w.b]
              ELSE IF w.k = "data+canon+lastblock"
                THEN [m \in Heights0 |-> IF m > Num(w.b) /\ Order = "fixed" THEN NoBlock ELSE IF m = Num(w.b) THEN w.b ELSE canon[m]]
              ELSE IF w.k = "clearabove" THEN [m \in Heights0 |-> IF m > Num(w.b) THEN NoBlock ELSE canon[m]]
              ELSE canon
  /\ lastBlock' = IF w.k \in {"lastblock", "canon+lastblock", "data+canon+lastblock"} THEN w.b ELSE lastBlock
  /\ head' = IF w.k \in {"lastblock", "canon+lastblock", "data+canon+lastblock"} THEN w.b ELSE head

Step ==
  /\ phase = "run" /\ queue # <<>>
  /\ Apply(Head(queue))
  /\ queue' = Tail(queue)
  /\ given' = IF Len(queue) = 1 THEN given \cup {Head(queue).b} ELSE given
  /\ UNCHANGED <<T, memState, phase, recHead, recOK>>

\* the process dies between two writes
Crash ==
  /\ phase = "run"
  /\ phase' = "crashed" /\ queue' = <<>> /\ memState' = {}
  /\ UNCHANGED <<T, tdK, dataK, stateK, nodeK, kidsK, canon, lastBlock, head, given, recHead, recOK>>

\* NewBlockChain: loadLastState; a head block that is not on disk ends in Reset() which panics on a
\* fresh BlockChain (nil currentBlock); a head without state is repaired by walking back
Recover ==
  /\ phase = "crashed"
  /\ IF lastBlock \notin dataK
       THEN recOK' = FALSE /\ recHead' = NoBlock
       ELSE recOK' = TRUE /\ recHead' = NearestWith(T, lastBlock, nodeK)
  /\ phase' = "recovered"
  /\ UNCHANGED <<T, tdK, dataK, stateK, nodeK, kidsK, canon, lastBlock, head, memState, queue, given>>

Next == (\E b \in Blocks : Begin(b)) \/ Step \/ Crash \/ Recover
Spec == Init /\ [][Next]_vars

----------------------------------------------------------------------------
R == [lastBlock |-> lastBlock, rootOnDisk |-> nodeK, stateOnDisk |-> stateK, blockOnDisk |-> dataK,
      reopen |-> IF recOK THEN "ok" ELSE "panic", head |-> recHead,
      stateOK |-> recHead \in stateK,
      indexOK |-> recHead # NoBlock /\ \A n \in 0..Num(recHead) : canon[n] = Anc(recHead, n) /\ canon[n] \in dataK]

Recovered == phase = "recovered"
ReopenOKInv == Recovered => ReopenOK(R)
HeadOKInv == (Recovered /\ recOK) => HeadOK(T, R, IF Archive THEN "archive" ELSE "pruning")
StateAndIndexOKInv == (Recovered /\ recOK) => StateAndIndexOK(R)
RootImpliesTrieInv == RootImpliesTrie([rootOnDisk |-> nodeK, stateOnDisk |-> stateK])
\* at every instant the persisted head pointer names a block whose data is on disk
HeadPointerBackedInv == lastBlock \in dataK
=============================================================================
