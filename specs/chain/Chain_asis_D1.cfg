\* vacuity guard: the model WITHOUT the D1 fix must violate NothingAboveHeadInv
SPECIFICATION Spec
CONSTANTS
  BSeq <- B4
  MaxDiff = 2
  TxSeq <- Tx1
  Mode = "full"
  AllowSetHead = TRUE
  FixAbove = FALSE
  FixLookup = TRUE
  FixOrphan = TRUE
  PrunedRewind = FALSE
  FixDisplaced = TRUE
  KeepDescendants = TRUE
INVARIANTS TypeOK HeadHeaviestInv TdAdditiveInv CanonIsAncestryInv NothingAboveHeadInv RetrievableInv LookupInv
PROPERTIES HeadTdMonotoneProp
