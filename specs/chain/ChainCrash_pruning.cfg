\* pruning node (states only in memory): recovery walks back to the nearest flushed state
SPECIFICATION Spec
CONSTANTS
  BSeq <- B4
  MaxDiff = 2
  Order = "fixed"
  RootFirst = FALSE
  Archive = FALSE
INVARIANTS ReopenOKInv HeadOKInv StateAndIndexOKInv RootImpliesTrieInv HeadPointerBackedInv
