SPECIFICATION Spec
CONSTANTS Accts = {a, b} MaxBal = 3 RevertOnError = FALSE
INVARIANT SelfBuiltAccepted
