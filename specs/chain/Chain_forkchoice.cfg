\* C02: full imports only, 5 blocks, difficulties 1..2, no transactions, no rewind
SPECIFICATION Spec
CONSTANTS
  BSeq <- B5
  MaxDiff = 2
  TxSeq <- NoTx
  Mode = "full"
  AllowSetHead = FALSE
  FixAbove = TRUE
  FixLookup = TRUE
  FixOrphan = TRUE
  PrunedRewind = FALSE
  FixDisplaced = TRUE
  KeepDescendants = TRUE
INVARIANTS TypeOK HeadHeaviestInv TdAdditiveInv CanonIsAncestryInv NothingAboveHeadInv RetrievableInv
PROPERTIES HeadTdMonotoneProp
