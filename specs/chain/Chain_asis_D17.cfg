\* C03: full imports + SetHead, 4 blocks, one transaction that may sit on two branches
SPECIFICATION Spec
CONSTANTS
  BSeq <- B4
  MaxDiff = 2
  TxSeq <- Tx1
  Mode = "full"
  AllowSetHead = TRUE
  FixAbove = TRUE
  FixLookup = TRUE
  FixOrphan = TRUE
  PrunedRewind = TRUE
  FixDisplaced = TRUE
  KeepDescendants = FALSE
INVARIANTS TypeOK HeadHeaviestInv TdAdditiveInv CanonIsAncestryInv NothingAboveHeadInv RetrievableInv LookupInv
PROPERTIES HeadTdMonotoneProp
