\* archive node, every tree of 4 blocks, every arrival order, crash between any two writes; code after the fix
SPECIFICATION Spec
CONSTANTS
  BSeq <- B4
  MaxDiff = 2
  Order = "fixed"
  RootFirst = FALSE
  Archive = TRUE
INVARIANTS ReopenOKInv HeadOKInv StateAndIndexOKInv RootImpliesTrieInv HeadPointerBackedInv
