SPECIFICATION TSpec
INVARIANTS SplitT NoWedgeT FailReportedT RecoversT ReopenT ConvergesT
POSTCONDITION TraceAccepted
CHECK_DEADLOCK FALSE
