\* all header-first histories of 5 operations over every 4-block tree
SPECIFICATION GSpec
CONSTANTS
  BSeq <- B4
  MaxDiff = 2
  TxSeq <- NoTx
  Mode = "light"
  AllowSetHead = TRUE
  FixAbove = TRUE
  FixLookup = TRUE
  FixOrphan = TRUE
  PrunedRewind = FALSE
  FixDisplaced = TRUE
  KeepDescendants = TRUE
  GenDepth = 5
INVARIANTS Emit
