------------------------------- MODULE BlockBuild -------------------------------
(***************************************************************************)
(* C01, second sentence: "a block assembled by the node's own              *)
(* block-building path is accepted by its own import path with identical   *)
(* results".                                                               *)
(*                                                                         *)
(* The builder (opt/miner worker.commitTransactions) walks the pending     *)
(* transactions; each is applied to the work state.  Applying a            *)
(* transaction is not atomic with respect to failure: the nonce check      *)
(* fails before anything is touched, but gas is bought and the nonce is    *)
(* bumped BEFORE the value transfer is found unaffordable, and that error  *)
(* (insufficient balance for transfer) rejects the transaction as a whole. *)
(* The builder therefore snapshots the state before each transaction and   *)
(* reverts on error; the importer (StateProcessor) applies exactly the     *)
(* included transactions to the parent state.  SelfBuiltAccepted: both     *)
(* arrive at the same state.                                               *)
(*                                                                         *)
(* Abstract ledger: two accounts, balances 0..MaxBal, nonces; a            *)
(* transaction is [from, nonce, fee, value].                               *)
(***************************************************************************)
EXTENDS Integers, Sequences, FiniteSets
CONSTANTS Accts, MaxBal, RevertOnError

Txs == [from : Accts, nonce : 0..1, fee : 1..2, value : 0..MaxBal]
St0s == [bal : [Accts -> 0..MaxBal], nonce : [Accts -> {0}]]

\* one transaction on a state: <<result state, ok>>.  The failure after the purchase leaves its traces in the returned state.
Apply(st, tx) ==
  IF st.nonce[tx.from] # tx.nonce THEN <<st, FALSE>>                       \* nonce too low / too high: untouched
  ELSE IF st.bal[tx.from] < tx.fee THEN <<st, FALSE>>                       \* cannot buy gas: untouched
  ELSE LET s1 == [bal |-> [st.bal EXCEPT ![tx.from] = @ - tx.fee], nonce |-> [st.nonce EXCEPT ![tx.from] = @ + 1]]
       IN IF s1.bal[tx.from] < tx.value THEN <<s1, FALSE>>                  \* insufficient balance for transfer: gas bought, nonce bumped
          ELSE <<[s1 EXCEPT !.bal[tx.from] = @ - tx.value], TRUE>>          \* (the recipient is outside the model)

\* the builder over a sequence of offered transactions: <<work state, included transactions>>
RECURSIVE Build(_, _, _)
Build(st, offered, incl) ==
  IF offered = <<>> THEN <<st, incl>>
  ELSE LET r == Apply(st, Head(offered))
       IN IF r[2] THEN Build(r[1], Tail(offered), Append(incl, Head(offered)))
          ELSE Build(IF RevertOnError THEN st ELSE r[1], Tail(offered), incl)

\* the importer: every included transaction must apply; <<state, ok>>
RECURSIVE Import(_, _)
Import(st, incl) ==
  IF incl = <<>> THEN <<st, TRUE>>
  ELSE LET r == Apply(st, Head(incl)) IN IF r[2] THEN Import(r[1], Tail(incl)) ELSE <<st, FALSE>>

VARIABLES st0, offered
Init == st0 \in St0s /\ offered \in [1..2 -> Txs]
Next == UNCHANGED <<st0, offered>>
Spec == Init /\ [][Next]_<<st0, offered>>

SelfBuiltAccepted == LET b == Build(st0, offered, <<>>)
                         i == Import(st0, b[2])
                     IN i[2] /\ i[1] = b[1]
=============================================================================
