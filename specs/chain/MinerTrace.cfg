SPECIFICATION TSpec
INVARIANTS SelfBuiltAcceptedT NoPanicT
POSTCONDITION TraceAccepted
CHECK_DEADLOCK FALSE
