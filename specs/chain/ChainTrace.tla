---------------------------- MODULE ChainTrace ----------------------------
(***************************************************************************)
(* Trace specification for C01, C02, C03.  Lines (ndjson) recorded from    *)
(* the real core.BlockChain by harness/core/chainops_test.go:              *)
(*   tree{blocks[id,parent,num,diff,txs,valid,rsig,ssig,sameas],alltx}     *)
(*   run{mode,label,obs}        a fresh node on a fresh database           *)
(*   op{op,blocks,idx,err,imported,obs}  one API call and the complete     *)
(*                              observation of the node after it           *)
(* Every field the predicates read is logged, so the step is deterministic *)
(* and each clause of ChainProps is a named INVARIANT.                     *)
(***************************************************************************)
EXTENDS TraceLib, ChainProps

VARIABLES l, kind, T, TD, valid, sameas, alltx, O, Oprev, given, rewound, light,
          results, lastop,
          pruning,      \* the node of this run garbage-collects state (mode "pruning")
          executed      \* blocks this node has executed since the run began (they appear in an op's `imported` list)

tvars == <<l, kind, T, TD, valid, sameas, alltx, O, Oprev, given, rewound, light, results, lastop, pruning, executed>>

Ev == Trace[l]
Is(e) == l <= NLines /\ Ev.e = e /\ l' = l + 1 /\ Consumed(l)

ObsOf(j) ==
  [head |-> j.head, hhead |-> j.hhead, fhead |-> j.fhead,
   canonB |-> [n \in 0..(Len(j.canonB) - 1) |-> j.canonB[n + 1]],
   canonH |-> [n \in 0..(Len(j.canonH) - 1) |-> j.canonH[n + 1]],
   td |-> j.td,
   hasHeader |-> SetOf(j.hasHeader), hasBody |-> SetOf(j.hasBody),
   hasRcpt |-> SetOf(j.hasRcpt), hasState |-> SetOf(j.hasState),
   \* a lookup counts as resolving to <<block, index>> only if the transaction and its receipt read back
   lookup |-> [t \in DOMAIN j.lookup |->
                 IF j.lookup[t][3] /\ j.lookup[t][4] THEN <<j.lookup[t][1], j.lookup[t][2]>> ELSE <<"BAD", 0>>],
   \* transactions that read back while their receipt does not: where the entry points
   noRcpt |-> [t \in {x \in DOMAIN j.lookup : j.lookup[x][3] /\ ~j.lookup[x][4]} |-> <<j.lookup[t][1], j.lookup[t][2]>>],
   headState |-> j.headState]

NoObs == [head |-> "g", hhead |-> "g"]

TInit ==
  /\ l = 1 /\ kind = "init" /\ T = <<>> /\ TD = <<>> /\ valid = <<>> /\ sameas = <<>> /\ alltx = {}
  /\ O = NoObs /\ Oprev = NoObs /\ given = {} /\ rewound = FALSE /\ light = FALSE
  /\ results = <<>> /\ lastop = [op |-> "none"] /\ pruning = FALSE /\ executed = {}
  /\ InitHW

BlkIds(bl) == {bl[k].id : k \in 1..Len(bl)}
BlkOf(bl, id) == bl[CHOOSE k \in 1..Len(bl) : bl[k].id = id]

TTree ==
  /\ Is("tree")
  /\ LET bl == Ev.blocks
         ids == BlkIds(bl)
         tree == [parent |-> [b \in ids |-> BlkOf(bl, b).parent],
                  num    |-> [b \in ids |-> BlkOf(bl, b).num],
                  diff   |-> [b \in ids |-> BlkOf(bl, b).diff],
                  txs    |-> [b \in ids |-> BlkOf(bl, b).txs]]
     IN /\ T' = tree
        /\ TD' = TDOf(tree)
        /\ valid' = [b \in ids |-> BlkOf(bl, b).valid]
        /\ sameas' = [b \in ids |-> IF Has(BlkOf(bl, b), "sameas") THEN BlkOf(bl, b).sameas ELSE "-"]
        /\ results' = [b \in {x \in ids : BlkOf(bl, x).valid} |-> [r |-> {BlkOf(bl, b).rsig}, s |-> {BlkOf(bl, b).ssig}]]
  /\ alltx' = SetOf(Ev.alltx)
  /\ kind' = "tree"
  /\ UNCHANGED <<O, Oprev, given, rewound, light, lastop, pruning, executed>>

TRun ==
  /\ Is("run")
  /\ O' = ObsOf(Ev.obs) /\ Oprev' = ObsOf(Ev.obs)
  /\ given' = {"g"} /\ rewound' = FALSE /\ light' = FALSE
  /\ kind' = "run" /\ lastop' = [op |-> "run", mode |-> Ev.mode]
  /\ pruning' = (Ev.mode = "pruning") /\ executed' = {}
  /\ UNCHANGED <<T, TD, valid, sameas, alltx, results>>

\* blocks of the batch that were processed without error
OkPrefix(ev) == IF ev.err = "" THEN ev.blocks ELSE SubSeq(ev.blocks, 1, ev.idx)

RECURSIVE AddGiven(_, _)
AddGiven(g, seq) ==
  IF seq = <<>> THEN g
  ELSE LET b == Head(seq) IN
       IF valid[b] /\ T.parent[b] \in g THEN AddGiven(g \cup {b}, Tail(seq)) ELSE AddGiven(g, Tail(seq))

AddResults(res, imp) ==
  [b \in DOMAIN res |->
     LET mine == {k \in 1..Len(imp) : imp[k].id = b} IN
       [r |-> res[b].r \cup {imp[k].rsig : k \in mine},
        s |-> res[b].s \cup {imp[k].ssig : k \in {m \in mine : imp[m].ssig # "-"}}]]

TOp ==
  /\ Is("op")
  /\ Oprev' = O /\ O' = ObsOf(Ev.obs)
  /\ given' = IF Ev.op = "insert" THEN AddGiven(given, OkPrefix(Ev)) ELSE given
  /\ rewound' = (rewound \/ Ev.op = "sethead")
  /\ light' = (light \/ Ev.op = "headers")
  /\ results' = IF Ev.op = "insert" THEN AddResults(results, Ev.imported) ELSE results
  /\ lastop' = [op |-> Ev.op, blocks |-> Ev.blocks, err |-> Ev.err, idx |-> Ev.idx]
  /\ kind' = "op"
  /\ executed' = IF Ev.op = "insert" THEN executed \cup {Ev.imported[k].id : k \in 1..Len(Ev.imported)} ELSE executed
  /\ UNCHANGED <<T, TD, valid, sameas, alltx, pruning>>

\* the repository's block builder crashed while assembling a valid chain (recorded by the driver)
TGenFail ==
  /\ Is("genfail")
  /\ kind' = "genfail"
  /\ UNCHANGED <<T, TD, valid, sameas, alltx, results, O, Oprev, given, rewound, light, lastop, pruning, executed>>

TNext == TTree \/ TRun \/ TOp \/ TGenFail
TSpec == TInit /\ [][TNext]_tvars

AtRest == kind \in {"run", "op"}
----------------------------------------------------------------------------
\* C02
HeadHeaviestT == (kind = "op" /\ ~rewound /\ ~light) => HeadHeaviest(TD, O, given)
TdAdditiveT == AtRest => TdAdditive(TD, O)
HeadTdMonotoneT == (kind = "op" /\ lastop.op = "insert") => HeadTdMonotone(TD, Oprev, O)
\* a clean restart (Stop, NewBlockChain) keeps the head
RestartKeepsHeadT == (kind = "op" /\ lastop.op = "restart") => O.head = Oprev.head /\ O.hhead = Oprev.hhead

\* C03
CanonIsAncestryT == AtRest => CanonIsAncestry(T, O)
NothingAboveHeadT == AtRest => NothingAboveHead(T, O)
\* KNOWN FINDING D18 (KNOWN_FINDINGS.json, "ghost state"): on a pruning node whose ancestor state is gone (it was restarted), a side
\* block is stored WITHOUT being executed (ErrPrunedAncestor -> WriteBlockWithoutState); if the state root it claims happens to be
\* stored already (a sibling with the same content has it), HasBlockAndState takes the block for an executed one, its child is
\* executed on that state and the reorganisation makes the never-executed block canonical: it has no receipts.  Exactly such blocks
\* - body stored, never executed by this node, no receipts, state root shared with another block of the tree - are tolerated.
\* The same happens without a restart when a fork point lies more than 128 blocks below the head (its state was collected).
\* (the blocks between the fork point and the block with the shared root are made canonical in the same way)
Unexecuted(b) == pruning /\ b \notin executed /\ b \in O.hasBody /\ b \notin O.hasRcpt /\ b \in DOMAIN results
Anchor(g) == /\ Unexecuted(g) /\ IsAncestorOrSelf(T, g, O.head)
             /\ \E c \in DOMAIN results : c # g /\ results[c].s \cap results[g].s # {}
Anchors == {g \in DOMAIN T.num : Anchor(g)}
Ghost(b) == Unexecuted(b) /\ \E g \in Anchors : IsAncestorOrSelf(T, b, g)
GhostNow == IF AtRest /\ pruning /\ Anchors # {} THEN {b \in DOMAIN T.num : Ghost(b)} ELSE {}
KnownD18 == GhostNow # {} /\ PrintT(<<"KNOWN", "D18", l - 1>>)
KnownFindingsT == AtRest => (KnownD18 \/ TRUE)
PatchedO == [O EXCEPT !.hasRcpt = @ \cup GhostNow,
                      !.lookup = [t \in DOMAIN O.lookup |-> IF t \in DOMAIN O.noRcpt /\ O.noRcpt[t][1] \in GhostNow THEN O.noRcpt[t] ELSE O.lookup[t]]]
RetrievableT == AtRest => Retrievable(T, PatchedO)
\* the canonical blocks that can contain transactions: the gap-free run of canonical numbers whose bodies are present.  Normally its top
\* is the block head; after a rewind on a pruning node the block head may fall further back (to a block whose state is on disk) while
\* the bodies up to the header head stay canonical and their transactions stay resolvable
BodyCanonTop == LET ns == {n \in Heights(O) : \A m \in 0..n : O.canonB[m] # NoBlock}
                    top == CHOOSE n \in ns : \A k \in ns : k <= n
                IN O.canonB[top]
LookupT == AtRest => LookupIffCanonical(T, [PatchedO EXCEPT !.head = BodyCanonTop], alltx)
HeadsKnownT == AtRest => O.head \in DOMAIN T.num /\ O.hhead \in DOMAIN T.num

\* header-first import: a batch containing a header that breaks a consensus rule fails, and that header is not stored - whatever part of
\* the batch the node already had (C13: batch verification reports what one-by-one verification reports)
HeaderCorruptRejectedT ==
  (kind = "op" /\ lastop.op = "headers" /\ \E k \in 1..Len(lastop.blocks) : ~valid[lastop.blocks[k]])
     => (lastop.err # "" /\ \A k \in 1..Len(lastop.blocks) : ~valid[lastop.blocks[k]] => lastop.blocks[k] \notin O.hasHeader)

\* building a valid chain with the node's own block builder (GenerateChain / ApplyTransaction / StateDB.Commit) must not crash
GeneratorOKT == kind # "genfail"

\* no API call may crash the node (C01 import paths, C03 rewinds and header imports)
NoPanicT == kind = "op" => lastop.err # "PANIC"

\* C01
ImportFunctionalT == kind = "op" => ImportFunctional(results)

IsInsert == kind = "op" /\ lastop.op = "insert"
Batch == lastop.blocks
\* the parent is stored with its total difficulty - and, as in Chain.tla's ImportBlock, the grandparent's header, which the
\* difficulty rule reads: after a rewind a block of a side branch can outlive its own parent ("nil grandparent")
ParentKnown == /\ Len(Batch) > 0
               /\ T.parent[Batch[1]] \in Oprev.hasBody /\ T.parent[Batch[1]] \in DOMAIN Oprev.td
               /\ (T.num[Batch[1]] >= 2 => T.parent[T.parent[Batch[1]]] \in Oprev.hasHeader)

\* "a block assembled by the node's own block-building path is accepted by its own import path"
ValidAcceptedT ==
  (IsInsert /\ (\A k \in 1..Len(Batch) : valid[Batch[k]]) /\ ParentKnown)
     => (lastop.err = "" /\ \A k \in 1..Len(Batch) : Batch[k] \in O.hasBody)

\* "any other block is rejected ..." (a corrupted body that hashes like an already stored block is
\*  reported as known, which is not an acceptance)
CorruptRejectedT ==
  (IsInsert /\ Len(Batch) = 1 /\ ~valid[Batch[1]] /\ (sameas[Batch[1]] = "-" \/ sameas[Batch[1]] \notin Oprev.hasBody))
     => lastop.err # ""
\* "... and leaves the head and the state exactly as they were"
RejectIsNoopT ==
  (IsInsert /\ Len(Batch) = 1 /\ ~valid[Batch[1]]) => O = Oprev
=============================================================================
