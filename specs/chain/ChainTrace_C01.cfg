SPECIFICATION TSpec
INVARIANTS GeneratorOKT HeaderCorruptRejectedT ImportFunctionalT ValidAcceptedT CorruptRejectedT RejectIsNoopT HeadsKnownT NoPanicT
POSTCONDITION TraceAccepted
CHECK_DEADLOCK FALSE
