SPECIFICATION TSpec
INVARIANTS ImportFunctionalT ValidAcceptedT CorruptRejectedT RejectIsNoopT HeadsKnownT NoPanicT
POSTCONDITION TraceAccepted
CHECK_DEADLOCK FALSE
