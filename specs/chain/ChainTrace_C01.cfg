SPECIFICATION TSpec
INVARIANTS GeneratorOKT ImportFunctionalT ValidAcceptedT CorruptRejectedT RejectIsNoopT HeadsKnownT NoPanicT
POSTCONDITION TraceAccepted
CHECK_DEADLOCK FALSE
