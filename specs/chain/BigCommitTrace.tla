--------------------------- MODULE BigCommitTrace ---------------------------
(* C04, large commits: a block that creates 1500 accounts makes the trie database flush one state commit in several batches.  One
   line per flush k of {import, import again, Stop} that was made to fail once (archive and pruning mode):
     bigfail{mode, k, duringImport, firstBack, firstErr, headAfterFirst, secondBack, secondErr, headAfterSecond, stopBack,
             reopenErr, reopenHead, stateOK, reimportErr, reimportHead, wedged}
   "a disk write that fails is never followed by a deadlock or by a reopened view that breaks these guarantees" *)
EXTENDS TraceLib
VARIABLES l, X
tvars == <<l, X>>
TInit == l = 1 /\ X = [e |-> "none"] /\ InitHW
TStep == l <= NLines /\ l' = l + 1 /\ Consumed(l) /\ X' = Trace[l]
TSpec == TInit /\ [][TStep]_tvars

F == X.e = "bigfail"
\* the scenario is what it claims: the state commit is split into several flushes
SplitT == X.e = "bigclean" => X.flushesAll >= 4
\* no call after the failed write hangs
NoWedgeT == F => (~X.wedged /\ X.firstBack /\ X.secondBack /\ X.stopBack)
\* a write that fails during the import is reported, and the head is a block that was imported completely
FailReportedT == (F /\ X.duringImport) => (X.firstErr /\ X.headAfterFirst \in {"g", "b1"})
\* the failure being a single one, importing again succeeds
RecoversT == F => (~X.secondErr /\ X.headAfterSecond = "b2")
\* the reopened database shows a head with its complete state: the last head on an archive node, on a pruning node that block or
\* its nearest ancestor whose state was flushed
ReopenT == F => (~X.reopenErr /\ X.stateOK /\ (IF X.mode = "archive" THEN X.reopenHead = "b2" ELSE X.reopenHead \in {"g", "b1", "b2"}))
\* and feeding the blocks again converges
ConvergesT == F => (~X.reimportErr /\ X.reimportHead = "b2")
=============================================================================
