\* random histories of 8 operations over 6-block trees with two shared transactions (-simulate)
SPECIFICATION GSpec
CONSTANTS
  BSeq <- B6
  MaxDiff = 2
  TxSeq <- Tx2
  Mode = "full"
  AllowSetHead = TRUE
  FixAbove = TRUE
  FixLookup = TRUE
  FixOrphan = TRUE
  PrunedRewind = FALSE
  FixDisplaced = TRUE
  KeepDescendants = TRUE
  GenDepth = 8
INVARIANTS Emit
