\* random histories of 8 operations over 5-block trees with two shared transactions (-simulate); every 6-block tree would be 14 M initial states, too many for the simulator
SPECIFICATION GSpec
CONSTANTS
  BSeq <- B5
  MaxDiff = 2
  TxSeq <- Tx2
  Mode = "full"
  AllowSetHead = TRUE
  FixAbove = TRUE
  FixLookup = TRUE
  FixOrphan = TRUE
  PrunedRewind = FALSE
  FixDisplaced = TRUE
  KeepDescendants = TRUE
  GenDepth = 8
INVARIANTS Emit
