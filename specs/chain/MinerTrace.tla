------------------------------- MODULE MinerTrace -------------------------------
(***************************************************************************)
(* Trace specification for the block-building half of C01.  One line = one *)
(* block assembled by the real miner worker from the real transaction      *)
(* pool, then imported (InsertChain, full validation) by an independent    *)
(* chain that has seen the same history.                                   *)
(***************************************************************************)
EXTENDS TraceLib
VARIABLES l, X
tvars == <<l, X>>
Ev == Trace[l]
TInit == l = 1 /\ X = [e |-> "none"] /\ InitHW
TStep == l <= NLines /\ l' = l + 1 /\ Consumed(l) /\ X' = Ev
TSpec == TInit /\ [][TStep]_tvars

B == X.e = "selfbuilt"
\* "a block assembled by the node's own block-building path is accepted by its own import path with identical results"
SelfBuiltAcceptedT == B => /\ X.importErr = ""
                           /\ X.imported.root = X.built.root
                           /\ X.imported.receipts = X.built.receipts
                           /\ X.imported.gasUsed = X.built.gasUsed
                           /\ X.imported.logs = X.built.logs
\* the builder includes only what applies, in an order the importer can replay; nothing panics
NoPanicT == B => X.panic = ""
=============================================================================
