\* full imports, 4 blocks, difficulties 1..2, one shared transaction, SetHead allowed; code as it is
SPECIFICATION Spec
CONSTANTS
  BSeq <- B4
  MaxDiff = 2
  TxSeq <- Tx1
  Mode = "full"
  AllowSetHead = TRUE
  FixAbove = FALSE
  FixLookup = FALSE
  FixOrphan = TRUE
  PrunedRewind = FALSE
  FixDisplaced = TRUE
  KeepDescendants = TRUE
INVARIANTS TypeOK HeadHeaviestInv TdAdditiveInv CanonIsAncestryInv NothingAboveHeadInv RetrievableInv LookupInv
PROPERTIES HeadTdMonotoneProp
