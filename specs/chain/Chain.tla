------------------------------- MODULE Chain -------------------------------
(***************************************************************************)
(* L2, implementation-shaped model of core/blockchain.go +                 *)
(* core/headerchain.go at the granularity of one block import / one API    *)
(* call (the write-level refinement used for crash points is               *)
(* ChainCrash.tla).  The block tree is part of the initial-state           *)
(* nondeterminism, so one configuration covers every tree shape, every     *)
(* difficulty assignment and every placement of shared transactions; the   *)
(* next-state relation covers every arrival order.                         *)
(*                                                                         *)
(* Database keys -> variables:                                             *)
(*   h<num><hash>, b<num><hash>, r<num><hash>  hdrs, bodies, rcpts         *)
(*   h<num><hash>t                              tdS                        *)
(*   h<num>n                                    canon                      *)
(*   LastBlock / LastHeader / LastFast          head / hhead / fhead       *)
(*   l<txhash>                                  lookup (RAW entries)       *)
(* Archive node: a fully imported block always has its state.              *)
(***************************************************************************)
EXTENDS ChainProps, TLC

CONSTANTS BSeq,          \* sequence of non-genesis block ids, parents precede children
          MaxDiff,       \* difficulties range over 1..MaxDiff
          TxSeq,         \* sequence of transaction ids
          Mode,          \* "full" : InsertChain + SetHead ; "light" : InsertHeaderChain + SetHead
          AllowSetHead,  \* BOOLEAN
          FixAbove,      \* TRUE: reorg() deletes number->hash entries above the new head (code after fix D1)
          FixLookup,     \* TRUE: SetHead deletes the lookup entries of the bodies it deletes (code after fix D12)
          FixOrphan,     \* TRUE: WriteHeader refuses a branch with a missing ancestor (code after fix D13);
                         \* FALSE: it dereferences the missing header (panic)
          PrunedRewind,  \* TRUE: SetHead may find the state of its target pruned and fall back to any lower ancestor
                         \* (pruning node after a restart), leaving canonical entries and bodies above the block head
          KeepDescendants, \* TRUE: a block that already is canonical at its number and is executed again (after a rewind below it) keeps the
                         \* canonical entries above it - they are its descendants on the header chain (code after fix D17)
          FixDisplaced   \* TRUE: a new head drops the lookups of every canonical block it overwrites or clears, also above
                         \* the old block head (code after fix D16)

G == "g"
NB == Len(BSeq)
Blocks == {BSeq[k] : k \in 1..NB}
AllB == Blocks \cup {G}
Idx(b) == IF b = G THEN 0 ELSE CHOOSE k \in 1..NB : BSeq[k] = b
Txs == {TxSeq[k] : k \in 1..Len(TxSeq)}
Heights0 == 0..(NB + 1)

VARIABLES T, hdrs, bodies, rcpts, tdS, canon, head, hhead, fhead, lookup,
          given, rewound, panicked

vars == <<T, hdrs, bodies, rcpts, tdS, canon, head, hhead, fhead, lookup, given, rewound, panicked>>

----------------------------------------------------------------------------
\* tree construction
ParentFns == {p \in [Blocks -> AllB] : \A b \in Blocks : Idx(p[b]) < Idx(b)}

RECURSIVE NumOf(_, _)
NumOf(p, b) == IF b = G THEN 0 ELSE 1 + NumOf(p, p[b])

RECURSIVE AncSet(_, _)
AncSet(p, b) == IF b = G THEN {G} ELSE {b} \cup AncSet(p, p[b])

\* a transaction may sit in at most two blocks, never twice on one branch
HolderFns(p) == {h \in [Txs -> SUBSET Blocks] :
                   \A t \in Txs : /\ Cardinality(h[t]) <= 2
                                  /\ \A a, b \in h[t] : a # b => (a \notin AncSet(p, b) /\ b \notin AncSet(p, a))}

MkTree(p, d, h) ==
  [parent |-> [b \in AllB |-> IF b = G THEN NoBlock ELSE p[b]],
   num    |-> [b \in AllB |-> NumOf(p, b)],
   diff   |-> [b \in AllB |-> IF b = G THEN FromInt(1) ELSE FromInt(d[b])],
   txs    |-> [b \in AllB |-> IF b = G THEN <<>> ELSE SelectSeq(TxSeq, LAMBDA t : b \in h[t])]]

Init ==
  /\ \E p \in ParentFns : \E d \in [Blocks -> 1..MaxDiff] : \E h \in HolderFns(p) : T = MkTree(p, d, h)
  /\ hdrs = {G} /\ bodies = {G} /\ rcpts = {G}
  /\ tdS = (G :> FromInt(1))
  /\ canon = [n \in Heights0 |-> IF n = 0 THEN G ELSE NoBlock]
  /\ head = G /\ hhead = G /\ fhead = G
  /\ lookup = <<>>
  /\ given = {G} /\ rewound = FALSE /\ panicked = FALSE

----------------------------------------------------------------------------
Num(b) == T.num[b]
Par(b) == T.parent[b]
Anc(b, n) == AncestorAt(T, b, n)

\* path from b (inclusive) down to height n (exclusive), newest first
RECURSIVE PathDown(_, _)
PathDown(b, n) == IF Num(b) <= n THEN <<>> ELSE <<b>> \o PathDown(Par(b), n)

Rev(s) == [k \in 1..Len(s) |-> s[Len(s) + 1 - k]]
SeqSet(s) == {s[k] : k \in 1..Len(s)}

CommonHeight(a, b) ==
  CHOOSE n \in Heights0 : /\ Anc(a, n) = Anc(b, n) /\ Anc(a, n) # NoBlock
                          /\ \A m \in Heights0 : (m > n /\ Anc(a, m) # NoBlock /\ Anc(b, m) # NoBlock) => Anc(a, m) # Anc(b, m)

TxsOf(bs) == UNION {SeqSet(T.txs[b]) : b \in bs}
TxIdx(b, t) == CHOOSE i \in 1..Len(T.txs[b]) : T.txs[b][i] = t

\* WriteTxLookupEntries for the blocks of seq, oldest first
RECURSIVE WriteLookups(_, _)
WriteLookups(lk, seq) ==
  IF seq = <<>> THEN lk
  ELSE LET b == Head(seq)
           ents == [t \in SeqSet(T.txs[b]) |-> <<b, TxIdx(b, t)>>]
       IN WriteLookups(ents @@ lk, Tail(seq))

DropKeys(f, ks) == [k \in (DOMAIN f) \ ks |-> f[k]]

ClearAbove(cn, n) == [m \in Heights0 |-> IF m > n THEN NoBlock ELSE cn[m]]

\* BlockChain.insert / writeHead applied to the head triple, the number index and the lookups (st.lookup).  If b is not yet canonical
\* at its number ("updateHeads"), the canonical entries above it are removed (FixAbove) and the lookups that still point at the blocks
\* named at and above its number go (FixDisplaced); if it already is canonical (it is executed again after a rewind below it)
\* everything above stays (KeepDescendants).  bod = the bodies present.
InsertSt(st, b, bod) ==
  LET upd == st.canon[Num(b)] # b
      clr == upd \/ ~KeepDescendants
      displaced == {st.canon[m] : m \in {k \in Heights0 : k >= Num(b) /\ st.canon[k] # NoBlock}} \ {b}
      cn1 == [st.canon EXCEPT ![Num(b)] = b]
  IN [canon |-> IF FixAbove /\ clr THEN ClearAbove(cn1, Num(b)) ELSE cn1,
      head  |-> b,
      hhead |-> IF upd THEN b ELSE st.hhead,
      fhead |-> IF upd THEN b ELSE st.fhead,
      lookup |-> IF FixDisplaced /\ clr THEN DropKeys(st.lookup, {t \in DOMAIN st.lookup : st.lookup[t][1] \in (displaced \cap bod)}) ELSE st.lookup]

\* reorg(): every block of the new chain that is on disk is inserted and its lookups written, oldest first
RECURSIVE InsertAll(_, _, _)
InsertAll(st, seq, bod) ==
  IF seq = <<>> THEN st
  ELSE LET s1 == InsertSt(st, Head(seq), bod)
       IN InsertAll([s1 EXCEPT !.lookup = WriteLookups(s1.lookup, <<Head(seq)>>)], Tail(seq), bod)

\* BlockChain.reorg(old, new) for an incoming block new that is not on disk yet: its ancestors down to the fork point are inserted;
\* the lookups of old-chain transactions that are not on the new chain are deleted.  Returns the state record.
Reorg(st, old, new, bod) ==
  LET ch == CommonHeight(old, new)
      newChain == PathDown(new, ch)            \* newest first, includes new itself
      oldChain == PathDown(old, ch)
      onDisk == IF new \in bod THEN newChain ELSE Tail(newChain)      \* the incoming block itself is left to WriteBlockWithState
      st1 == InsertAll(st, Rev(onDisk), bod)
      goneOld == TxsOf(SeqSet(oldChain)) \ TxsOf(SeqSet(newChain))
  IN [st1 EXCEPT !.lookup = DropKeys(st1.lookup, goneOld)]

Coin == {TRUE, FALSE}

\* insertChain2 + WriteBlockWithState for ONE block (archive node)
ImportBlock(b) ==
  /\ Mode = "full"
  /\ Par(b) \in bodies /\ Par(b) \in DOMAIN tdS           \* else ErrUnknownAncestor: nothing changes
  /\ (Num(b) >= 2 => Par(Par(b)) \in hdrs)                \* header verification needs the grandparent ("nil grandparent")
  /\ ~(b \in bodies /\ Num(head) >= Num(b))                \* else ErrKnownBlock: ignored
  /\ LET externTd == Add(tdS[Par(b)], T.diff[b])
         localTd == tdS[head]
         c == Cmp(externTd, localTd)
         st0 == [canon |-> canon, head |-> head, hhead |-> hhead, fhead |-> fhead, lookup |-> lookup]
     IN \E coin \in Coin :
        LET doReorg == c > 0 \/ (c = 0 /\ (Num(b) < Num(head) \/ (Num(b) = Num(head) /\ coin)))
            needReorg == doReorg /\ Par(b) # head
            \* reorg() walks the new branch through the DATABASE: after a rewind an ancestor may be gone
            \* ("invalid new chain"); the import then fails after hc.WriteTd and before the batch is flushed
            pathOK == \A x \in SeqSet(PathDown(Par(b), CommonHeight(head, b))) : x \in bodies /\ x \in hdrs
            r == IF needReorg THEN Reorg(st0, head, b, bodies) ELSE st0
            \* WriteBlockWithState: lookups of the incoming block, then writeHead in the batch
            r2 == IF doReorg THEN [r EXCEPT !.lookup = WriteLookups(r.lookup, <<b>>)] ELSE r
            st3 == IF doReorg THEN InsertSt(r2, b, bodies \cup {b}) ELSE r2
            lk2 == IF doReorg THEN WriteLookups(st3.lookup, <<b>>) ELSE st3.lookup
        IN IF needReorg /\ ~pathOK
           THEN /\ tdS' = (b :> externTd) @@ tdS
                /\ UNCHANGED <<hdrs, bodies, rcpts, canon, head, hhead, fhead, lookup, given>>
           ELSE /\ tdS' = (b :> externTd) @@ tdS
                /\ hdrs' = hdrs \cup {b} /\ bodies' = bodies \cup {b} /\ rcpts' = rcpts \cup {b}
                /\ canon' = st3.canon /\ head' = st3.head /\ hhead' = st3.hhead /\ fhead' = st3.fhead
                /\ lookup' = lk2
                /\ given' = given \cup {b}
  /\ UNCHANGED <<T, rewound, panicked>>

\* HeaderChain.WriteHeader for ONE header (header-first import)
InsertHeader(b) ==
  /\ Mode = "light"
  /\ Par(b) \in DOMAIN tdS /\ Par(b) \in hdrs
  /\ (Num(b) >= 2 => Par(Par(b)) \in hdrs)                \* "nil grandparent" otherwise
  /\ b \notin hdrs
  /\ LET externTd == Add(tdS[Par(b)], T.diff[b])
         localTd == tdS[hhead]
         c == Cmp(externTd, localTd)
     IN \E coin \in Coin :
        LET take == c > 0 \/ (c = 0 /\ coin)
            \* delete number assignments above the new head up to the first gap
            gapAbove == IF \E m \in Heights0 : m > Num(b) /\ canon[m] = NoBlock
                        THEN CHOOSE m \in Heights0 : m > Num(b) /\ canon[m] = NoBlock
                                  /\ \A k \in Heights0 : (k > Num(b) /\ k < m) => canon[k] # NoBlock
                        ELSE NB + 2
            cn1 == [m \in Heights0 |-> IF m > Num(b) /\ m < gapAbove THEN NoBlock ELSE canon[m]]
            \* overwrite stale assignments below, walking down from the parent until they agree
            stopAt == 1 + (CHOOSE m \in 0..(Num(b) - 1) :
                               /\ cn1[m] = Anc(b, m)
                               /\ \A k \in (m + 1)..(Num(b) - 1) : cn1[k] # Anc(b, k))
            cn2 == [m \in Heights0 |-> IF m >= stopAt /\ m <= Num(b) THEN Anc(b, m) ELSE cn1[m]]
            \* every header of the branch between b and the canonical chain must still be stored
            forkAt == CHOOSE m \in 0..(Num(b) - 1) :
                               /\ canon[m] = Anc(b, m)
                               /\ \A k \in (m + 1)..(Num(b) - 1) : canon[k] # Anc(b, k)
            branchOK == \A k \in (forkAt + 1)..(Num(b) - 1) : Anc(b, k) \in hdrs
        IN /\ tdS' = (b :> externTd) @@ tdS
           /\ hdrs' = hdrs \cup {b}
           /\ IF take /\ branchOK THEN canon' = cn2 /\ hhead' = b /\ UNCHANGED panicked
              ELSE IF take /\ ~FixOrphan THEN panicked' = TRUE /\ UNCHANGED <<canon, hhead>>
              ELSE UNCHANGED <<canon, hhead, panicked>>
  /\ UNCHANGED <<T, bodies, rcpts, head, fhead, lookup, given, rewound>>

\* BlockChain.SetHead(n)
SetHead(n) ==
  /\ AllowSetHead /\ n < Num(hhead)
  /\ LET delChain == {Anc(hhead, k) : k \in (n + 1)..Num(hhead)}
         hh == Anc(hhead, n)
         bodies1 == bodies \ delChain
         getBlock(x) == IF x \in bodies1 /\ x \in (hdrs \ delChain) THEN x ELSE NoBlock
         head1 == IF Num(hh) < Num(head) THEN getBlock(hh) ELSE head
         head2a == IF head1 = NoBlock THEN G ELSE head1
         fhead1 == IF Num(hh) < Num(fhead) THEN getBlock(hh) ELSE fhead
         fhead2 == IF fhead1 = NoBlock THEN G ELSE fhead1
     IN \E head2 \in (IF PrunedRewind THEN {Anc(head2a, k) : k \in 0..Num(head2a)} ELSE {head2a}) :      \* state of the target pruned: any ancestor
        /\ hdrs' = hdrs \ delChain
        /\ bodies' = bodies1
        /\ tdS' = DropKeys(tdS, delChain)
        /\ canon' = [m \in Heights0 |-> IF m > n /\ m <= Num(hhead) THEN NoBlock ELSE canon[m]]
        /\ hhead' = hh /\ head' = head2 /\ fhead' = fhead2
        /\ lookup' = IF FixLookup THEN DropKeys(lookup, TxsOf(delChain \cap bodies)) ELSE lookup
  /\ rewound' = TRUE
  /\ UNCHANGED <<T, rcpts, given, panicked>>

Next == \/ \E b \in Blocks : ImportBlock(b) \/ InsertHeader(b)
        \/ \E n \in 0..NB : SetHead(n)

Spec == Init /\ [][Next]_vars

----------------------------------------------------------------------------
\* what the API shows (GetTransaction resolves only when the body is there)
Obs == [head |-> head, hhead |-> hhead,
        canonB |-> [n \in Heights0 |-> IF canon[n] # NoBlock /\ canon[n] \in bodies /\ canon[n] \in hdrs THEN canon[n] ELSE NoBlock],
        canonH |-> [n \in Heights0 |-> IF canon[n] # NoBlock /\ canon[n] \in hdrs THEN canon[n] ELSE NoBlock],
        td |-> tdS, hasHeader |-> hdrs, hasBody |-> bodies, hasRcpt |-> rcpts,
        lookup |-> [t \in {u \in DOMAIN lookup : lookup[u][1] \in bodies} |-> lookup[t]]]

\* C02 (import-only histories, DESIGN 3.2)
HeadHeaviestInv == (Mode = "full" /\ ~rewound) => HeadHeaviest(TDOf(T), Obs, given)
TdAdditiveInv == TdAdditive(TDOf(T), Obs)
HeadTdMonotoneProp == [][(\E b \in Blocks : ImportBlock(b)) => Leq(TrueTd(T, head), TrueTd(T, head'))]_vars
\* C03
CanonIsAncestryInv == CanonIsAncestry(T, Obs)
NothingAboveHeadInv == NothingAboveHead(T, Obs)
RetrievableInv == Retrievable(T, Obs)
\* lookups follow the canonical blocks that can hold transactions: the gap-free run of canonical numbers whose bodies are present
\* (its top is the block head except after a pruned rewind)
BodyCanonTopM == LET ns == {n \in Heights0 : \A m \in 0..n : Obs.canonB[m] # NoBlock}
                     top == CHOOSE n \in ns : \A k \in ns : k <= n
                 IN Obs.canonB[top]
LookupInv == Mode = "full" => LookupIffCanonical(T, [Obs EXCEPT !.head = BodyCanonTopM], Txs)
\* sanity of the model itself
NoPanic == ~panicked
TypeOK == /\ head \in bodies /\ hhead \in hdrs /\ head \in DOMAIN tdS /\ hhead \in DOMAIN tdS
=============================================================================
