SPECIFICATION TSpec
INVARIANTS GeneratorOKT HeadHeaviestT TdAdditiveT HeadTdMonotoneT RestartKeepsHeadT HeadsKnownT NoPanicT
POSTCONDITION TraceAccepted
CHECK_DEADLOCK FALSE
