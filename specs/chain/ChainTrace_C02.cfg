SPECIFICATION TSpec
INVARIANTS HeadHeaviestT TdAdditiveT HeadTdMonotoneT RestartKeepsHeadT HeadsKnownT
POSTCONDITION TraceAccepted
CHECK_DEADLOCK FALSE
