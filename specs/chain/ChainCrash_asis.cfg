\* vacuity guard: the pinned write order must violate HeadPointerBackedInv (D2)
SPECIFICATION Spec
CONSTANTS
  BSeq <- B4
  MaxDiff = 2
  Order = "asis"
  RootFirst = FALSE
  Archive = TRUE
INVARIANTS ReopenOKInv HeadOKInv StateAndIndexOKInv RootImpliesTrieInv HeadPointerBackedInv
