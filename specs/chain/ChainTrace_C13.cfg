SPECIFICATION TSpec
INVARIANTS GeneratorOKT HeaderCorruptRejectedT NoPanicT
POSTCONDITION TraceAccepted
CHECK_DEADLOCK FALSE
