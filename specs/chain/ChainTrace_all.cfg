SPECIFICATION TSpec
INVARIANTS GeneratorOKT HeaderCorruptRejectedT ImportFunctionalT ValidAcceptedT CorruptRejectedT RejectIsNoopT HeadsKnownT NoPanicT
  HeadHeaviestT TdAdditiveT HeadTdMonotoneT RestartKeepsHeadT
  CanonIsAncestryT NothingAboveHeadT RetrievableT LookupT
POSTCONDITION TraceAccepted
CHECK_DEADLOCK FALSE
