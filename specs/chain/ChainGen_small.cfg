\* all histories of 4 operations over every 3-block tree (exhaustive, BFS)
SPECIFICATION GSpec
CONSTANTS
  BSeq <- B3
  MaxDiff = 2
  TxSeq <- Tx1
  Mode = "full"
  AllowSetHead = TRUE
  FixAbove = TRUE
  FixLookup = TRUE
  FixOrphan = TRUE
  PrunedRewind = FALSE
  FixDisplaced = TRUE
  KeepDescendants = TRUE
  GenDepth = 4
INVARIANTS Emit
