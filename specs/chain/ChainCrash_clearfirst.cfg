\* vacuity guard: deleting the numbers above the new head before the head moves must violate StateAndIndexOKInv
SPECIFICATION Spec
CONSTANTS
  BSeq <- B4
  MaxDiff = 2
  Order = "clearfirst"
  RootFirst = FALSE
  Archive = TRUE
INVARIANTS ReopenOKInv HeadOKInv StateAndIndexOKInv RootImpliesTrieInv HeadPointerBackedInv
