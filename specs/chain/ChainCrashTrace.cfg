SPECIFICATION TSpec
INVARIANTS ReopenOKT HeadOKT StateAndIndexOKT ReimportConvergesT RootImpliesTrieT NoWedgeT
POSTCONDITION TraceAccepted
CHECK_DEADLOCK FALSE
