---------------------------- MODULE ChainProps ----------------------------
(***************************************************************************)
(* L1 predicates of C01, C02, C03 over an OBSERVATION of the node at rest  *)
(* and the block TREE it was fed from.  The same operators are invariants  *)
(* of the implementation-shaped model Chain.tla and are evaluated by       *)
(* ChainTrace.tla on what the real core.BlockChain reported.               *)
(*                                                                         *)
(* tree T : [parent : [Block -> Block \cup {NoBlock}], num : [Block -> Nat],*)
(*           diff : [Block -> BigNat], txs : [Block -> Seq(Tx)]]           *)
(* observation O :                                                         *)
(*   head, hhead           block head / header head                        *)
(*   canonB, canonH        [0..maxN -> Block \cup {NoBlock}]               *)
(*                         GetBlockByNumber / GetHeaderByNumber            *)
(*   td                    function: blocks with a stored TD -> BigNat     *)
(*   hasHeader, hasBody, hasRcpt   sets of blocks                          *)
(*   lookup                function: resolving tx -> <<block, index>>      *)
(***************************************************************************)
EXTENDS BigNat, FiniteSets

NoBlock == "-"

RECURSIVE AncestorAt(_, _, _)
AncestorAt(T, b, n) ==
  IF b = NoBlock THEN NoBlock
  ELSE IF T.num[b] = n THEN b
  ELSE IF T.num[b] < n THEN NoBlock
  ELSE AncestorAt(T, T.parent[b], n)

RECURSIVE TrueTd(_, _)
TrueTd(T, b) == IF T.parent[b] = NoBlock THEN T.diff[b]
                ELSE Add(TrueTd(T, T.parent[b]), T.diff[b])

IsAncestorOrSelf(T, a, b) == AncestorAt(T, b, T.num[a]) = a

----------------------------------------------------------------------------
\* C02
\* "the head is one with the greatest total difficulty among all fully validated blocks it has been given"
\* TD is the function b |-> TrueTd(T, b) (callers compute it once per tree)
TDOf(T) == [b \in DOMAIN T.parent |-> TrueTd(T, b)]
HeadHeaviest(TD, O, given) == \A b \in given : Leq(TD[b], TD[O.head])

\* "every stored block's total difficulty equals its parent's total difficulty plus its own difficulty"
\* (by induction from genesis this is: the stored value is the sum of difficulties along its ancestry)
TdAdditive(TD, O) == \A b \in DOMAIN O.td : O.td[b] = TD[b]

\* "the head's total difficulty never decreases as further blocks are imported"
HeadTdMonotone(TD, Oprev, O) == Leq(TD[Oprev.head], TD[O.head])

----------------------------------------------------------------------------
\* C03
Heights(O) == DOMAIN O.canonH

\* "every height up to the head maps to the head's ancestor at that height"
CanonIsAncestry(T, O) ==
  /\ \A n \in Heights(O) : n <= T.num[O.head] => O.canonB[n] = AncestorAt(T, O.head, n)
  /\ \A n \in Heights(O) : n <= T.num[O.hhead] => O.canonH[n] = AncestorAt(T, O.hhead, n)

\* "and no greater height maps to anything"
NothingAboveHead(T, O) ==
  \A n \in Heights(O) : n > T.num[O.hhead] => (O.canonH[n] = NoBlock /\ O.canonB[n] = NoBlock)

\* "header, body, receipts and total difficulty are retrievable for every canonical block up to the block head"
Retrievable(T, O) ==
  \A n \in 0..T.num[O.head] :
     LET b == AncestorAt(T, O.head, n) IN
       b \in O.hasHeader /\ b \in O.hasBody /\ b \in O.hasRcpt /\ b \in DOMAIN O.td

\* canonical position of tx t under block head h: set of <<block, index>>
CanonPos(T, h, t) ==
  {<<b, i>> \in UNION {{<<c, j>> : j \in 1..Len(T.txs[c])} : c \in DOMAIN T.txs} :
       IsAncestorOrSelf(T, b, h) /\ T.txs[b][i] = t}

\* "a transaction lookup resolves iff the transaction is contained in a canonical block,
\*  and then points at that block and position"
LookupIffCanonical(T, O, alltx) ==
  \A t \in alltx :
     LET pos == CanonPos(T, O.head, t) IN
       IF pos = {} THEN t \notin DOMAIN O.lookup
       ELSE t \in DOMAIN O.lookup /\ O.lookup[t] \in pos

----------------------------------------------------------------------------
\* C01
\* results: function from block to [r: SET of receipt signatures, s: SET of post-state signatures] observed
\* for it over all runs, arrival orders, restarts and cache configurations of the same tree, together
\* with the signature the block builder itself produced
ImportFunctional(results) ==
  \A b \in DOMAIN results : Cardinality(results[b].r) <= 1 /\ Cardinality(results[b].s) <= 1
=============================================================================
