------------------------------ MODULE ChainGen ------------------------------
(***************************************************************************)
(* Direction A (specification -> code): Chain.tla with a history variable. *)
(* Every behaviour that reaches GenDepth operations is printed as JSON     *)
(* (tree + operation list); the Go driver realises the tree with real      *)
(* blocks and replays the operations on core.BlockChain.  In BFS mode this *)
(* enumerates ALL histories of that length, with -simulate a random sample.*)
(***************************************************************************)
EXTENDS Chain, Json

CONSTANT GenDepth
VARIABLE hist
gvars == <<vars, hist>>

GInit == Init /\ hist = <<>>
GNext ==
  /\ Len(hist) < GenDepth
  /\ \/ \E b \in Blocks : ImportBlock(b) /\ hist' = Append(hist, [op |-> "insert", b |-> b, n |-> 0])
     \/ \E b \in Blocks : InsertHeader(b) /\ hist' = Append(hist, [op |-> "headers", b |-> b, n |-> 0])
     \/ \E n \in 0..NB : SetHead(n) /\ hist' = Append(hist, [op |-> "sethead", b |-> "-", n |-> n])
GSpec == GInit /\ [][GNext]_gvars

TreeJson == [blocks |-> [k \in 1..NB |-> [id |-> BSeq[k], parent |-> T.parent[BSeq[k]],
                                         w |-> ToInt(T.diff[BSeq[k]]), txs |-> T.txs[BSeq[k]]]],
             ops |-> hist, mode |-> Mode]

\* always TRUE; prints each complete history once
Emit == Len(hist) < GenDepth \/ PrintT(<<"GEN", ToJson(TreeJson)>>)
=============================================================================
