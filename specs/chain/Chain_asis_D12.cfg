\* vacuity guard: the model WITHOUT the D12 fix must violate LookupInv
SPECIFICATION Spec
CONSTANTS
  BSeq <- B4
  MaxDiff = 2
  TxSeq <- Tx1
  Mode = "full"
  AllowSetHead = TRUE
  FixAbove = TRUE
  FixLookup = FALSE
  FixOrphan = TRUE
INVARIANTS TypeOK HeadHeaviestInv TdAdditiveInv CanonIsAncestryInv NothingAboveHeadInv RetrievableInv LookupInv
PROPERTIES HeadTdMonotoneProp
