SPECIFICATION TSpec
INVARIANTS GeneratorOKT CanonIsAncestryT NothingAboveHeadT RetrievableT LookupT HeadsKnownT NoPanicT
POSTCONDITION TraceAccepted
CHECK_DEADLOCK FALSE
