SPECIFICATION TSpec
INVARIANTS GeneratorOKT HeaderCorruptRejectedT CanonIsAncestryT NothingAboveHeadT RetrievableT LookupT HeadsKnownT NoPanicT
POSTCONDITION TraceAccepted
CHECK_DEADLOCK FALSE
