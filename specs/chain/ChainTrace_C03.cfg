SPECIFICATION TSpec
INVARIANTS GeneratorOKT HeaderCorruptRejectedT CanonIsAncestryT NothingAboveHeadT RetrievableT LookupT HeadsKnownT NoPanicT KnownFindingsT
POSTCONDITION TraceAccepted
CHECK_DEADLOCK FALSE
