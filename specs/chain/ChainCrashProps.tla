-------------------------- MODULE ChainCrashProps --------------------------
(***************************************************************************)
(* L1 predicates of C04 over what a REOPENED database shows.               *)
(*  R : record of one crash point / one injected write failure             *)
(*    lastBlock    block named by the persisted head pointer in the image  *)
(*    rootOnDisk   blocks whose state ROOT node is present in the image    *)
(*    stateOnDisk  blocks whose COMPLETE state (accounts, storage, code)   *)
(*                 is readable from the image alone                        *)
(*    blockOnDisk  blocks whose header, body and receipts are in the image *)
(*    reopen       "ok" or the error / panic text of NewBlockChain         *)
(*    head         head shown by the reopened node                         *)
(*    stateOK      complete state of that head readable                    *)
(*    indexOK      number index agrees with the head's ancestry to genesis *)
(*    reHead,reErr head after feeding the original blocks again            *)
(***************************************************************************)
EXTENDS ChainProps

RECURSIVE NearestWith(_, _, _)
NearestWith(T, b, S) == IF b = NoBlock THEN NoBlock
                        ELSE IF b \in S THEN b ELSE NearestWith(T, T.parent[b], S)

\* "reopening the same database succeeds without error or panic"
ReopenOK(R) == R.reopen = "ok"

\* "... and exposes as head the last block the node had made its head before the crash - or, on a
\*  pruning node, that block's nearest ancestor whose state had been flushed"
HeadOK(T, R, mode) ==
  IF mode = "archive" THEN R.head = R.lastBlock
  ELSE R.head = NearestWith(T, R.lastBlock, R.stateOnDisk)

\* "with its complete state readable and the number index agreeing with its ancestry back to genesis"
StateAndIndexOK(R) == R.stateOK /\ R.indexOK

\* "feeding the original blocks again converges to the same head as a crash-free run"
\* (an exact tie of total difficulty may resolve either way)
ReimportConverges(TD, R, final) == R.reErr = "" /\ R.reIndexOK /\ R.reHead \in DOMAIN TD /\ TD[R.reHead] = TD[final]

\* "a state root that is present on disk always has its entire trie on disk"
RootImpliesTrie(R) == R.rootOnDisk \subseteq R.stateOnDisk

\* "a disk write that fails is never followed by a deadlock ..."
NoWedge(R) == R.wedged = ""
=============================================================================
