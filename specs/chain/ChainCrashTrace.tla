------------------------- MODULE ChainCrashTrace -------------------------
(***************************************************************************)
(* Trace specification for C04: lines recorded by harness/core/crash_test  *)
(*   tree{...}  scenario{name,mode,ops,writes,final}                       *)
(*   crash{k,next,lastBlock,rootOnDisk,stateOnDisk,blockOnDisk,reopen,     *)
(*         head,stateOK,indexOK,reHead,reErr,reIndexOK}   one per prefix   *)
(*   fail{j,wedged,...same fields}      one per injected batch failure     *)
(***************************************************************************)
EXTENDS TraceLib, ChainCrashProps

VARIABLES l, kind, T, TD, mode, final, R, seenK, writes

tvars == <<l, kind, T, TD, mode, final, R, seenK, writes>>
Ev == Trace[l]
Is(e) == l <= NLines /\ Ev.e = e /\ l' = l + 1 /\ Consumed(l)

TInit == /\ l = 1 /\ kind = "init" /\ T = <<>> /\ TD = <<>> /\ mode = "" /\ final = "" /\ R = <<>>
         /\ seenK = {} /\ writes = 0 /\ InitHW

BlkOf(bl, id) == bl[CHOOSE k \in 1..Len(bl) : bl[k].id = id]
TTree ==
  /\ Is("tree")
  /\ LET bl == Ev.blocks
         ids == {bl[k].id : k \in 1..Len(bl)}
         tree == [parent |-> [b \in ids |-> BlkOf(bl, b).parent], num |-> [b \in ids |-> BlkOf(bl, b).num],
                  diff |-> [b \in ids |-> BlkOf(bl, b).diff], txs |-> [b \in ids |-> BlkOf(bl, b).txs]]
     IN T' = tree /\ TD' = TDOf(tree)
  /\ kind' = "tree" /\ UNCHANGED <<mode, final, R, seenK, writes>>

TScenario ==
  /\ Is("scenario") /\ mode' = Ev.mode /\ final' = Ev.final /\ writes' = Ev.writes /\ seenK' = {}
  /\ kind' = "scenario" /\ UNCHANGED <<T, TD, R>>

Rec(j) == [lastBlock |-> j.lastBlock, rootOnDisk |-> SetOf(j.rootOnDisk), stateOnDisk |-> SetOf(j.stateOnDisk),
           blockOnDisk |-> SetOf(j.blockOnDisk), reopen |-> j.reopen, head |-> j.head, stateOK |-> j.stateOK,
           indexOK |-> j.indexOK, reHead |-> j.reHead, reErr |-> j.reErr,
           reIndexOK |-> IF Has(j, "reIndexOK") THEN j.reIndexOK ELSE FALSE,
           wedged |-> IF Has(j, "wedged") THEN j.wedged ELSE "", next |-> j.next, k |-> j.k]

TCrash == /\ Is("crash") /\ R' = Rec(Ev) /\ seenK' = seenK \cup {Ev.k} /\ kind' = "crash"
          /\ UNCHANGED <<T, TD, mode, final, writes>>
TFail == /\ Is("fail") /\ R' = Rec(Ev) /\ kind' = "fail" /\ UNCHANGED <<T, TD, mode, final, seenK, writes>>

TNext == TTree \/ TScenario \/ TCrash \/ TFail
TSpec == TInit /\ [][TNext]_tvars

Judged == kind \in {"crash", "fail"}
ReopenOKT == Judged => ReopenOK(R)
HeadOKT == (Judged /\ ReopenOK(R)) => HeadOK(T, R, mode)
StateAndIndexOKT == (Judged /\ ReopenOK(R)) => StateAndIndexOK(R)
ReimportConvergesT == (Judged /\ ReopenOK(R)) => ReimportConverges(TD, R, final)
RootImpliesTrieT == Judged => RootImpliesTrie(R)
NoWedgeT == kind = "fail" => NoWedge(R)
=============================================================================
