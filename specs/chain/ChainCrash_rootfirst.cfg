\* vacuity guard: committing a trie root before its children must violate RootImpliesTrieInv
SPECIFICATION Spec
CONSTANTS
  BSeq <- B4
  MaxDiff = 2
  Order = "fixed"
  RootFirst = TRUE
  Archive = TRUE
INVARIANTS ReopenOKInv HeadOKInv StateAndIndexOKInv RootImpliesTrieInv HeadPointerBackedInv
