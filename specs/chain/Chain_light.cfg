\* C03, header-first imports + SetHead, 5 headers
SPECIFICATION Spec
CONSTANTS
  BSeq <- B5
  MaxDiff = 2
  TxSeq <- NoTx
  Mode = "light"
  AllowSetHead = TRUE
  FixAbove = TRUE
  FixLookup = TRUE
  FixOrphan = TRUE
  PrunedRewind = FALSE
  FixDisplaced = TRUE
  KeepDescendants = TRUE
INVARIANTS NoPanic TypeOK TdAdditiveInv CanonIsAncestryInv NothingAboveHeadInv
