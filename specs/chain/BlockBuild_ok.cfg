SPECIFICATION Spec
CONSTANTS Accts = {a, b} MaxBal = 3 RevertOnError = TRUE
INVARIANT SelfBuiltAccepted
