SPECIFICATION Spec
CONSTANT W = 1
CONSTANT Dom <- DomQuick
INVARIANTS ArithOK SignedOK CmpOK BitOK ShiftOK ModArithOK ExpOK ByteSignOK NormalOK
