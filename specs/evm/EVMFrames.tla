------------------------------ MODULE EVMFrames ------------------------------
(***************************************************************************)
(* L2 abstract frame machine of core/vm/evm.go (Call / CallCode /          *)
(* DelegateCall / StaticCall / Create) independent of opcode semantics:    *)
(* a stack of frames [gas, static, snap]; an instruction costs gas and may *)
(* write the world unless the frame is static; entering a frame snapshots  *)
(* the world and hands over at most all-but-one-64th of the gas; leaving   *)
(* it with revert / failure restores the snapshot, failure also eats the   *)
(* frame's gas; depth is limited.  KeepReadOnly = FALSE seeds the defect   *)
(* "a nested static call clears the read-only flag of its caller".         *)
(***************************************************************************)
EXTENDS Integers, Sequences, TLC
CONSTANTS Budget, MaxDepth, KeepReadOnly
VARIABLES frames, world, readOnly, done, spent
vars == <<frames, world, readOnly, done, spent>>

Init == frames = <<[gas |-> Budget, static |-> FALSE, snap |-> 0, entry |-> Budget]>> /\ world = 0 /\ readOnly = FALSE /\ done = FALSE /\ spent = 0
Top == frames[Len(frames)]
SetTop(f) == [frames EXCEPT ![Len(frames)] = f]

Op(cost, writes) ==
  /\ ~done /\ Top.gas >= cost
  /\ (writes => ~readOnly)                                    \* errWriteProtection otherwise (the frame fails: Fail below)
  /\ frames' = SetTop([Top EXCEPT !.gas = @ - cost])
  /\ world' = IF writes THEN world + 1 ELSE world
  /\ UNCHANGED <<readOnly, done, spent>>

Enter(static, given) ==
  /\ ~done /\ Len(frames) <= MaxDepth /\ given <= Top.gas - Top.gas \div 64 /\ given >= 0
  /\ frames' = Append(SetTop([Top EXCEPT !.gas = @ - given]),
                      [gas |-> given, static |-> static \/ Top.static, snap |-> world, entry |-> given, ro |-> readOnly])
  /\ readOnly' = (readOnly \/ static)
  /\ UNCHANGED <<world, done, spent>>

Leave(outcome) ==       \* outcome in {"ok", "revert", "fail"}
  /\ ~done
  /\ IF Len(frames) = 1
       THEN /\ done' = TRUE /\ spent' = Budget - (IF outcome = "fail" THEN 0 ELSE Top.gas)
            /\ world' = IF outcome = "ok" THEN world ELSE 0
            /\ UNCHANGED <<frames, readOnly>>
       ELSE LET child == Top
                parent == frames[Len(frames) - 1]
                back == IF outcome = "fail" THEN 0 ELSE child.gas IN
            /\ frames' = [SubSeq(frames, 1, Len(frames) - 1) EXCEPT ![Len(frames) - 1] = [parent EXCEPT !.gas = @ + back]]
            /\ world' = IF outcome = "ok" THEN world ELSE child.snap
            \* StaticCall restores the flag it found (the seeded defect resets it to FALSE instead)
            /\ readOnly' = IF KeepReadOnly THEN child.ro ELSE (IF child.static /\ ~parent.static THEN FALSE ELSE IF child.static THEN FALSE ELSE child.ro)
            /\ UNCHANGED <<done, spent>>

Next == \/ \E c \in 1..2, wr \in BOOLEAN : Op(c, wr)
        \/ \E st \in BOOLEAN, g \in 0..Budget : Enter(st, g)
        \/ \E o \in {"ok", "revert", "fail"} : Leave(o)
        \/ (done /\ UNCHANGED vars)
Spec == Init /\ [][Next]_vars

RECURSIVE SumGas(_)
SumGas(fs) == IF fs = <<>> THEN 0 ELSE Head(fs).gas + SumGas(Tail(fs))
\* gas is never created: what the open frames hold never exceeds the budget
GasBoundedInv == SumGas(frames) <= Budget /\ (done => spent <= Budget /\ spent >= 0)
DepthInv == Len(frames) <= MaxDepth + 1
\* inside a static frame the world equals the snapshot taken when the outermost static frame was entered
StaticInv == \A i \in 1..Len(frames) : (frames[i].static /\ (i = 1 \/ ~frames[i - 1].static)) => world = frames[i].snap
ReadOnlyInv == (\E i \in 1..Len(frames) : frames[i].static) => readOnly
=============================================================================
