--------------------------------- MODULE EVM ---------------------------------
(***************************************************************************)
(* Reference step function of the computational part of the EVM (C08):     *)
(* arithmetic, comparison, bitwise, shifts, SHA3 (digest from an oracle),  *)
(* stack, memory, control flow, call-data and code access - result, gas    *)
(* charge, memory growth and exceptional halts, per fork epoch.            *)
(*                                                                         *)
(* machine m: [pc, stack (top = last), mem (bytes), gas, status, ret,      *)
(*             oracle (digests still to be consumed by SHA3)]              *)
(* environment E: [code, data, epoch in {"homestead","byzantium","spring"},*)
(*                 expByte (10 | 50)]                                      *)
(* Gas budgets are <= 1,000,000, so any memory beyond 1 MiB is out of gas  *)
(* (3w + w^2/512 > 2,000,000 for w = 32768 words).                         *)
(***************************************************************************)
EXTENDS Word256

MaxMem == 1048576
StackLimit == 1024

\* ---- helpers ----
BytesToWord(b) == Norm([i \in 1..Len(b) |-> b[Len(b) + 1 - i]])        \* big-endian bytes -> word
WordToBytes(w) == [i \in 1..32 |-> Limb(w, 33 - i)]                     \* word -> 32 big-endian bytes
Small(w) == Len(w) <= 3 /\ (Len(w) < 3 \/ w[3] < 32)                    \* < 2^21: fits the memory model
IntOf(w) == ToInt(w)                                                       \* only for Small words
ReadPadded(src, off, n) == [i \in 1..n |-> IF off + i <= Len(src) THEN src[off + i] ELSE 0]
Words(n) == (n + 31) \div 32
MemGas(w) == 3 * w + (w * w) \div 512

\* positions that are PUSH data are not jump destinations
RECURSIVE CodeMarks(_, _, _)
CodeMarks(code, i, acc) ==        \* set of 0-based positions holding an opcode
  IF i >= Len(code) THEN acc
  ELSE LET op == code[i + 1] IN
       CodeMarks(code, IF op >= 96 /\ op <= 127 THEN i + 1 + (op - 95) ELSE i + 1, acc \cup {i})
ValidJump(E, dest) == Small(dest) /\ IntOf(dest) < Len(E.code) /\ E.code[IntOf(dest) + 1] = 91 /\ IntOf(dest) \in E.marks

\* ---- opcode table: [valid, pops, pushes, gas] for the modelled opcodes ----
Modelled == {0, 1, 2, 3, 4, 5, 6, 7, 8, 9, 10, 11, 16, 17, 18, 19, 20, 21, 22, 23, 24, 25, 26, 27, 28, 29, 32,
             53, 54, 55, 56, 57, 80, 81, 82, 83, 86, 87, 88, 89, 90, 91, 243, 253} \cup (96..159)
IsValid(E, op) ==
  /\ op \in Modelled
  /\ (op \in {27, 28, 29} => E.epoch = "spring")                 \* SHL SHR SAR: Constantinople/spring tables only
  /\ (op = 253 => E.epoch \in {"byzantium", "spring"})           \* REVERT from Byzantium
Pops(op) ==
  IF op \in {0, 88, 89, 90, 91, 54, 56} \/ (op >= 96 /\ op <= 127) THEN 0
  ELSE IF op \in {21, 25, 53, 80, 81, 86} THEN 1
  ELSE IF op \in {8, 9, 55, 57} THEN 3
  ELSE IF op >= 128 /\ op <= 143 THEN op - 127          \* DUPn needs n
  ELSE IF op >= 144 /\ op <= 159 THEN op - 142          \* SWAPn needs n+1
  ELSE 2
Pushes(op) ==
  IF op \in {0, 80, 82, 83, 86, 87, 91, 55, 57, 243, 253} THEN 0
  ELSE IF op >= 128 /\ op <= 143 THEN op - 126
  ELSE IF op >= 144 /\ op <= 159 THEN op - 142
  ELSE 1
BaseGas(op) ==
  IF op = 0 \/ op = 243 \/ op = 253 THEN 0
  ELSE IF op \in {2, 4, 5, 6, 7, 11} THEN 5
  ELSE IF op \in {8, 9, 86} THEN 8
  ELSE IF op = 10 \/ op = 87 THEN 10
  ELSE IF op = 32 THEN 30
  ELSE IF op \in {80, 88, 89, 90, 54, 56} THEN 2
  ELSE IF op = 91 THEN 1
  ELSE 3

Top(m, k) == m.stack[Len(m.stack) + 1 - k]               \* k = 1 is the top
Drop(st, n) == SubSeq(st, 1, Len(st) - n)
Halt(m, status) == [m EXCEPT !.status = status, !.gas = IF status \in {"stop", "return", "revert"} THEN m.gas ELSE 0]

\* memory the instruction touches: <<offset word, length word>> or none
MemReq(m, op) ==
  IF op \in {81, 82} THEN <<Top(m, 1), <<32>>>>
  ELSE IF op = 83 THEN <<Top(m, 1), <<1>>>>
  ELSE IF op \in {32, 243, 253} THEN <<Top(m, 1), Top(m, 2)>>
  ELSE IF op \in {55, 57} THEN <<Top(m, 1), Top(m, 3)>>
  ELSE <<Zero, Zero>>
\* new memory size in bytes (multiple of 32) or -1 for "cannot be paid"
NewMemSize(m, op) ==
  LET r == MemReq(m, op) IN
  IF r[2] = Zero THEN Len(m.mem)
  ELSE IF ~Small(r[1]) \/ ~Small(r[2]) THEN -1
  ELSE LET need == 32 * Words(IntOf(r[1]) + IntOf(r[2])) IN
       IF need > MaxMem THEN -1 ELSE IF need > Len(m.mem) THEN need ELSE Len(m.mem)

DynGas(E, m, op, newSize) ==
  LET memCost == MemGas(newSize \div 32) - MemGas(Len(m.mem) \div 32) IN
  IF op = 10 THEN E.expByte * ByteLen(Top(m, 2))
  ELSE IF op = 32 THEN 6 * Words(IntOf(Top(m, 2))) + memCost
  ELSE IF op \in {55, 57} THEN 3 * Words(IntOf(Top(m, 3))) + memCost
  ELSE memCost

Grow(mem, n) == IF n > Len(mem) THEN mem \o [i \in 1..(n - Len(mem)) |-> 0] ELSE mem
Store(mem, off, bytes) == [i \in 1..Len(mem) |-> IF i > off /\ i <= off + Len(bytes) THEN bytes[i - off] ELSE mem[i]]

\* E.sarQuirk reproduces known finding D10 of the pinned code (opSAR: shift >= 256 of the value 0 yields 2^256-1);
\* it is FALSE in the reference and only used to classify a deviation as exactly that finding
Binary(E, op, a, b) ==      \* a = top, b = second
  IF op = 1 THEN ADD(a, b) ELSE IF op = 2 THEN MUL(a, b) ELSE IF op = 3 THEN SUB(a, b) ELSE IF op = 4 THEN DIV(a, b)
  ELSE IF op = 5 THEN SDIV(a, b) ELSE IF op = 6 THEN MOD(a, b) ELSE IF op = 7 THEN SMOD(a, b) ELSE IF op = 10 THEN EXP(a, b)
  ELSE IF op = 11 THEN SIGNEXTEND(a, b) ELSE IF op = 16 THEN LT(a, b) ELSE IF op = 17 THEN GT(a, b) ELSE IF op = 18 THEN SLT(a, b)
  ELSE IF op = 19 THEN SGT(a, b) ELSE IF op = 20 THEN EQW(a, b) ELSE IF op = 22 THEN AND(a, b) ELSE IF op = 23 THEN OR(a, b)
  ELSE IF op = 24 THEN XOR(a, b) ELSE IF op = 26 THEN BYTE(a, b) ELSE IF op = 27 THEN SHL(a, b) ELSE IF op = 28 THEN SHR(a, b)
  ELSE IF E.sarQuirk /\ b = Zero /\ ShiftsOut(a) THEN MaxWord ELSE SAR(a, b)

\* effect of a valid, paid-for instruction
Exec(E, m, op, newSize) ==
  LET st == m.stack
      m1 == [m EXCEPT !.mem = Grow(m.mem, newSize)]
      next(stk) == [m1 EXCEPT !.stack = stk, !.pc = m.pc + 1]
  IN
  IF op = 0 THEN Halt(m1, "stop")
  ELSE IF op \in {1, 2, 3, 4, 5, 6, 7, 10, 11, 16, 17, 18, 19, 20, 22, 23, 24, 26, 27, 28, 29}
    THEN next(Append(Drop(st, 2), Binary(E, op, Top(m, 1), Top(m, 2))))
  ELSE IF op = 8 THEN next(Append(Drop(st, 3), ADDMOD(Top(m, 1), Top(m, 2), Top(m, 3))))
  ELSE IF op = 9 THEN next(Append(Drop(st, 3), MULMOD(Top(m, 1), Top(m, 2), Top(m, 3))))
  ELSE IF op = 21 THEN next(Append(Drop(st, 1), ISZERO(Top(m, 1))))
  ELSE IF op = 25 THEN next(Append(Drop(st, 1), NOT(Top(m, 1))))
  ELSE IF op = 32 THEN [next(Append(Drop(st, 2), Head(m.oracle))) EXCEPT !.oracle = Tail(m.oracle)]      \* digest from the oracle
  ELSE IF op = 53 THEN next(Append(Drop(st, 1), IF Small(Top(m, 1)) THEN BytesToWord(ReadPadded(E.data, IntOf(Top(m, 1)), 32)) ELSE Zero))
  ELSE IF op = 54 THEN next(Append(st, FromInt(Len(E.data))))
  ELSE IF op = 56 THEN next(Append(st, FromInt(Len(E.code))))
  ELSE IF op \in {55, 57} THEN
       LET src == IF op = 55 THEN E.data ELSE E.code
           len == IntOf(Top(m, 3))
           so == Top(m, 2)
           bytes == IF Small(so) THEN ReadPadded(src, IntOf(so), len) ELSE [i \in 1..len |-> 0]
       IN [m1 EXCEPT !.stack = Drop(st, 3), !.pc = m.pc + 1,
                     !.mem = IF len = 0 THEN m1.mem ELSE Store(m1.mem, IntOf(Top(m, 1)), bytes)]
  ELSE IF op = 80 THEN next(Drop(st, 1))
  ELSE IF op = 81 THEN next(Append(Drop(st, 1), BytesToWord(SubSeq(m1.mem, IntOf(Top(m, 1)) + 1, IntOf(Top(m, 1)) + 32))))
  ELSE IF op = 82 THEN [m1 EXCEPT !.stack = Drop(st, 2), !.pc = m.pc + 1, !.mem = Store(m1.mem, IntOf(Top(m, 1)), WordToBytes(Top(m, 2)))]
  ELSE IF op = 83 THEN [m1 EXCEPT !.stack = Drop(st, 2), !.pc = m.pc + 1, !.mem = Store(m1.mem, IntOf(Top(m, 1)), <<Limb(Top(m, 2), 1)>>)]
  ELSE IF op = 86 THEN IF ValidJump(E, Top(m, 1)) THEN [m1 EXCEPT !.stack = Drop(st, 1), !.pc = IntOf(Top(m, 1))] ELSE Halt(m1, "badjump")
  ELSE IF op = 87 THEN IF Top(m, 2) = Zero THEN next(Drop(st, 2))                     \* not taken: the destination is not examined
                       ELSE IF ValidJump(E, Top(m, 1)) THEN [m1 EXCEPT !.stack = Drop(st, 2), !.pc = IntOf(Top(m, 1))] ELSE Halt(m1, "badjump")
  ELSE IF op = 88 THEN next(Append(st, FromInt(m.pc)))
  ELSE IF op = 89 THEN next(Append(st, FromInt(Len(m1.mem))))
  ELSE IF op = 90 THEN next(Append(st, FromInt(m1.gas)))
  ELSE IF op = 91 THEN next(st)
  ELSE IF op >= 96 /\ op <= 127 THEN
       LET n == op - 95 IN [m1 EXCEPT !.stack = Append(st, BytesToWord(ReadPadded(E.code, m.pc + 1, n))), !.pc = m.pc + 1 + n]
  ELSE IF op >= 128 /\ op <= 143 THEN next(Append(st, Top(m, op - 127)))
  ELSE IF op >= 144 /\ op <= 159 THEN
       LET n == op - 143
           L == Len(st) IN next([st EXCEPT ![L] = st[L - n], ![L - n] = st[L]])
  ELSE \* RETURN / REVERT
       LET len == IF Small(Top(m, 2)) THEN IntOf(Top(m, 2)) ELSE 0
           out == IF len = 0 THEN <<>> ELSE SubSeq(m1.mem, IntOf(Top(m, 1)) + 1, IntOf(Top(m, 1)) + len)
       IN [Halt(m1, IF op = 243 THEN "return" ELSE "revert") EXCEPT !.ret = out]

\* one interpreter step: [m', step record]
Step(E, m) ==
  LET op == IF m.pc < Len(E.code) THEN E.code[m.pc + 1] ELSE 0 IN          \* GetOp beyond the code = STOP
  IF ~IsValid(E, op) THEN [m |-> Halt(m, "invalid"), rec |-> [pc |-> m.pc, op |-> op, gas |-> m.gas, cost |-> -1]]
  ELSE IF Len(m.stack) < Pops(op) THEN [m |-> Halt(m, "stackunder"), rec |-> [pc |-> m.pc, op |-> op, gas |-> m.gas, cost |-> -1]]
  ELSE IF Len(m.stack) - Pops(op) + Pushes(op) > StackLimit THEN [m |-> Halt(m, "stackover"), rec |-> [pc |-> m.pc, op |-> op, gas |-> m.gas, cost |-> -1]]
  ELSE LET newSize == NewMemSize(m, op) IN
       IF newSize < 0 THEN [m |-> Halt(m, "oog"), rec |-> [pc |-> m.pc, op |-> op, gas |-> m.gas, cost |-> -1]]
       ELSE LET cost == BaseGas(op) + DynGas(E, m, op, newSize) IN
            IF cost > m.gas THEN [m |-> Halt(m, "oog"), rec |-> [pc |-> m.pc, op |-> op, gas |-> m.gas, cost |-> -1]]
            ELSE [m |-> Exec(E, [m EXCEPT !.gas = m.gas - cost], op, newSize), rec |-> [pc |-> m.pc, op |-> op, gas |-> m.gas, cost |-> cost]]

RECURSIVE Run(_, _, _, _)
Run(E, m, steps, fuel) ==
  IF m.status # "run" \/ fuel = 0 THEN [m |-> m, steps |-> steps]
  ELSE LET s == Step(E, m) IN Run(E, s.m, Append(steps, s.rec), fuel - 1)

Machine(gas, oracle) == [pc |-> 0, stack |-> <<>>, mem |-> <<>>, gas |-> gas, status |-> "run", ret |-> <<>>, oracle |-> oracle]
Env(code, data, epoch, expByte) == [code |-> code, data |-> data, epoch |-> epoch, expByte |-> expByte, marks |-> CodeMarks(code, 0, {}), sarQuirk |-> FALSE]
=============================================================================
