------------------------------ MODULE Word8Check ------------------------------
(* Exhaustive check of the Word256 operator definitions at width 8 bits against native integer arithmetic. *)
EXTENDS Word256, TLC
CONSTANT Dom
VARIABLES x, y
Init == x \in Dom /\ y \in Dom
Next == UNCHANGED <<x, y>>
Spec == Init /\ [][Next]_<<x, y>>
DomFull == 0..255
DomQuick == {0, 1, 2, 3, 7, 8, 9, 15, 16, 63, 64, 100, 126, 127, 128, 129, 130, 200, 253, 254, 255}
A == FromInt(x)
B == FromInt(y)
V(w) == ToInt(w)
S(n) == IF n >= 128 THEN n - 256 ELSE n            \* signed view
U(n) == (n + 512) % 256                           \* back to unsigned
SgnDiv(p, q) == IF (p < 0) = (q < 0) THEN (IF p < 0 THEN (0 - p) \div (0 - q) ELSE p \div q) ELSE 0 - ((IF p < 0 THEN 0 - p ELSE p) \div (IF q < 0 THEN 0 - q ELSE q))
SgnMod(p, q) == LET r == (IF p < 0 THEN 0 - p ELSE p) % (IF q < 0 THEN 0 - q ELSE q) IN IF p < 0 THEN 0 - r ELSE r
ArithOK == /\ V(ADD(A, B)) = (x + y) % 256 /\ V(SUB(A, B)) = (x - y + 256) % 256 /\ V(MUL(A, B)) = (x * y) % 256
           /\ V(DIV(A, B)) = (IF y = 0 THEN 0 ELSE x \div y) /\ V(MOD(A, B)) = (IF y = 0 THEN 0 ELSE x % y)
SignedOK == /\ V(SDIV(A, B)) = (IF y = 0 THEN 0 ELSE U(SgnDiv(S(x), S(y))))
            /\ V(SMOD(A, B)) = (IF y = 0 THEN 0 ELSE U(SgnMod(S(x), S(y))))
            /\ V(SLT(A, B)) = (IF S(x) < S(y) THEN 1 ELSE 0) /\ V(SGT(A, B)) = (IF S(x) > S(y) THEN 1 ELSE 0)
CmpOK == V(LT(A, B)) = (IF x < y THEN 1 ELSE 0) /\ V(GT(A, B)) = (IF x > y THEN 1 ELSE 0) /\ V(EQW(A, B)) = (IF x = y THEN 1 ELSE 0)
         /\ V(ISZERO(A)) = (IF x = 0 THEN 1 ELSE 0)
BitsN(n) == [j \in 0..7 |-> (n \div 2 ^ j) % 2]
FromBits(f) == f[0] + 2 * f[1] + 4 * f[2] + 8 * f[3] + 16 * f[4] + 32 * f[5] + 64 * f[6] + 128 * f[7]
BitOK == /\ V(AND(A, B)) = FromBits([j \in 0..7 |-> BitsN(x)[j] * BitsN(y)[j]])
         /\ V(OR(A, B)) = FromBits([j \in 0..7 |-> IF BitsN(x)[j] + BitsN(y)[j] > 0 THEN 1 ELSE 0])
         /\ V(XOR(A, B)) = FromBits([j \in 0..7 |-> (BitsN(x)[j] + BitsN(y)[j]) % 2])
         /\ V(NOT(A)) = 255 - x
ShiftOK == /\ V(SHL(A, B)) = (IF x >= 8 THEN 0 ELSE (y * 2 ^ x) % 256)
           /\ V(SHR(A, B)) = (IF x >= 8 THEN 0 ELSE y \div 2 ^ x)
           /\ V(SAR(A, B)) = (IF x >= 8 THEN (IF y >= 128 THEN 255 ELSE 0)
                              ELSE IF y < 128 THEN y \div 2 ^ x ELSE U(0 - (((0 - S(y)) + 2 ^ x - 1) \div 2 ^ x)))
ModArithOK == \A n \in {0, 1, 2, 3, 7, 128, 255} :
                 /\ V(ADDMOD(A, B, FromInt(n))) = (IF n = 0 THEN 0 ELSE (x + y) % n)
                 /\ V(MULMOD(A, B, FromInt(n))) = (IF n = 0 THEN 0 ELSE (x * y) % n)
RECURSIVE PowMod(_, _)
PowMod(b, e) == IF e = 0 THEN 1 ELSE (b * PowMod(b, e - 1)) % 256
ExpOK == y <= 20 => V(EXP(A, B)) = PowMod(x, y)
ByteSignOK == /\ V(BYTE(A, B)) = (IF x = 0 THEN y ELSE 0)
              /\ V(SIGNEXTEND(A, B)) = y              \* width 1 byte: k >= W-1 = 0 always leaves x unchanged
NormalOK == IsNat(ADD(A, B)) /\ IsNat(SUB(A, B)) /\ IsNat(MUL(A, B)) /\ IsNat(SAR(A, B)) /\ IsNat(NOT(A)) /\ IsNat(SDIV(A, B))
=============================================================================
