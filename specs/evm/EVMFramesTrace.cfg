SPECIFICATION TSpec
INVARIANTS OutcomeT GasBoundedT MemPaidForT DepthT DepthRunT FailedFrameRestoresT StaticT TopFailureT
POSTCONDITION TraceAccepted
CHECK_DEADLOCK FALSE
