------------------------------- MODULE Word256 -------------------------------
(***************************************************************************)
(* EVM words: naturals below 2^256 as normalised little-endian byte        *)
(* sequences (Nat256).  Every operator is the Yellow Paper definition of   *)
(* the corresponding instruction; Word8Check.tla model-checks the same     *)
(* definitions exhaustively against native integer arithmetic at width 8   *)
(* (W = 1 byte), the 256-bit instance differs only in the constant W.      *)
(***************************************************************************)
EXTENDS Nat256

CONSTANT W                       \* word width in bytes: 32 for the EVM, 1 in Word8Check
Bits == 8 * W

Trunc(a) == Norm(SubSeq(a, 1, IF Len(a) < W THEN Len(a) ELSE W))     \* mod 2^(8W)
Byte(a, k) == Limb(a, k)                                             \* k = 1 is the least significant byte
Full(a) == [k \in 1..W |-> Limb(a, k)]                               \* fixed width view

RECURSIVE Pow2(_)
Pow2(n) == IF n = 0 THEN <<1>> ELSE IF n >= 8 THEN <<0>> \o Pow2(n - 8) ELSE <<2 ^ n>>
Modulus == Pow2(Bits)
MaxWord == Sub(Modulus, <<1>>)
Zero == <<>>
One == <<1>>
B2W(b) == IF b THEN One ELSE Zero

\* ---- long division (byte-serial, binary search for each quotient digit) ----
RECURSIVE QDigit(_, _, _, _)
QDigit(rem, b, lo, hi) ==            \* largest q in lo..hi with q*b <= rem
  IF lo = hi THEN lo
  ELSE LET mid == (lo + hi + 1) \div 2 IN
       IF Leq(MulSmall(b, mid), rem) THEN QDigit(rem, b, mid, hi) ELSE QDigit(rem, b, lo, mid - 1)
RECURSIVE LongDiv(_, _, _, _)
LongDiv(a, b, i, rem) ==             \* returns <<quotient digits i..1 little-endian, remainder>>
  IF i = 0 THEN <<<<>>, rem>>
  ELSE LET r1 == Norm(<<a[i]>> \o rem)            \* rem * 256 + a[i]
           q == QDigit(r1, b, 0, 255)
           r2 == Sub(r1, MulSmall(b, q))
           rest == LongDiv(a, b, i - 1, r2)
       IN <<rest[1] \o <<q>>, rest[2]>>
DivNat(a, b) == Norm(LongDiv(a, b, Len(a), <<>>)[1])      \* b # 0
ModNat(a, b) == LongDiv(a, b, Len(a), <<>>)[2]

\* ---- arithmetic ----
ADD(a, b) == Trunc(Add(a, b))
SUB(a, b) == IF Leq(b, a) THEN Sub(a, b) ELSE Sub(Add(a, Modulus), b)
MUL(a, b) == Trunc(Mul(a, b))
DIV(a, b) == IF b = Zero THEN Zero ELSE DivNat(a, b)
MOD(a, b) == IF b = Zero THEN Zero ELSE ModNat(a, b)
ADDMOD(a, b, n) == IF n = Zero THEN Zero ELSE ModNat(Add(a, b), n)          \* no intermediate truncation
MULMOD(a, b, n) == IF n = Zero THEN Zero ELSE ModNat(Mul(a, b), n)

\* two's complement views
IsNeg(a) == Byte(a, W) >= 128
Neg(a) == IF a = Zero THEN Zero ELSE Sub(Modulus, a)
Abs(a) == IF IsNeg(a) THEN Neg(a) ELSE a
SDIV(a, b) == IF b = Zero THEN Zero
              ELSE LET q == DivNat(Abs(a), Abs(b)) IN IF IsNeg(a) # IsNeg(b) THEN Trunc(Neg(q)) ELSE Trunc(q)
SMOD(a, b) == IF b = Zero THEN Zero
              ELSE LET r == ModNat(Abs(a), Abs(b)) IN IF IsNeg(a) THEN Neg(r) ELSE r

RECURSIVE ExpBits(_, _, _, _)
\* square and multiply over the bits of e, least significant first
ExpBits(base, e, k, acc) ==
  IF k > 8 * Len(e) THEN acc
  ELSE LET bit == (e[(k - 1) \div 8 + 1] \div (2 ^ ((k - 1) % 8))) % 2
           acc1 == IF bit = 1 THEN MUL(acc, base) ELSE acc
       IN ExpBits(MUL(base, base), e, k + 1, acc1)
EXP(a, e) == ExpBits(a, e, 1, One)
ByteLen(a) == Len(a)                                  \* bytes of the exponent: the EXP gas charge

\* SIGNEXTEND(k, x): sign bit is bit 8k+7
SIGNEXTEND(k, x) ==
  IF Len(k) > 1 \/ (k # Zero /\ k[1] >= W - 1) THEN x
  ELSE LET kb == IF k = Zero THEN 0 ELSE k[1]
           neg == Byte(x, kb + 1) >= 128
       IN Norm([i \in 1..W |-> IF i <= kb + 1 THEN Byte(x, i) ELSE IF neg THEN 255 ELSE 0])

\* ---- comparison ----
LT(a, b) == B2W(Lt(a, b))
GT(a, b) == B2W(Lt(b, a))
SLess(a, b) == IF IsNeg(a) # IsNeg(b) THEN IsNeg(a) ELSE Lt(a, b)
SLT(a, b) == B2W(SLess(a, b))
SGT(a, b) == B2W(SLess(b, a))
EQW(a, b) == B2W(a = b)
ISZERO(a) == B2W(a = Zero)

\* ---- bitwise, byte by byte through the bits ----
BitOf(x, j) == (x \div (2 ^ j)) % 2
AndB(x, y) == LET s == [j \in 0..7 |-> BitOf(x, j) * BitOf(y, j) * 2 ^ j] IN s[0] + s[1] + s[2] + s[3] + s[4] + s[5] + s[6] + s[7]
OrB(x, y) == x + y - AndB(x, y)
XorB(x, y) == x + y - 2 * AndB(x, y)
AND(a, b) == Norm([i \in 1..W |-> AndB(Byte(a, i), Byte(b, i))])
OR(a, b) == Norm([i \in 1..W |-> OrB(Byte(a, i), Byte(b, i))])
XOR(a, b) == Norm([i \in 1..W |-> XorB(Byte(a, i), Byte(b, i))])
NOT(a) == Norm([i \in 1..W |-> 255 - Byte(a, i)])
\* BYTE(i, x): i = 0 is the MOST significant byte
BYTE(i, x) == IF Len(i) > 1 \/ (i # Zero /\ i[1] >= W) THEN Zero
              ELSE LET k == IF i = Zero THEN 0 ELSE i[1] IN Norm(<<Byte(x, W - k)>>)

\* ---- shifts (EIP-145) ----
SmallShift(s) == Len(s) <= 1 \/ (Len(s) = 2 /\ s[2] = 0)          \* fits below 256 * 1 ... (see Amount)
Amount(s) == IF s = Zero THEN 0 ELSE IF Len(s) = 1 THEN s[1] ELSE Bits   \* >= Bits means "shift everything out"
ShiftsOut(s) == Len(s) > 1 \/ Amount(s) >= Bits
SHL(s, x) == IF ShiftsOut(s) THEN Zero ELSE Trunc(Mul(x, Pow2(Amount(s))))
SHR(s, x) == IF ShiftsOut(s) THEN Zero ELSE DivNat(x, Pow2(Amount(s)))
SAR(s, x) == IF ShiftsOut(s) THEN (IF IsNeg(x) THEN MaxWord ELSE Zero)
             ELSE IF ~IsNeg(x) THEN DivNat(x, Pow2(Amount(s)))
             ELSE \* arithmetic shift of a negative value: floor division = NOT(SHR(NOT x))
                  NOT(DivNat(NOT(x), Pow2(Amount(s))))
=============================================================================
