--------------------------- MODULE EVMFramesTrace ---------------------------
(* Trace specification for C07: one event per hostile run (harness/core/vm/frames_test.go) *)
EXTENDS TraceLib, EVMFramesProps
VARIABLES l, X
tvars == <<l, X>>
Ev == Trace[l]
TInit == l = 1 /\ X = [e |-> "none"] /\ InitHW
TStep == l <= NLines /\ l' = l + 1 /\ Consumed(l) /\ X' = Ev
TSpec == TInit /\ [][TStep]_tvars
Is == X.e = "frames"
OutcomeT == Is => OutcomeAlphabet(X.status)
GasBoundedT == Is => GasBounded(X.steps, X.gas, X.gasLeft)
MemPaidForT == Is => MemPaidFor(X.steps)
DepthT == Is => (DepthBounded(X.steps) /\ X.maxDepth <= 1025)
FailedFrameRestoresT == Is => FailedFrameRestores(X.steps)
StaticT == Is => StaticIsReadOnly(X.steps, X.byzantium)
DepthRunT == X.e = "depthrun" => (X.maxDepth <= 1025 /\ OutcomeAlphabet(X.status))
TopFailureT == Is => TopFailureRestores(X.status, X.dg0, X.dgEnd)
=============================================================================
