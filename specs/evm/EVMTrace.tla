------------------------------- MODULE EVMTrace -------------------------------
(***************************************************************************)
(* Trace specification for C08: every recorded run of the real interpreter *)
(* is re-executed by TLC with the reference EVM.tla (W = 32) and compared: *)
(* the complete step list (pc, opcode, gas before, gas charged), the halt  *)
(* class, the returned bytes and the gas left.                             *)
(***************************************************************************)
EXTENDS TraceLib, EVM
VARIABLES l, X
tvars == <<l, X>>
Ev == Trace[l]
TInit == l = 1 /\ X = [e |-> "none"] /\ InitHW
TStep == l <= NLines /\ l' = l + 1 /\ Consumed(l) /\ X' = Ev
TSpec == TInit /\ [][TStep]_tvars

IsRun == X.e = "run"
Ref == Run(Env(X.code, X.data, X.epoch, X.expByte), Machine(X.gas, X.sha3), <<>>, 100000)
Class(s) == IF s \in {"stop", "return"} THEN "ok" ELSE IF s = "revert" THEN "revert" ELSE "error"
RefSteps == [i \in 1..Len(Ref.steps) |-> <<Ref.steps[i].pc, Ref.steps[i].op, Ref.steps[i].gas, Ref.steps[i].cost>>]

\* "terminates without crashing" is C07; here: produces the result, gas charge, memory growth and exceptional-halt
\* behaviour defined by the specification for the active fork
\* KNOWN FINDING D10 (KNOWN_FINDINGS.json): the run deviates from the reference, and agrees completely with the reference
\* in which ONLY SAR(shift >= 256, value = 0) = 2^256-1 is changed
RefQ == Run([Env(X.code, X.data, X.epoch, X.expByte) EXCEPT !.sarQuirk = TRUE], Machine(X.gas, X.sha3), <<>>, 100000)
StepsOf(r) == [i \in 1..Len(r.steps) |-> <<r.steps[i].pc, r.steps[i].op, r.steps[i].gas, r.steps[i].cost>>]
Agrees(r) == /\ X.steps = StepsOf(r) /\ X.status = Class(r.m.status) /\ X.gasLeft = r.m.gas
             /\ (X.status \in {"ok", "revert"} => X.ret = r.m.ret)
KnownD10 == Agrees(RefQ) /\ PrintT(<<"KNOWN", "D10", l - 1>>)

NoPanicT == IsRun => X.panic = ""
ConformsT == IsRun => (Agrees(Ref) \/ KnownD10)
=============================================================================
