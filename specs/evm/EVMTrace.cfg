SPECIFICATION TSpec
CONSTANT W = 32
INVARIANTS NoPanicT ConformsT
POSTCONDITION TraceAccepted
CHECK_DEADLOCK FALSE
