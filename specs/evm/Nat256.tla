------------------------------- MODULE Nat256 -------------------------------
(***************************************************************************)
(* Natural numbers beyond TLC's 32-bit integers: little-endian sequences   *)
(* of limbs in base 256 (bytes; used for EVM words).         *)
(* <<>> is zero; values are kept normalised (no most-significant zero      *)
(* limb).  BigNatCheck.tla model-checks every operator against native      *)
(* integer arithmetic on the range where both exist.                       *)
(***************************************************************************)
EXTENDS Integers, Sequences

Base == 256

RECURSIVE Norm(_)
Norm(a) == IF a = <<>> THEN <<>>
           ELSE IF a[Len(a)] = 0 THEN Norm(SubSeq(a, 1, Len(a) - 1)) ELSE a

IsNat(a) == /\ \A k \in 1..Len(a) : a[k] \in 0..(Base - 1)
            /\ (a # <<>> => a[Len(a)] # 0)

RECURSIVE FromInt(_)
FromInt(n) == IF n = 0 THEN <<>> ELSE <<n % Base>> \o FromInt(n \div Base)

RECURSIVE ToInt(_)          \* only for values known to fit
ToInt(a) == IF a = <<>> THEN 0 ELSE a[1] + Base * ToInt(Tail(a))

Limb(a, k) == IF k <= Len(a) THEN a[k] ELSE 0
Max(x, y) == IF x > y THEN x ELSE y

RECURSIVE AddC(_, _, _, _)
AddC(a, b, k, c) ==       \* limbs k.. of a+b with incoming carry c
  IF k > Max(Len(a), Len(b)) THEN (IF c = 0 THEN <<>> ELSE <<c>>)
  ELSE LET s == Limb(a, k) + Limb(b, k) + c IN <<s % Base>> \o AddC(a, b, k + 1, s \div Base)
Add(a, b) == AddC(a, b, 1, 0)

RECURSIVE CmpK(_, _, _)
CmpK(a, b, k) ==          \* compare from limb k downward (equal lengths)
  IF k = 0 THEN 0
  ELSE IF a[k] < b[k] THEN -1 ELSE IF a[k] > b[k] THEN 1 ELSE CmpK(a, b, k - 1)
Cmp(a, b) == IF Len(a) < Len(b) THEN -1 ELSE IF Len(a) > Len(b) THEN 1 ELSE CmpK(a, b, Len(a))
Leq(a, b) == Cmp(a, b) <= 0
Lt(a, b) == Cmp(a, b) < 0
Eq(a, b) == a = b

RECURSIVE SubC(_, _, _, _)
SubC(a, b, k, br) ==      \* a - b for a >= b, limbs k.. with borrow br
  IF k > Len(a) THEN <<>>
  ELSE LET d == a[k] - Limb(b, k) - br IN
       IF d < 0 THEN <<d + Base>> \o SubC(a, b, k + 1, 1) ELSE <<d>> \o SubC(a, b, k + 1, 0)
Sub(a, b) == Norm(SubC(a, b, 1, 0))       \* requires Leq(b, a)
Monus(a, b) == IF Leq(b, a) THEN Sub(a, b) ELSE <<>>

RECURSIVE MulSmallC(_, _, _, _)
MulSmallC(a, m, k, c) ==  \* a * m for 0 <= m < Base
  IF k > Len(a) THEN (IF c = 0 THEN <<>> ELSE <<c>>)
  ELSE LET p == a[k] * m + c IN <<p % Base>> \o MulSmallC(a, m, k + 1, p \div Base)
MulSmall(a, m) == Norm(MulSmallC(a, m, 1, 0))

ShiftLimbs(a, n) == IF a = <<>> THEN <<>> ELSE [k \in 1..n |-> 0] \o a

RECURSIVE MulK(_, _, _)
MulK(a, b, k) == IF k > Len(b) THEN <<>>
                 ELSE Add(ShiftLimbs(MulSmall(a, b[k]), k - 1), MulK(a, b, k + 1))
Mul(a, b) == MulK(a, b, 1)

\* division by a small divisor 0 < m < Base: quotient and remainder, most significant limb first
RECURSIVE DivSmallK(_, _, _, _)
DivSmallK(a, m, k, r) ==  \* returns <<quotient limbs k..1 (as little-endian seq), remainder>>
  IF k = 0 THEN <<<<>>, r>>
  ELSE LET cur == r * Base + a[k]
           q == cur \div m
           rest == DivSmallK(a, m, k - 1, cur % m)
       IN <<rest[1] \o <<q>>, rest[2]>>
DivSmall(a, m) == Norm(DivSmallK(a, m, Len(a), 0)[1])
ModSmall(a, m) == DivSmallK(a, m, Len(a), 0)[2]

\* general division by repeated DivSmall when the divisor factors are small is enough for the
\* protocol formulas used here (divisors 2, 8, 16, 32, 64, 128, 512, 1024, 2048, 100 ...)
RECURSIVE Sum(_)
Sum(seq) == IF seq = <<>> THEN <<>> ELSE Add(Head(seq), Sum(Tail(seq)))
=============================================================================
