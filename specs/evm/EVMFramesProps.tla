--------------------------- MODULE EVMFramesProps ---------------------------
(***************************************************************************)
(* L1 predicates of C07 over the step list of one top-level run.           *)
(* step: [d (call depth, 1 = top frame), pc, op, gas (before the step),    *)
(*        mem (bytes of frame memory), stk, top (-1 none / 0 zero / 1      *)
(*        non-zero), err, dg / dgn (world digest with / without nonces,    *)
(*        present on call-family steps and on the step that follows one    *)
(*        in the same frame)]                                              *)
(***************************************************************************)
EXTENDS Integers, Sequences, FiniteSets

CallOps == {240, 241, 242, 244, 250}          \* CREATE CALL CALLCODE DELEGATECALL STATICCALL
MemGas(w) == 3 * w + (w * w) \div 512
HasDg(s) == "dg" \in DOMAIN s

\* S[i].p  = index of the previous step of the same frame (same depth, no shallower step in between), 0 if none
\* S[i].fs = index of the first step of the frame step i belongs to
\* (both are functions of the depth column, computed by the recorder)
PrevSame(S, i, j) == S[i].p
FrameStart(S, i) == S[i].fs

\* "never uses more gas than it was given": inside a frame the gas never increases, a child never starts with more than
\* its parent had (plus the 2300 stipend of a value call), the run returns at most the budget
GasBounded(S, budget, left) ==
  /\ left <= budget
  /\ \A i \in 1..Len(S) :
       LET p == PrevSame(S, i, i - 1) IN
         /\ (p # 0 => S[i].gas <= S[p].gas)
         /\ (p = 0 /\ i > 1 /\ S[i].d > 1 => S[i].gas <= S[i - 1].gas + 2300)
         /\ S[i].gas <= budget + 2300 * (S[i].d - 1)

\* "never holds more memory than the gas paid for": the frame has spent at least the memory gas of what it holds
\* (the tracer sees the memory already grown by step i while `gas` is the gas before step i: the charge of step i counts)
MemPaidFor(S) ==
  \A i \in 1..Len(S) : ~S[i].err => MemGas(S[i].mem \div 32) <= S[FrameStart(S, i)].gas - (S[i].gas - S[i].cost)

\* "call depth never exceeds 1024" (the tracer counts the top frame as depth 1)
DepthBounded(S) == \A i \in 1..Len(S) : S[i].d <= 1025

\* "a call frame that fails leaves world state exactly as it was when the frame was entered (a failed contract creation
\*  additionally keeps its creator's nonce increment)": judged at the next step of the calling frame, whose stack top
\*  is the success flag of the call
FailedFrameRestores(S) ==
  \A i \in 1..Len(S) :
     LET p == PrevSame(S, i, i - 1) IN
       (p # 0 /\ S[p].op \in CallOps /\ ~S[p].err /\ HasDg(S[p]) /\ HasDg(S[i]) /\ S[i].top = 0)
          => IF S[p].op = 240 THEN S[i].dgn = S[p].dgn ELSE S[i].dg = S[p].dg

\* "code running in a static (read-only) call under Byzantium rules changes no balance, storage, code, nonce or log"
StaticIsReadOnly(S, byzantium) ==
  byzantium => \A i \in 1..Len(S) :
     LET p == PrevSame(S, i, i - 1) IN
       (p # 0 /\ S[p].op = 250 /\ ~S[p].err /\ HasDg(S[p]) /\ HasDg(S[i])) => S[i].dg = S[p].dg

\* "terminates without crashing the node"
OutcomeAlphabet(status) == status \in {"ok", "revert", "error"}
\* a top-level failure leaves the world untouched as well (only gas is consumed)
TopFailureRestores(status, dg0, dgEnd) == status = "error" => dg0 = dgEnd
=============================================================================
