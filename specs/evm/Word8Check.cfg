SPECIFICATION Spec
CONSTANT W = 1
CONSTANT Dom <- DomFull
INVARIANTS ArithOK SignedOK CmpOK BitOK ShiftOK ModArithOK ExpOK ByteSignOK NormalOK
