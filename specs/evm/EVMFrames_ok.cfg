SPECIFICATION Spec
CONSTANTS
  Budget = 6
  MaxDepth = 3
  KeepReadOnly = TRUE
INVARIANTS GasBoundedInv DepthInv StaticInv ReadOnlyInv
