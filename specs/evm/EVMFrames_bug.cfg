SPECIFICATION Spec
CONSTANTS
  Budget = 6
  MaxDepth = 3
  KeepReadOnly = FALSE
INVARIANTS GasBoundedInv DepthInv StaticInv ReadOnlyInv
