SPECIFICATION Spec
CONSTANTS Peers = {"p", "q"} Hashes = {"h1", "h2"} HashLimit = 2 BlockLimit = 1 MaxAnn = 4 Accounting = "asis"
INVARIANTS TypeOK CountExact Bounded QueueExact
CHECK_DEADLOCK FALSE
