SPECIFICATION Spec
CONSTANTS Peers = {"p", "q"} Hashes = {"h1", "h2"} HashLimit = 2 BlockLimit = 1 MaxAnn = 5 Accounting = "asis"
INVARIANTS Bounded
CHECK_DEADLOCK FALSE
