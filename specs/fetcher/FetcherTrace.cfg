SPECIFICATION TSpec
CONSTANTS HashLimit = 256 BlockLimit = 64
INVARIANTS CountExactT BoundedT QueueExactT NoLeakT
POSTCONDITION TraceAccepted
CHECK_DEADLOCK FALSE
