------------------------------- MODULE Fetcher -------------------------------
(***************************************************************************)
(* The announcement bookkeeping of the block fetcher                       *)
(* (aqua/fetcher/fetcher.go: loop, Notify, enqueue, forgetHash,             *)
(* forgetBlock).  A peer announces block hashes (NewBlockHashes); every     *)
(* announcement is an object that moves through four maps                   *)
(*    announced -> fetching -> fetched -> completing                        *)
(* (header requested, header received, body requested) and ends in the      *)
(* import queue.  `announces[peer]` counts a peer's outstanding             *)
(* announcements; Notify refuses a peer whose count has reached hashLimit   *)
(* (256) - that is the protocol's bound on what one peer can make the node  *)
(* remember (C17).  forgetHash(hash) removes a hash from all four maps and  *)
(* decrements the counter once per entry it finds.                          *)
(*                                                                         *)
(* Accounting = "asis": as the code was - the timer branches use forgetHash *)
(* to MOVE an announcement (forget, then store the chosen one again without *)
(* counting it) and the header branch stores an announcement in a second    *)
(* map while it is still in `fetching`, so one announcement is decremented  *)
(* two to four times: the counter drifts below zero and the bound is gone.  *)
(* Accounting = "exact": every announcement object is counted once while it *)
(* lives (the repair).                                                      *)
(***************************************************************************)
EXTENDS Integers, FiniteSets, Sequences

CONSTANTS Peers, Hashes, HashLimit, BlockLimit, MaxAnn, Accounting

VARIABLES ann,          \* function: announcement id -> [origin, hash]   (every object ever created)
          announced,    \* function: hash -> sequence of ids
          fetching,     \* partial function: hash -> id
          fetched,      \* function: hash -> sequence of ids
          completing,   \* partial function: hash -> id
          count,        \* announces[peer]
          queued,       \* partial function: hash -> peer
          queues,       \* queues[peer]
          imported      \* blocks the chain has
vars == <<ann, announced, fetching, fetched, completing, count, queued, queues, imported>>

Put(f, k, v) == [x \in (DOMAIN f) \cup {k} |-> IF x = k THEN v ELSE f[x]]
Drop1(f, k) == [x \in (DOMAIN f) \ {k} |-> f[x]]
SeqSet(s) == {s[i] : i \in 1..Len(s)}

Init == /\ ann = <<>> /\ announced = [h \in Hashes |-> <<>>] /\ fetching = <<>> /\ fetched = [h \in Hashes |-> <<>>]
        /\ completing = <<>> /\ count = [p \in Peers |-> 0] /\ queued = <<>> /\ queues = [p \in Peers |-> 0] /\ imported = {}

\* the state record the helper operators transform
St == [announced |-> announced, fetching |-> fetching, fetched |-> fetched, completing |-> completing, count |-> count]

\* how often forgetHash decrements the counter of peer p for hash h
Presences(st, h, p) ==
  LET inA == {i \in 1..Len(st.announced[h]) : ann[st.announced[h][i]].origin = p}
      inF == {i \in 1..Len(st.fetched[h]) : ann[st.fetched[h][i]].origin = p}
  IN Cardinality(inA) + Cardinality(inF)
     + (IF h \in DOMAIN st.fetching /\ ann[st.fetching[h]].origin = p THEN 1 ELSE 0)
     + (IF h \in DOMAIN st.completing /\ ann[st.completing[h]].origin = p THEN 1 ELSE 0)
LiveIds(st, h) == SeqSet(st.announced[h]) \cup SeqSet(st.fetched[h])
                  \cup (IF h \in DOMAIN st.fetching THEN {st.fetching[h]} ELSE {})
                  \cup (IF h \in DOMAIN st.completing THEN {st.completing[h]} ELSE {})
Distinct(st, h, p) == Cardinality({a \in LiveIds(st, h) : ann[a].origin = p})

ForgetHash(st, h) ==
  [announced |-> [st.announced EXCEPT ![h] = <<>>],
   fetching |-> IF h \in DOMAIN st.fetching THEN Drop1(st.fetching, h) ELSE st.fetching,
   fetched |-> [st.fetched EXCEPT ![h] = <<>>],
   completing |-> IF h \in DOMAIN st.completing THEN Drop1(st.completing, h) ELSE st.completing,
   count |-> [p \in Peers |-> st.count[p] - (IF Accounting = "asis" THEN Presences(st, h, p) ELSE Distinct(st, h, p))]]

\* after forgetHash the chosen announcement lives on in another map: the repair counts it again
Keep(st, a) == IF Accounting = "asis" THEN st ELSE [st EXCEPT !.count[ann[a].origin] = @ + 1]

Set(st) == /\ announced' = st.announced /\ fetching' = st.fetching /\ fetched' = st.fetched
           /\ completing' = st.completing /\ count' = st.count

\* enqueue(peer, block) on a state record; returns [st, queued, queues]
Enqueue(st, p, h) ==
  IF queues[p] + 1 > BlockLimit THEN [st |-> ForgetHash(st, h), queued |-> queued, queues |-> queues]
  ELSE IF h \in DOMAIN queued THEN [st |-> st, queued |-> queued, queues |-> queues]
  ELSE [st |-> st, queued |-> Put(queued, h, p), queues |-> [queues EXCEPT ![p] = @ + 1]]

\* Notify: a peer announces a hash
Notify(p, h) ==
  /\ Cardinality(DOMAIN ann) < MaxAnn
  /\ IF count[p] + 1 > HashLimit \/ h \in DOMAIN fetching \/ h \in DOMAIN completing
     THEN UNCHANGED vars
     ELSE LET a == Cardinality(DOMAIN ann) + 1 IN
          /\ ann' = Put(ann, a, [origin |-> p, hash |-> h])
          /\ announced' = [announced EXCEPT ![h] = Append(@, a)]
          /\ count' = [count EXCEPT ![p] = @ + 1]
          /\ UNCHANGED <<fetching, fetched, completing, queued, queues, imported>>

\* the fetch timer: one of the announcers of a hash is asked for the header, the others are forgotten
FetchTimer(h) ==
  /\ announced[h] # <<>>
  /\ \E i \in 1..Len(announced[h]) :
       LET a == announced[h][i]
           s1 == ForgetHash(St, h)
       IN IF h \in imported THEN Set(s1)
          ELSE Set(Keep([s1 EXCEPT !.fetching = Put(s1.fetching, h, a)], a))
  /\ UNCHANGED <<ann, queued, queues, imported>>

\* no header within fetchTimeout
FetchTimeout(h) == /\ h \in DOMAIN fetching /\ Set(ForgetHash(St, h)) /\ UNCHANGED <<ann, queued, queues, imported>>

HeaderGuard(h) == h \in DOMAIN fetching /\ fetched[h] = <<>> /\ h \notin DOMAIN completing /\ h \notin DOMAIN queued
\* the header of a block with transactions arrives from the announcer: body retrieval is scheduled
HeaderFull(h) ==
  /\ HeaderGuard(h)
  /\ LET a == fetching[h] IN
     IF h \in imported THEN Set(ForgetHash(St, h))
     ELSE Set([St EXCEPT !.fetched[h] = Append(@, a)])       \* the same object is now in two maps
  /\ UNCHANGED <<ann, queued, queues, imported>>
\* the header of an empty block arrives: straight into the import queue
HeaderEmpty(h) ==
  /\ HeaderGuard(h)
  /\ LET a == fetching[h] IN
     IF h \in imported THEN Set(ForgetHash(St, h)) /\ UNCHANGED <<queued, queues>>
     ELSE LET s1 == [St EXCEPT !.completing = Put(St.completing, h, a)]
              r == Enqueue(s1, ann[a].origin, h)
          IN Set(r.st) /\ queued' = r.queued /\ queues' = r.queues
  /\ UNCHANGED <<ann, imported>>

\* the completion timer: the body is requested from one of those who delivered the header
CompleteTimer(h) ==
  /\ fetched[h] # <<>>
  /\ \E i \in 1..Len(fetched[h]) :
       LET a == fetched[h][i]
           s1 == ForgetHash(St, h)
       IN IF h \in imported THEN Set(s1)
          ELSE Set(Keep([s1 EXCEPT !.completing = Put(s1.completing, h, a)], a))
  /\ UNCHANGED <<ann, queued, queues, imported>>

BodyArrives(h) ==
  /\ h \in DOMAIN completing /\ h \notin DOMAIN queued
  /\ IF h \in imported THEN Set(ForgetHash(St, h)) /\ UNCHANGED <<queued, queues>>
     ELSE LET r == Enqueue(St, ann[completing[h]].origin, h)
          IN Set(r.st) /\ queued' = r.queued /\ queues' = r.queues
  /\ UNCHANGED <<ann, imported>>

\* a propagated block (NewBlock) from a peer
Inject(p, h) ==
  /\ LET r == Enqueue(St, p, h) IN Set(r.st) /\ queued' = r.queued /\ queues' = r.queues
  /\ UNCHANGED <<ann, imported>>

\* the import of a queued block finished (ok or not): done <- hash
Done(h, ok) ==
  /\ h \in DOMAIN queued
  /\ Set(ForgetHash(St, h))
  /\ queues' = [queues EXCEPT ![queued[h]] = @ - 1]
  /\ queued' = Drop1(queued, h)
  /\ imported' = IF ok THEN imported \cup {h} ELSE imported
  /\ UNCHANGED ann

Next == \/ \E p \in Peers, h \in Hashes : Notify(p, h) \/ Inject(p, h)
        \/ \E h \in Hashes : FetchTimer(h) \/ FetchTimeout(h) \/ HeaderFull(h) \/ HeaderEmpty(h) \/ CompleteTimer(h) \/ BodyArrives(h)
        \/ \E h \in Hashes, ok \in BOOLEAN : Done(h, ok)
Spec == Init /\ [][Next]_vars

----------------------------------------------------------------------------
Live(p) == {a \in UNION {LiveIds(St, x) : x \in Hashes} : ann[a].origin = p}
\* the counter is the number of the peer's announcements the fetcher still remembers
CountExact == \A p \in Peers : count[p] = Cardinality(Live(p))
\* which is what bounds them
Bounded == \A p \in Peers : Cardinality(Live(p)) <= HashLimit
QueueExact == \A p \in Peers : queues[p] = Cardinality({x \in DOMAIN queued : queued[x] = p}) /\ queues[p] <= BlockLimit
TypeOK == (\A x \in DOMAIN fetching : fetching[x] \in DOMAIN ann) /\ (\A x \in DOMAIN completing : completing[x] \in DOMAIN ann)
=============================================================================
