---------------------------- MODULE FetcherTrace ----------------------------
(* What the real block fetcher remembers, read on its own loop goroutine between two events (step point), judged by the
   invariants of Fetcher.tla: for every peer the announce counter is the number of distinct announcements the four maps still
   hold, that number never exceeds hashLimit, the queue counter is the number of queued blocks and never exceeds blockLimit;
   and when the fetcher has come to rest nothing is left. *)
EXTENDS TraceLib, FiniteSets
CONSTANTS HashLimit, BlockLimit
VARIABLES l, obs
tvars == <<l, obs>>
TInit == l = 1 /\ obs = [e |-> "none"] /\ InitHW
TNext == l <= NLines /\ l' = l + 1 /\ Consumed(l) /\ obs' = Trace[l]
TSpec == TInit /\ [][TNext]_tvars

Snap == obs.e = "snap"
P == IF Snap THEN obs.peers ELSE <<>>
\* Fetcher.tla CountExact
CountExactT == \A k \in 1..Len(P) : P[k].count = P[k].live
\* Fetcher.tla Bounded: the protocol's limit on what one peer can make the node remember
BoundedT == \A k \in 1..Len(P) : P[k].live <= HashLimit
\* Fetcher.tla QueueExact
QueueExactT == \A k \in 1..Len(P) : P[k].queue = P[k].qlive /\ P[k].qlive <= BlockLimit
\* at rest, after a history in which every fetch could finish or time out, nothing is remembered and no counter is left standing
NoLeakT == (Snap /\ obs.rest /\ obs.clean) => \A k \in 1..Len(P) : P[k].count = 0 /\ P[k].live = 0 /\ P[k].queue = 0 /\ P[k].qlive = 0
=============================================================================
