SPECIFICATION Spec
CONSTANT E155LowS = TRUE
INVARIANTS Conforms Total
