-------------------------------- MODULE TxSig --------------------------------
(***************************************************************************)
(* C12: the decision procedure of types.Sender with the cryptography       *)
(* abstracted (DESIGN 2.6): a signature made by key k over sighash h       *)
(* recovers k over h and "some other key or nothing" over any other hash;  *)
(* the sighash is injective in (fields, signer kind, chain id).            *)
(*                                                                         *)
(*  signer  in {"F", "H", "E"}   Frontier / Homestead / EIP155(chain c)    *)
(*  signed  in {"U", "Pc", "Pd"} how the transaction was signed:           *)
(*          unprotected, EIP155 for the signer's chain c, EIP155 for d # c *)
(*  mut     the alteration applied after signing                           *)
(*                                                                         *)
(* Allowed(case) is the property: which outcomes C12 permits.              *)
(* CodeVerdict(case) mirrors core/types/transaction_signing.go; the flag   *)
(* E155LowS says whether the EIP155 path enforces low-S (the pinned code   *)
(* does not: known finding D7).                                            *)
(***************************************************************************)
EXTENDS Integers, FiniteSets, TLC

Signers == {"F", "H", "E"}
Signed == {"U", "Pc", "Pd"}
FieldMuts == {"nonce", "price", "gas", "to", "value", "data"}
OutOfRange == {"r=0", "s=0", "r=N", "s=N", "s=max", "vbig", "v+256k", "s-wide", "highS-wide", "r-wide"}     \* values outside [1, N-1] / V beyond its byte
SigMuts == {"r+1", "s+1", "vflip", "highS"} \cup OutOfRange
Muts == {"none", "chainid"} \cup FieldMuts \cup SigMuts
Outcomes == {"same", "other", "error"}

\* ---- the property ----
Allowed(c) ==
  LET rightSigner == (c.signed = "U" /\ c.signer \in {"F", "H", "E"}) \/ (c.signed = "Pc" /\ c.signer = "E") IN
  IF ~rightSigner THEN {"error"}                       \* "a replay-protected transaction is attributed only under its own chain id"
  ELSE IF c.mut = "none" THEN {"same"}                 \* "attributed to exactly that key's address"
  ELSE IF c.mut \in OutOfRange THEN {"error"}   \* "out-of-range signatures are rejected"
  ELSE IF c.mut = "highS" THEN (IF c.signer = "F" THEN {"same", "error"} ELSE {"error"})   \* "malleable (high-S) ... rejected" (Frontier rules predate it)
  ELSE IF c.mut = "chainid" THEN {"error", "other"}
  ELSE {"error", "other"}                              \* "changing any signed field or signature component either makes recovery fail or attributes it to a different address"

\* ---- the code ----
CONSTANT E155LowS
\* abstract recovery: the signature verifies for the original hash only
Recover(sameHash, sigIntact) == IF sameHash /\ sigIntact THEN {"same"} ELSE {"other", "error"}
\* recoverPlain: V must be 27/28 after normalisation, R,S in [1,N-1], and (homestead) S <= N/2
RecoverPlain(c, homestead, vOK) ==
  IF ~vOK \/ c.mut \in OutOfRange THEN {"error"}
  ELSE IF c.mut = "highS" THEN (IF homestead THEN {"error"} ELSE {"same"})      \* (r, N-s, v^1) is a valid signature of the same key
  ELSE Recover(c.mut \notin (FieldMuts \cup {"chainid"}), c.mut \notin {"r+1", "s+1", "vflip"})
CodeVerdict(c) ==
  LET protected == c.signed \in {"Pc", "Pd"} \/ (c.signed = "U" /\ c.mut = "chainid")       \* V carries a chain id
      chainOfTx == IF c.signed = "Pc" /\ c.mut # "chainid" THEN "c" ELSE "d" IN
  IF c.signer = "E" THEN
       IF ~protected THEN RecoverPlain(c, TRUE, TRUE)                    \* HomesteadSigner{}.Sender
       ELSE IF chainOfTx # "c" THEN {"error"}                            \* ErrInvalidChainId
       ELSE RecoverPlain(c, E155LowS, TRUE)
  ELSE \* Frontier / Homestead signer: V is used as is; a protected V (>= 35) is not 27/28
       RecoverPlain(c, c.signer = "H", ~protected)

VARIABLE c
Cases == [signer : Signers, signed : Signed, mut : Muts]
Init == c \in Cases
Next == UNCHANGED c
Spec == Init /\ [][Next]_c
\* the code never produces an outcome the property forbids
Conforms == CodeVerdict(c) \subseteq Allowed(c)
\* the table is total and non-vacuous
Total == CodeVerdict(c) # {} /\ Allowed(c) # {}
=============================================================================
