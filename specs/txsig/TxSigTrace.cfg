SPECIFICATION TSpec
CONSTANT E155LowS = TRUE
INVARIANTS VerdictT NoPanicT CacheT AsMessageT ReencodeT JsonAltT
POSTCONDITION TraceAccepted
CHECK_DEADLOCK FALSE
