SPECIFICATION Spec
CONSTANT E155LowS = FALSE
INVARIANTS Conforms Total
