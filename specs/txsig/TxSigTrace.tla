------------------------------ MODULE TxSigTrace ------------------------------
(* Trace specification for C12: outcomes of types.Sender on concretised cases of the TxSig.tla table. *)
EXTENDS TraceLib, TxSig
VARIABLES l, X
tvars == <<l, X>>
Ev == Trace[l]
TInit == l = 1 /\ X = [e |-> "none"] /\ InitHW /\ c = [signer |-> "F", signed |-> "U", mut |-> "none"]
TStep == l <= NLines /\ l' = l + 1 /\ Consumed(l) /\ X' = Ev /\ UNCHANGED c
TSpec == TInit /\ [][TStep]_<<tvars, c>>

CaseOf(x) == [signer |-> x.signer, signed |-> x.signed, mut |-> x.mut]
\* KNOWN FINDING D7: the EIP-155 path accepts the high-S twin of a signature
IsD7(cs, oc) == cs.signer = "E" /\ cs.signed = "Pc" /\ cs.mut = "highS" /\ oc = "same"
KnownD7(cs, oc) == IsD7(cs, oc) /\ PrintT(<<"KNOWN", "D7", l - 1>>)

VerdictT == X.e = "case" => (X.outcome \in Allowed(CaseOf(X)) \/ KnownD7(CaseOf(X), X.outcome))
NoPanicT == X.e = "case" => X.panic = ""
\* the sender cache never changes an answer: every query of a sequence gets the verdict a fresh object would get
CacheT == X.e = "cacheseq" => \A i \in 1..Len(X.seq) :
             LET cs == [signer |-> X.seq[i].signer, signed |-> X.signed, mut |-> X.mut] IN
               X.seq[i].outcome \in Allowed(cs) \/ IsD7(cs, X.seq[i].outcome)
AsMessageT == X.e = "asmessage" => X.ok
\* "a transaction's hash and sender survive every supported re-encoding (RLP and JSON) unchanged"
ReencodeT == X.e = "reencode" => (X.rlpOK /\ X.jsonOK /\ X.hashRLP /\ X.hashJSON /\ X.bytesSame /\ X.senderRLP /\ X.senderJSON)
\* the hash of a decoded transaction is the hash of its content, whatever the document claimed
JsonAltT == X.e = "jsonalt" => (X.hashIsContentHash /\ X.differsFromOriginal)
=============================================================================
