SPECIFICATION Spec
CONSTANTS
  Alphabet = {0, 1, 127, 128, 129, 183, 184, 191, 192, 193, 247, 248, 255}
  MaxLen = 4
INVARIANTS Canonical Total
