------------------------------ MODULE RLPCheck ------------------------------
(* Model-checks the specification of the codec itself: decode . encode = id on terms, and every accepted
   byte string is the encoding of the term it decodes to (one accepted encoding per value). *)
EXTENDS RLP, TLC
CONSTANTS Alphabet, MaxLen
VARIABLES s
Strings(n) == UNION {[1..k -> Alphabet] : k \in 0..n}
Init == s \in Strings(MaxLen)
Next == UNCHANGED s
Spec == Init /\ [][Next]_s
\* uniqueness of the accepted encoding
Canonical == LET d == DecodeAll(s) IN d.ok => Enc(d.term) = s
\* totality: Dec always yields ok or an error record
Total == LET d == DecodeAll(s) IN d.ok \in BOOLEAN
\* terms built from the alphabet: strings of length <= 2, lists of width <= 2, depth <= 2
T0 == {Str(b) : b \in Strings(2)}
T1 == T0 \cup {Lst(x) : x \in UNION {[1..k -> T0] : k \in 0..2}}
RoundTrip == \A t \in T1 : DecodeAll(Enc(t)) = Ok(t, <<>>)
\* long forms (lengths 55, 56, 57, 255, 256) round-trip too
Long(n) == Str([i \in 1..n |-> 129])
RoundTripLong == \A n \in {54, 55, 56, 57, 255, 256, 257} :
                   /\ DecodeAll(Enc(Long(n))) = Ok(Long(n), <<>>)
                   /\ DecodeAll(Enc(Lst(<<Long(n)>>))) = Ok(Lst(<<Long(n)>>), <<>>)
ASSUME RoundTrip /\ RoundTripLong
=============================================================================
