------------------------------ MODULE RLPTrace ------------------------------
(***************************************************************************)
(* Trace specification for C11: every recorded decode of the real rlp      *)
(* package is compared with RLP!DecodeAll evaluated by TLC on the same     *)
(* bytes.  Inputs longer than BigInput are judged on the header / size     *)
(* rules only (their content is uniform), to keep the evaluation linear.   *)
(***************************************************************************)
EXTENDS TraceLib, RLP
VARIABLES l, X
tvars == <<l, X>>
Ev == Trace[l]
TInit == l = 1 /\ X = [e |-> "none"] /\ InitHW
TStep == l <= NLines /\ l' = l + 1 /\ Consumed(l) /\ X' = Ev
TSpec == TInit /\ [][TStep]_tvars

BigInput == 1500
Judged == X.e = "dec"
Small == Judged /\ X.n <= BigInput
\* JSON terms carry k/b or k/items exactly like the spec's terms
Expected == DecodeAll(X["in"])

\* "For every supported value, decoding its encoding returns an equal value" - and the encoding is the one the specification defines,
\* through every encoder entry point
\* the same for values of the typed Go kinds (byte arrays, integers, structs with tags, pointers ...): they come back equal, and what
\* was written is the canonical encoding of the term a generic decode reads from it
TypedValT == X.e = "tval" => (X.panic = "" /\ ~X.err /\ X.roundtrip /\ X.generic /\ X.bytes = Enc(X.term))
EncT == X.e = "enc" => (X.panic = "" /\ ~X.err /\ X.bytes = Enc(X.term) /\ X.writer = X.bytes /\ X.reader = X.bytes /\ X.roundtrip)

\* "decoding either fails with an error or yields a value whose encoding is that byte string exactly"
VerdictT == Small => (X.ok <=> Expected.ok)
TermT == (Small /\ X.ok) => X.term = Expected.term
ReencodeT == (Judged /\ X.ok) => X.reenc = X["in"]
\* the streaming decoder and the splitter agree with the one-shot decoder
StreamT == Small => ((X.streamOk <=> Expected.ok) /\ X.streamSame)
SplitT == Small => LET h == Header(X["in"]) IN
            /\ (X.splitOk <=> h.ok)
            /\ (h.ok => (X.splitKind = h.kind /\ X.splitLen = h.size /\ X.splitRest = X.n - h.off - h.size))
\* typed targets: whatever decodes re-encodes to the input (one accepted encoding per value), and only generic-valid input decodes
TypedNames == {"uint8", "uint64", "bigint", "bool", "bytes", "arr2", "string", "u16s", "rec3", "recOpt", "recOptS", "raw", "fats", "recps"}
\* (RawValue is a verbatim pass-through: it re-encodes to its input by construction and is not required to validate)
TypedT == Judged => \A t \in TypedNames : (X.typed[t].ok => X.typed[t].same) /\ ((X.typed[t].ok /\ Small /\ t # "raw") => Expected.ok)
\* integer kinds follow the canonical integer rules of the specification
TypedIntT == (Small /\ Expected.ok) =>
   /\ (X.typed["uint64"].ok <=> IsCanonUint(Expected.term, 8))
   /\ (X.typed["uint8"].ok <=> IsCanonUint(Expected.term, 1))
   /\ (X.typed["bigint"].ok <=> (Expected.term.k = "s" /\ (Expected.term.b = <<>> \/ Expected.term.b[1] # 0)))
   /\ (X.typed["bool"].ok <=> IsBool(Expected.term))
   /\ (X.typed["bytes"].ok <=> Expected.term.k = "s")
   /\ (X.typed["arr2"].ok <=> IsBytesN(Expected.term, 2))
   /\ X.typed["raw"].ok
\* "without panicking"
NoPanicT == Judged => (X.panic = "" /\ X.streamPanic = "" /\ X.splitPanic = "" /\ \A t \in TypedNames : X.typed[t].panic = "")
\* "for inputs of known length, without allocating more than that length" (constant factor for boxing, see DESIGN)
AllocBound(n) == 160 * n + 4096
AllocT == Judged => (X.alloc <= AllocBound(X.n) /\ X.streamAlloc <= AllocBound(X.n)
                     /\ \A t \in TypedNames : X.typed[t].alloc <= AllocBound(X.n))
=============================================================================
