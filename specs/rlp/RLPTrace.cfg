SPECIFICATION TSpec
INVARIANTS EncT TypedValT VerdictT TermT ReencodeT StreamT SplitT TypedT TypedIntT NoPanicT AllocT
POSTCONDITION TraceAccepted
CHECK_DEADLOCK FALSE
