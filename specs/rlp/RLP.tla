-------------------------------- MODULE RLP --------------------------------
(***************************************************************************)
(* RLP as a pair of recursive TLA+ functions over byte sequences           *)
(* (Yellow Paper appendix B plus canonicity).  Value terms:                *)
(*    [k |-> "s", b |-> <<bytes>>]        a string                         *)
(*    [k |-> "l", items |-> <<terms>>]    a list                           *)
(* Dec is STRICT: exactly one accepted encoding per term - single bytes    *)
(* below 0x80 unwrapped, short form for lengths <= 55, long-form length    *)
(* without leading zero and >= 56, declared length within the input.       *)
(* Used by C11 directly and by C09 / C10 to decode trie nodes in TLC.      *)
(***************************************************************************)
EXTENDS Integers, Sequences

Str(b) == [k |-> "s", b |-> b]
Lst(items) == [k |-> "l", items |-> items]
Err(e) == [ok |-> FALSE, err |-> e]
Ok(t, rest) == [ok |-> TRUE, term |-> t, rest |-> rest]

\* big-endian minimal byte sequence of n > 0
RECURSIVE BE(_)
BE(n) == IF n = 0 THEN <<>> ELSE BE(n \div 256) \o <<n % 256>>
RECURSIVE FromBE(_)
FromBE(b) == IF b = <<>> THEN 0 ELSE FromBE(SubSeq(b, 1, Len(b) - 1)) * 256 + b[Len(b)]

RECURSIVE Flat(_)
Flat(ss) == IF ss = <<>> THEN <<>> ELSE Head(ss) \o Flat(Tail(ss))

Prefix(base, n) == IF n <= 55 THEN <<base + n>> ELSE <<base + 55 + Len(BE(n))>> \o BE(n)

RECURSIVE Enc(_)
Enc(t) ==
  IF t.k = "s"
    THEN IF Len(t.b) = 1 /\ t.b[1] < 128 THEN t.b ELSE Prefix(128, Len(t.b)) \o t.b
    ELSE LET payload == Flat([i \in 1..Len(t.items) |-> Enc(t.items[i])]) IN Prefix(192, Len(payload)) \o payload

\* header of the first value in s: [ok, kind, off (bytes before the content), size] or an error
Header(s) ==
  IF s = <<>> THEN Err("eof")
  ELSE LET b0 == s[1] IN
    IF b0 < 128 THEN [ok |-> TRUE, kind |-> "byte", off |-> 0, size |-> 1]
    ELSE IF b0 <= 183
      THEN LET n == b0 - 128 IN
           IF Len(s) < 1 + n THEN Err("short")
           ELSE IF n = 1 /\ s[2] < 128 THEN Err("noncanonical-single-byte")
           ELSE [ok |-> TRUE, kind |-> "s", off |-> 1, size |-> n]
    ELSE IF b0 <= 191 \/ b0 >= 248
      THEN LET ll == IF b0 <= 191 THEN b0 - 183 ELSE b0 - 247 IN
           IF Len(s) < 1 + ll THEN Err("short-size")
           ELSE IF s[2] = 0 THEN Err("leading-zero-size")
           ELSE IF ll > 3 THEN Err("too-large")            \* >= 2^24: beyond any input here
           ELSE LET n == FromBE(SubSeq(s, 2, 1 + ll)) IN
                IF n < 56 THEN Err("noncanonical-size")
                ELSE IF Len(s) < 1 + ll + n THEN Err("short")
                ELSE [ok |-> TRUE, kind |-> IF b0 <= 191 THEN "s" ELSE "l", off |-> 1 + ll, size |-> n]
    ELSE LET n == b0 - 192 IN
         IF Len(s) < 1 + n THEN Err("short") ELSE [ok |-> TRUE, kind |-> "l", off |-> 1, size |-> n]

RECURSIVE Dec(_)
RECURSIVE DecItems(_)
\* decode every value of a list payload
DecItems(p) ==
  IF p = <<>> THEN [ok |-> TRUE, items |-> <<>>]
  ELSE LET d == Dec(p) IN
       IF ~d.ok THEN d
       ELSE LET r == DecItems(d.rest) IN IF ~r.ok THEN r ELSE [ok |-> TRUE, items |-> <<d.term>> \o r.items]
\* decode the first value of s
Dec(s) ==
  LET h == Header(s) IN
  IF ~h.ok THEN h
  ELSE LET content == SubSeq(s, h.off + 1, h.off + h.size)
           rest == SubSeq(s, h.off + h.size + 1, Len(s)) IN
       IF h.kind = "l"
         THEN LET r == DecItems(content) IN IF ~r.ok THEN r ELSE Ok(Lst(r.items), rest)
         ELSE Ok(Str(content), rest)

\* DecodeBytes: exactly one value, nothing after it
DecodeAll(s) == LET d == Dec(s) IN IF d.ok /\ d.rest # <<>> THEN Err("trailing") ELSE d

----------------------------------------------------------------------------
\* typed views (the Go kinds of the consensus records)
IsCanonUint(t, maxBytes) == t.k = "s" /\ Len(t.b) <= maxBytes /\ (t.b = <<>> \/ t.b[1] # 0)
IsBool(t) == t.k = "s" /\ (t.b = <<>> \/ t.b = <<1>>)
IsBytesN(t, n) == t.k = "s" /\ Len(t.b) = n
=============================================================================
