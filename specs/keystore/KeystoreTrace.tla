----------------------------- MODULE KeystoreTrace -----------------------------
(* Trace specification for C20: outcomes of the real keystore on round trips, near-miss passphrases and every
   single-character alteration of stored files. *)
EXTENDS TraceLib
VARIABLES l, X
tvars == <<l, X>>
Ev == Trace[l]
TInit == l = 1 /\ X = [e |-> "none"] /\ InitHW
TStep == l <= NLines /\ l' = l + 1 /\ Consumed(l) /\ X' = Ev
TSpec == TInit /\ [][TStep]_tvars
\* "a key stored under a passphrase is recovered, with that passphrase, as the identical private key and address"
RoundTripT == X.e = "roundtrip" => (X.decrypt = "original" /\ X.getkey = "original" /\ X["import"] = "original")
\* "with any other passphrase unlocking fails with an error"
WrongPassT == X.e = "wrongpass" => (X.decrypt = "error" /\ X.getkey = "error")
\* "after any modification ... it either fails with an error or still yields the original key - it never yields a different
\*  key or an account with a different address" (a panic is neither)
OK(o) == o \in {"error", "original"}
TamperT == X.e = "tamper" => (OK(X.decrypt) /\ OK(X.getkey) /\ (X["import"] = "skipped" \/ OK(X["import"])))
ApiT == X.e = "api" => (X.imported /\ X.wrongUnlockFails /\ X.unlock /\ X.signerIsAccount /\ X.export = "original" /\ X.update
                        /\ X.unlockAfterUpdate /\ X.oldPassFailsAfterUpdate)
=============================================================================
