SPECIFICATION Spec
CONSTANTS
  AddrCheck = TRUE
  Checked = FALSE
INVARIANT Conforms
