SPECIFICATION TSpec
INVARIANTS RoundTripT WrongPassT TamperT ApiT
POSTCONDITION TraceAccepted
CHECK_DEADLOCK FALSE
