------------------------------- MODULE Keystore -------------------------------
(***************************************************************************)
(* C20: the decrypt decision procedure of a version-3 key file with the    *)
(* cryptography abstracted (DESIGN 2.6):                                   *)
(*   DK  = KDF(passphrase, kdf parameters)   injective in all its inputs   *)
(*   MAC = H(DK[16..31], ciphertext)         binds exactly those two       *)
(*   key = Cipher^-1(DK[0..15], iv, ciphertext)  a different iv or         *)
(*                                            ciphertext gives another key *)
(* A tamper class says which stored field was altered (or that the         *)
(* passphrase is a near miss).  Verdict in {"original", "error",           *)
(* "different", "panic"}.                                                  *)
(*   AddrCheck : the decrypted key is compared with the address recorded   *)
(*               in the file (code after fix D9)                           *)
(*   Checked   : KDF parameters are read with type / presence checks       *)
(*               (code after fix D8)                                       *)
(***************************************************************************)
EXTENDS Integers, FiniteSets, TLC
CONSTANTS AddrCheck, Checked

Tampers == {"none", "passphrase", "ciphertext", "mac", "salt", "iv", "kdf-n", "kdf-r", "kdf-p", "kdf-c", "dklen-small", "dklen-large",
            "kdf-name", "cipher-name", "version", "address", "id", "param-key-renamed", "iv-key-renamed", "iv-length"}

\* what the MAC comparison sees
DKChanged(t) == t \in {"passphrase", "salt", "kdf-n", "kdf-r", "kdf-p", "kdf-c"}
MacInputChanged(t) == DKChanged(t) \/ t = "ciphertext"

Verdict(t) ==
  IF t \in {"version", "cipher-name", "kdf-name"} THEN "error"                   \* unsupported
  ELSE IF t \in {"param-key-renamed", "dklen-small"} THEN (IF Checked THEN "error" ELSE "panic")
  ELSE IF t \in {"iv-key-renamed", "iv-length"} THEN (IF Checked THEN "error" ELSE "panic")
  ELSE IF t = "mac" \/ MacInputChanged(t) THEN "error"                          \* MAC mismatch, before any decryption
  ELSE IF t = "iv" THEN (IF AddrCheck THEN "error" ELSE "different")            \* the MAC does not cover the iv
  ELSE IF t = "address" THEN (IF AddrCheck THEN "error" ELSE "original")
  ELSE "original"                                                               \* none, id, dklen-large (the derived key is a prefix)

\* "with any other passphrase unlocking fails with an error; after any modification of the stored ciphertext, MAC, salt, IV or
\*  key-derivation parameters it either fails with an error or still yields the original key - it never yields a different key"
Allowed(t) == IF t = "none" THEN {"original"} ELSE IF t = "passphrase" THEN {"error"} ELSE {"error", "original"}

VARIABLE t
Init == t \in Tampers
Next == UNCHANGED t
Spec == Init /\ [][Next]_t
Conforms == Verdict(t) \in Allowed(t)
=============================================================================
