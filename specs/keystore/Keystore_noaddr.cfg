SPECIFICATION Spec
CONSTANTS
  AddrCheck = FALSE
  Checked = TRUE
INVARIANT Conforms
