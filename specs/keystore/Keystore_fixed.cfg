SPECIFICATION Spec
CONSTANTS
  AddrCheck = TRUE
  Checked = TRUE
INVARIANT Conforms
