SPECIFICATION GSpec
CONSTANTS MaxGen = 12 PointerCheck = TRUE GenDepth = 16
INVARIANTS Emit
CHECK_DEADLOCK FALSE
