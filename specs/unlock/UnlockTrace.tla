----------------------------- MODULE UnlockTrace -----------------------------
(* Trace validation of the real KeyStore against UnlockState.tla.  "step" events: the driver made the call / released the
   goroutine the script names and recorded whether SignHash succeeds and which unlock generation the map holds; the trace spec
   takes the same action in the model and demands the same.  "rt" events (no step point installed, real timers): a timed
   unlock is never seen locked before its time, is seen locked eventually, and does not end a later indefinite unlock. *)
EXTENDS UnlockState, TraceLib
VARIABLES l, obs
tvars == <<vars, l, obs>>
Ev == Trace[l]
IsEv(op) == l <= NLines /\ Ev.op = op /\ l' = l + 1 /\ Consumed(l) /\ obs' = Ev
TInit == Init /\ l = 1 /\ obs = [op |-> "none"] /\ InitHW
TReset == IsEv("reset") /\ entry' = 0 /\ kind' = <<>> /\ aborted' = {} /\ timers' = {} /\ lockers' = <<>> /\ ngen' = 0 /\ ncall' = 0
          /\ last' = [a |-> "init", g |-> 0, removed |-> 0]
TNext == \/ TReset
         \/ IsEv("unlock") /\ Unlock(Ev.timed)
         \/ IsEv("unlockbad") /\ UnlockBad
         \/ IsEv("lockread") /\ LockRead
         \/ IsEv("timerfire") /\ TimerFire(Ev.g)
         \/ IsEv("lockexpire") /\ LockExpire(Ev.c)
         \/ IsEv("rt") /\ UNCHANGED vars
TSpec == TInit /\ [][TNext]_tvars

Step == obs.op \notin {"none", "reset", "rt"}
\* the real key store can sign exactly when the model's map holds an entry, and holds the same generation
ConformsT == Step => (obs.sign = CanSign /\ obs.entry = entry)
\* a wrong passphrase is refused, a right one accepted; Lock never fails
AnswersT == Step => (obs.err = (obs.op = "unlockbad"))
NoWedgeT == obs.op \notin {"none", "reset"} => ~obs.wedged
\* real timers: not before its time, eventually, and never a later indefinite unlock
RtNotEarlyT == obs.op = "rt" => (obs.lockedAtMs < 0 \/ obs.lockedAtMs >= obs.dMs)
RtExpiresT == (obs.op = "rt" /\ obs.kind = "timed") => obs.lockedAtMs >= 0
RtIndefStaysT == (obs.op = "rt" /\ obs.kind = "timed-then-indef") => obs.lockedAtMs < 0
=============================================================================
