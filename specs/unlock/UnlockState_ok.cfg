SPECIFICATION Spec
CONSTANTS MaxGen = 4 PointerCheck = TRUE
INVARIANTS TypeOK OnlyOwnExpiry IndefOnlyByLock TimedHasTimer
CHECK_DEADLOCK FALSE
