INIT IndInit
NEXT Next
CONSTANTS MaxGen = 4 PointerCheck = TRUE
INVARIANT IndInv
