------------------------------ MODULE UnlockGen ------------------------------
(* Direction A for UnlockState.tla: behaviours with a history variable, printed as JSON and replayed on a real KeyStore whose
   expire goroutines are held at the step point (build tag verif) until the script lets them take the mutex.  The abort
   branches (TimerQuit, LockQuit) cannot be forced from outside and are left to the model. *)
EXTENDS UnlockState, Json, TLC, Sequences
CONSTANT GenDepth
VARIABLE h
gvars == <<vars, h>>
E == [op |-> "", g |-> 0, c |-> 0, timed |-> FALSE]
GInit == Init /\ h = <<>>
GNext == /\ Len(h) < GenDepth
         /\ \/ Unlock(TRUE) /\ h' = Append(h, [E EXCEPT !.op = "unlock", !.timed = TRUE])
            \/ Unlock(FALSE) /\ h' = Append(h, [E EXCEPT !.op = "unlock"])
            \/ UnlockBad /\ h' = Append(h, [E EXCEPT !.op = "unlockbad"])
            \/ LockRead /\ h' = Append(h, [E EXCEPT !.op = "lockread", !.c = ncall + 1])
            \/ \E g \in timers : TimerFire(g) /\ h' = Append(h, [E EXCEPT !.op = "timerfire", !.g = g])
            \/ \E c \in DOMAIN lockers : LockExpire(c) /\ h' = Append(h, [E EXCEPT !.op = "lockexpire", !.c = c])
GSpec == GInit /\ [][GNext]_gvars
Emit == Len(h) < GenDepth \/ PrintT(<<"GEN", ToJson([ops |-> h])>>)
=============================================================================
