INIT IndInit
NEXT Next
CONSTANTS MaxGen = 4 PointerCheck = FALSE
INVARIANT IndInv
