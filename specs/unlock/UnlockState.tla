----------------------------- MODULE UnlockState -----------------------------
(***************************************************************************)
(* Unlocking and locking one account in the keystore                        *)
(* (aqua/accounts/keystore/keystore.go: Unlock, TimedUnlock, Lock, expire,  *)
(* SignHash).  Beyond the listed properties (it completes C18/C20: WHEN a   *)
(* key can sign).                                                           *)
(*                                                                         *)
(* The map `unlocked` holds at most one entry per address; every successful *)
(* unlock stores a NEW entry (a generation number here, a fresh pointer in  *)
(* the code).  A timed entry has an expire goroutine: it waits for its      *)
(* timer or for its abort channel, and after the timer it takes the mutex   *)
(* and removes the entry - only if the map still holds ITS entry (pointer   *)
(* equality).  Lock reads the entry under the mutex, releases the mutex,    *)
(* and runs the same expire routine with a zero timer.  Every critical      *)
(* section under KeyStore.mu is one action.                                 *)
(***************************************************************************)
EXTENDS Naturals, FiniteSets

\* The @type comments are for Apalache (UnlockStateInd.tla: inductive invariant); TLC ignores them.
CONSTANTS
          \* @type: Int;
          MaxGen,        \* bound on unlock operations per behaviour
          \* @type: Bool;
          PointerCheck   \* TRUE: as the code; FALSE: expire removes whatever entry the map holds (must fail)

VARIABLES
          \* @type: Int;
          entry,         \* 0 = locked, g > 0 = the entry of generation g
          \* @type: Int -> Str;
          kind,          \* function: generation -> "indef" | "timed"
          \* @type: Set(Int);
          aborted,       \* set of generations whose abort channel is closed
          \* @type: Set(Int);
          timers,        \* set of generations whose expire goroutine still runs
          \* @type: Int -> Int;
          lockers,       \* bag of Lock calls between reading the entry and expiring it: function call number -> generation read
          \* @type: Int;
          ngen,
          \* @type: Int;
          ncall,
          \* @type: {a: Str, g: Int, removed: Int};
          last           \* what the last step did: [a, g, removed]
vars == <<entry, kind, aborted, timers, lockers, ngen, ncall, last>>

\* the empty maps as functions over the empty set (equal to <<>> in TLC; typable for Apalache)
NoKind == [x \in {} |-> "indef"]
NoLockers == [x \in {} |-> 0]
Init == /\ entry = 0 /\ kind = NoKind /\ aborted = {} /\ timers = {} /\ lockers = NoLockers /\ ngen = 0 /\ ncall = 0
        /\ last = [a |-> "init", g |-> 0, removed |-> 0]

\* @type: (a -> b, a, b) => (a -> b);
Put(f, k, v) == [x \in (DOMAIN f) \cup {k} |-> IF x = k THEN v ELSE f[x]]
\* @type: (a -> b, a) => (a -> b);
Drop1(f, k) == [x \in (DOMAIN f) \ {k} |-> f[x]]

\* TimedUnlock(a, pass, timeout) with the right passphrase; timeout = 0 is Unlock
Unlock(timed) ==
  /\ ngen < MaxGen
  /\ IF entry # 0 /\ kind[entry] = "indef"
     THEN \* "unlocked indefinitely, so unlocking it with a timeout would be confusing": nothing changes
          /\ last' = [a |-> "unlock-noop", g |-> entry, removed |-> 0]
          /\ UNCHANGED <<entry, kind, aborted, timers, ngen>>
     ELSE LET g == ngen + 1 IN
          /\ aborted' = IF entry # 0 THEN aborted \cup {entry} ELSE aborted
          /\ entry' = g /\ ngen' = g
          /\ kind' = Put(kind, g, IF timed THEN "timed" ELSE "indef")
          /\ timers' = IF timed THEN timers \cup {g} ELSE timers
          /\ last' = [a |-> IF timed THEN "timedunlock" ELSE "unlock", g |-> g, removed |-> 0]
  /\ UNCHANGED <<lockers, ncall>>

\* a wrong passphrase: getDecryptedKey fails before the mutex is taken
UnlockBad == /\ last' = [a |-> "unlock-bad", g |-> 0, removed |-> 0]
             /\ UNCHANGED <<entry, kind, aborted, timers, lockers, ngen, ncall>>

\* the expire goroutine of generation g sees its abort channel closed
TimerQuit(g) == /\ g \in timers /\ g \in aborted /\ timers' = timers \ {g}
                /\ last' = [a |-> "timerquit", g |-> g, removed |-> 0]
                /\ UNCHANGED <<entry, kind, aborted, lockers, ngen, ncall>>

\* its timer fired (possible even when aborted: select picks any ready case); it takes the mutex
TimerFire(g) ==
  /\ g \in timers /\ timers' = timers \ {g}
  /\ LET rm == entry # 0 /\ (entry = g \/ ~PointerCheck) IN
     /\ entry' = IF rm THEN 0 ELSE entry
     /\ last' = [a |-> "timerfire", g |-> g, removed |-> IF rm THEN entry ELSE 0]
  /\ UNCHANGED <<kind, aborted, lockers, ngen, ncall>>

\* Lock(addr): first critical section - read the entry
LockRead ==
  /\ ncall < MaxGen
  /\ ncall' = ncall + 1
  /\ lockers' = IF entry # 0 THEN Put(lockers, ncall + 1, entry) ELSE lockers
  /\ last' = [a |-> IF entry # 0 THEN "lockread" ELSE "lock-noop", g |-> entry, removed |-> 0]
  /\ UNCHANGED <<entry, kind, aborted, timers, ngen>>

\* Lock(addr): expire(addr, u, 0) - the abort case is possible only for a timed entry whose channel is closed
LockQuit(c) == /\ c \in DOMAIN lockers /\ lockers[c] \in aborted /\ kind[lockers[c]] = "timed"
               /\ lockers' = Drop1(lockers, c)
               /\ last' = [a |-> "lockquit", g |-> lockers[c], removed |-> 0]
               /\ UNCHANGED <<entry, kind, aborted, timers, ngen, ncall>>
LockExpire(c) ==
  /\ c \in DOMAIN lockers
  /\ LET u == lockers[c]
         rm == entry # 0 /\ (entry = u \/ ~PointerCheck) IN
     /\ entry' = IF rm THEN 0 ELSE entry
     /\ last' = [a |-> "lockexpire", g |-> u, removed |-> IF rm THEN entry ELSE 0]
  /\ lockers' = Drop1(lockers, c)
  /\ UNCHANGED <<kind, aborted, timers, ngen, ncall>>

Next == \/ Unlock(TRUE) \/ Unlock(FALSE) \/ UnlockBad \/ LockRead
        \/ \E g \in timers : TimerQuit(g) \/ TimerFire(g)
        \/ \E c \in DOMAIN lockers : LockQuit(c) \/ LockExpire(c)
Spec == Init /\ [][Next]_vars

----------------------------------------------------------------------------
CanSign == entry # 0           \* SignHash succeeds iff the map holds an entry

\* an entry is removed only by its own timer or by a Lock call that read it:
\* a later unlock is never undone by the timer of an earlier one, an indefinite unlock only ever by Lock
OnlyOwnExpiry == last.removed # 0 => last.removed = last.g
IndefOnlyByLock == (last.removed # 0 /\ kind[last.removed] = "indef") => last.a = "lockexpire"
\* a wrong passphrase changes nothing (by construction of UnlockBad; kept for the trace)
\* an expire goroutine that is still running belongs to a timed generation
TypeOK == /\ entry \in 0..MaxGen /\ timers \subseteq DOMAIN kind /\ \A g \in timers : kind[g] = "timed"
          /\ (entry # 0 => entry \in DOMAIN kind)
\* a timed entry in the map always has its goroutine: it WILL expire
TimedHasTimer == (entry # 0 /\ kind[entry] = "timed") => entry \in timers
=============================================================================
