SPECIFICATION TSpec
CONSTANTS MaxGen = 1000000 PointerCheck = TRUE
INVARIANTS ConformsT AnswersT NoWedgeT RtNotEarlyT RtExpiresT RtIndefStaysT OnlyOwnExpiry IndefOnlyByLock TimedHasTimer
POSTCONDITION TraceAccepted
CHECK_DEADLOCK FALSE
