SPECIFICATION Spec
CONSTANTS MaxGen = 4 PointerCheck = FALSE
INVARIANTS TypeOK OnlyOwnExpiry IndefOnlyByLock TimedHasTimer
CHECK_DEADLOCK FALSE
