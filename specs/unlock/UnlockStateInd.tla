--------------------------- MODULE UnlockStateInd ---------------------------
(***************************************************************************)
(* Inductive invariant of UnlockState.tla, discharged by Apalache:         *)
(*   Init => IndInv                  (--init=Init    --length=0)           *)
(*   IndInv /\ Next => IndInv'       (--init=IndInit --length=1)           *)
(* IndInit is "any state satisfying IndInv": the step is checked from      *)
(* every such state, reachable within TLC's bound or not, so MaxGen only   *)
(* bounds the size of the maps, not the history that led to the state.     *)
(* What IndInv adds to the listed invariants: the entry in the map is      *)
(* never an aborted one (an abort channel is closed only when the entry is *)
(* replaced), generations are 1..ngen, Lock calls hold generations.        *)
(***************************************************************************)
EXTENDS UnlockState

Gens == {g \in 1..MaxGen : g <= ngen}
IndInv == /\ ngen \in 0..MaxGen /\ ncall \in 0..MaxGen /\ entry >= 0 /\ entry <= ngen
          /\ DOMAIN kind = Gens /\ \A g \in Gens : kind[g] \in {"indef", "timed"}
          /\ aborted \subseteq Gens /\ (entry # 0 => entry \notin aborted)
          /\ timers \subseteq Gens /\ \A g \in timers : kind[g] = "timed"
          /\ (\A c \in DOMAIN lockers : c >= 1 /\ c <= ncall) /\ \A c \in DOMAIN lockers : lockers[c] \in Gens
          /\ last.removed >= 0 /\ last.removed <= ngen /\ last.g >= 0 /\ last.g <= ngen
          /\ TimedHasTimer /\ OnlyOwnExpiry /\ IndefOnlyByLock

Actions == {"init", "unlock-noop", "timedunlock", "unlock", "unlock-bad", "timerquit", "timerfire", "lockread", "lock-noop", "lockquit", "lockexpire"}
IndInit == /\ ngen \in 0..MaxGen /\ ncall \in 0..MaxGen /\ entry \in 0..MaxGen
           /\ \E D \in SUBSET (1..MaxGen) : kind \in [D -> {"indef", "timed"}]
           /\ aborted \in SUBSET (1..MaxGen) /\ timers \in SUBSET (1..MaxGen)
           /\ \E D \in SUBSET (1..MaxGen) : lockers \in [D -> 1..MaxGen]
           /\ last \in [a : Actions, g : 0..MaxGen, removed : 0..MaxGen]
           /\ IndInv
=============================================================================
