SPECIFICATION Spec
CONSTANTS
  Addr <- A2
  MaxVal = 1
  MaxOps = 6
  NoJournalFor = "none"
INVARIANTS RevertExact
