SPECIFICATION Spec
CONSTANTS
  Addr <- A2
  MaxVal = 1
  MaxOps = 5
  NoJournalFor = "none"
INVARIANTS RevertExact
