---------------------------- MODULE StateJournal ----------------------------
(***************************************************************************)
(* L2 model of core/state/journal.go: every mutator appends an undo record *)
(* and RevertToSnapshot(id) replays the journal backwards down to the      *)
(* revision's journal index.  Refinement check: the journal machine        *)
(* restores exactly the world a snapshot-COPY machine would restore, for   *)
(* any nesting of snapshots and any interleaving of operations.            *)
(* NoJournalFor names one mutator whose journal entry is (wrongly) omitted *)
(* - a seeded defect RevertExact must catch.                               *)
(***************************************************************************)
EXTENDS Integers, Sequences, FiniteSets, TLC
CONSTANTS Addr, MaxVal, MaxOps, NoJournalFor
VARIABLES bal, nonce, exists, slot, refund, journal, revs, copies, nops, ok
vars == <<bal, nonce, exists, slot, refund, journal, revs, copies, nops, ok>>

World == [bal |-> bal, nonce |-> nonce, exists |-> exists, slot |-> slot, refund |-> refund]
Init == /\ bal = [a \in Addr |-> 0] /\ nonce = [a \in Addr |-> 0] /\ exists = [a \in Addr |-> FALSE]
        /\ slot = [a \in Addr |-> 0] /\ refund = 0 /\ journal = <<>> /\ revs = <<>> /\ copies = <<>> /\ nops = 0 /\ ok = TRUE

J(kind, a, prev) == IF kind = NoJournalFor THEN journal ELSE Append(journal, [k |-> kind, a |-> a, prev |-> prev])
Tick == nops < MaxOps /\ nops' = nops + 1
\* GetOrNewStateObject: creating the object is journalled too
Touch(a) == IF exists[a] THEN journal ELSE Append(journal, [k |-> "create", a |-> a, prev |-> 0])

SetBalance(a, v) == /\ Tick /\ bal' = [bal EXCEPT ![a] = v] /\ exists' = [exists EXCEPT ![a] = TRUE]
                    /\ journal' = (IF "balance" = NoJournalFor THEN Touch(a) ELSE Append(Touch(a), [k |-> "balance", a |-> a, prev |-> bal[a]]))
                    /\ UNCHANGED <<nonce, slot, refund, revs, copies, ok>>
SetNonce(a, v) == /\ Tick /\ nonce' = [nonce EXCEPT ![a] = v] /\ exists' = [exists EXCEPT ![a] = TRUE]
                  /\ journal' = (IF "nonce" = NoJournalFor THEN Touch(a) ELSE Append(Touch(a), [k |-> "nonce", a |-> a, prev |-> nonce[a]]))
                  /\ UNCHANGED <<bal, slot, refund, revs, copies, ok>>
SetState(a, v) == /\ Tick /\ slot' = [slot EXCEPT ![a] = v] /\ exists' = [exists EXCEPT ![a] = TRUE]
                  /\ journal' = (IF "storage" = NoJournalFor THEN Touch(a) ELSE Append(Touch(a), [k |-> "storage", a |-> a, prev |-> slot[a]]))
                  /\ UNCHANGED <<bal, nonce, refund, revs, copies, ok>>
AddRefund(v) == /\ Tick /\ refund' = refund + v /\ journal' = J("refund", CHOOSE a \in Addr : TRUE, refund)
                /\ UNCHANGED <<bal, nonce, exists, slot, revs, copies, ok>>
Snapshot == /\ Tick /\ revs' = Append(revs, Len(journal)) /\ copies' = Append(copies, World)
            /\ UNCHANGED <<bal, nonce, exists, slot, refund, journal, ok>>

RECURSIVE Undo(_, _, _)
Undo(w, j, downTo) ==
  IF Len(j) <= downTo THEN w
  ELSE LET e == j[Len(j)]
           w1 == IF e.k = "balance" THEN [w EXCEPT !.bal[e.a] = e.prev]
                 ELSE IF e.k = "nonce" THEN [w EXCEPT !.nonce[e.a] = e.prev]
                 ELSE IF e.k = "storage" THEN [w EXCEPT !.slot[e.a] = e.prev]
                 ELSE IF e.k = "refund" THEN [w EXCEPT !.refund = e.prev]
                 ELSE [w EXCEPT !.exists[e.a] = FALSE]                       \* createObjectChange
       IN Undo(w1, SubSeq(j, 1, Len(j) - 1), downTo)

Revert(i) == /\ Tick /\ i \in 1..Len(revs)
             /\ LET w == Undo(World, journal, revs[i]) IN
                  /\ bal' = w.bal /\ nonce' = w.nonce /\ exists' = w.exists /\ slot' = w.slot /\ refund' = w.refund
                  /\ ok' = (w = copies[i])                                   \* refinement of the snapshot-copy machine
             /\ journal' = SubSeq(journal, 1, revs[i])
             /\ revs' = SubSeq(revs, 1, i - 1) /\ copies' = SubSeq(copies, 1, i - 1)

Next == \/ \E a \in Addr, v \in 0..MaxVal : SetBalance(a, v) \/ SetNonce(a, v) \/ SetState(a, v)
        \/ \E v \in 1..MaxVal : AddRefund(v)
        \/ Snapshot \/ \E i \in 1..3 : Revert(i)
        \/ (nops = MaxOps /\ UNCHANGED vars)
Spec == Init /\ [][Next]_vars
RevertExact == ok
=============================================================================
