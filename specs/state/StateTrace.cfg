SPECIFICATION TSpec
INVARIANTS RevertExactT RootCanonicalT CodeHashT ReadBackT NoSuicidedT KnownFindingsT
POSTCONDITION TraceAccepted
CHECK_DEADLOCK FALSE
