SPECIFICATION TSpec
INVARIANTS RevertExactT RootCanonicalT CodeHashT ReadBackT NoSuicidedT KnownFindingsT HistoryIndependentT TwinIsolatedT
POSTCONDITION TraceAccepted
CHECK_DEADLOCK FALSE
