SPECIFICATION TSpec
INVARIANTS RevertExactT RootCanonicalT CodeHashT ReadBackT NoSuicidedT
POSTCONDITION TraceAccepted
CHECK_DEADLOCK FALSE
