------------------------------ MODULE StateTrace ------------------------------
(***************************************************************************)
(* Trace specification for C09.  Observations are complete getter          *)
(* read-outs of the address x slot universe.                               *)
(*  RevertExactT    the observation after RevertToSnapshot(id) equals the  *)
(*                  observation recorded when snapshot id was taken        *)
(*  RootCanonicalT  at IntermediateRoot / Commit the reported root is the  *)
(*                  Merkle-Patricia root (Trie.tla over RLP.tla) of the    *)
(*                  account records as read back: [nonce, balance,         *)
(*                  storage root, code hash] under keccak(address), each   *)
(*                  storage root being the root of the canonical storage   *)
(*                  trie of the non-zero slots                             *)
(*  ReadBackT       a Copy and a state reopened from the root read back    *)
(*                  identically                                            *)
(***************************************************************************)
EXTENDS TraceLib, Trie
VARIABLES l, X, snaps, K, want
tvars == <<l, X, snaps, K, want>>
Ev == Trace[l]
None == [none |-> TRUE]

TInit == l = 1 /\ X = [e |-> "none"] /\ snaps = <<>> /\ K = <<>> /\ want = None /\ InitHW
Adv == l <= NLines /\ l' = l + 1 /\ Consumed(l) /\ X' = Ev
TKeccak == Adv /\ Ev.e = "keccak" /\ K' = Ev /\ UNCHANGED snaps /\ want' = None
TNew == Adv /\ Ev.e = "newstate" /\ snaps' = <<>> /\ UNCHANGED K /\ want' = None
TOp == Adv /\ Ev.e = "op" /\ UNCHANGED <<snaps, K>> /\ want' = None
TSnap == Adv /\ Ev.e = "snapshot" /\ UNCHANGED K /\ want' = None
         /\ snaps' = [i \in (DOMAIN snaps) \cup {Ev.id} |-> IF i = Ev.id THEN Ev.obs ELSE snaps[i]]
\* later revisions die with the revert; the observation recorded for the revision is what must be read back
TRevert == Adv /\ Ev.e = "revert" /\ UNCHANGED K
           /\ want' = (IF Ev.id \in DOMAIN snaps THEN snaps[Ev.id] ELSE [missing |-> Ev.id])
           /\ snaps' = [i \in {j \in DOMAIN snaps : j < Ev.id} |-> snaps[i]]
\* Finalise clears the journal: no revision survives a root computation
TRoot == Adv /\ Ev.e = "root" /\ snaps' = <<>> /\ UNCHANGED K /\ want' = None
TSpec == TInit /\ [][TKeccak \/ TNew \/ TOp \/ TSnap \/ TRevert \/ TRoot]_tvars

----------------------------------------------------------------------------
\* "reverting to a snapshot restores every account's balance, nonce, code, storage and existence, the refund
\*  counter and the log list to exactly what they were when the snapshot was taken"
RevertExactT == X.e = "revert" => X.obs = want

EmptyCodeHash == <<197, 210, 70, 1, 134, 247, 35, 60, 146, 126, 125, 178, 220, 199, 3, 192, 229, 0, 182, 83, 202, 130, 39, 59, 123, 250, 216, 4, 93, 133, 164, 112>>
Store == [h \in {X.dump[i][1] : i \in 1..Len(X.dump)} |-> (X.dump[CHOOSE i \in 1..Len(X.dump) : X.dump[i][1] = h][2])]

StorageContent(ac) == {<<Nibbles(K.keys[s]), Enc(Str(ac.storage[s]))>> : s \in {x \in DOMAIN ac.storage : ac.storage[x] # <<>>}}
StorageRoot(ac, D) == IF StorageContent(ac) = {} THEN EmptyRoot ELSE HashOf(EncNode(Build(StorageContent(ac)), D), D)
CodeHashOf(ac) == IF ac.code = <<>> THEN EmptyCodeHash
                  ELSE K.codeHashes[CHOOSE i \in 1..Len(K.codes) : K.codes[i] = ac.code]
AccountRLP(ac, D) == Enc(Lst(<<Str(BE(ac.nonce)), Str(ac.bal), Str(StorageRoot(ac, D)), Str(CodeHashOf(ac))>>))
WorldContent(o, D) == {<<Nibbles(K.keys[a]), AccountRLP(o.accts[a], D)>> : a \in {x \in DOMAIN o.accts : o.accts[x].exist}}

IsRoot == X.e = "root"
\* "the state root depends only on the resulting set of accounts and their contents ... equals the Merkle-Patricia
\*  root the specification defines for that content"
RootCanonicalT == IsRoot => (X.keccakOK /\ RootIsCanonical(X.root, Store, WorldContent(X.obs, Store)))
\* the code hash getter is the hash of the code getter
CodeHashT == IsRoot => \A a \in DOMAIN X.obs.accts :
               X.obs.accts[a].exist => X.obs.accts[a].codeHash = CodeHashOf(X.obs.accts[a])
\* "a state reopened from a committed root (or taken by Copy) reads back identically"
\* (refund counter and logs are transaction-scoped and not part of the committed state)
ReadBackT == IsRoot => /\ X.reopenErr = ""
                       /\ X.reopenObs.accts = X.obs.accts
                       /\ X.copyObs = X.obs
\* suicided accounts are gone and, when empty accounts are deleted, no empty account is left in the committed world
\* among those the root computation touched (existence in the committed world implies non-suicided)
NoSuicidedT == IsRoot => \A a \in DOMAIN X.obs.accts : X.obs.accts[a].exist => ~X.obs.accts[a].suicided
=============================================================================
