------------------------------ MODULE StateTrace ------------------------------
(***************************************************************************)
(* Trace specification for C09.  Observations are complete getter          *)
(* read-outs of the address x slot universe.                               *)
(*  RevertExactT    the observation after RevertToSnapshot(id) equals the  *)
(*                  observation recorded when snapshot id was taken        *)
(*  RootCanonicalT  at IntermediateRoot / Commit the reported root is the  *)
(*                  Merkle-Patricia root (Trie.tla over RLP.tla) of the    *)
(*                  account records as read back: [nonce, balance,         *)
(*                  storage root, code hash] under keccak(address), each   *)
(*                  storage root being the root of the canonical storage   *)
(*                  trie of the non-zero slots                             *)
(*  ReadBackT       a Copy and a state reopened from the root read back    *)
(*                  identically                                            *)
(***************************************************************************)
EXTENDS TraceLib, Trie
VARIABLES l, X, snaps, K, want,
          t, snapT, dirtied, touches, lost, Xprev     \* bookkeeping for the known finding D14 (see below)
tvars == <<l, X, snaps, K, want, t, snapT, dirtied, touches, lost, Xprev>>
Ev == Trace[l]
None == [none |-> TRUE]

TInit == /\ l = 1 /\ X = [e |-> "none"] /\ snaps = <<>> /\ K = <<>> /\ want = None /\ InitHW
         /\ t = 0 /\ snapT = <<>> /\ dirtied = {} /\ touches = {} /\ lost = {} /\ Xprev = [e |-> "none"]
Adv == l <= NLines /\ l' = l + 1 /\ Consumed(l) /\ X' = Ev /\ Xprev' = X /\ t' = t + 1
Fresh == snapT' = <<>> /\ dirtied' = {} /\ touches' = {} /\ lost' = {}
\* the driver continues on a fresh StateDB instance after a commit: the bookkeeping of the old instance is dropped when
\* the NEXT event is consumed (the root event itself is still judged with it)
AfterCommit == X.e = "root" /\ X.kind = "commit"
BSet(v) == IF AfterCommit THEN {} ELSE v
BFun(v) == IF AfterCommit THEN <<>> ELSE v
TKeccak == Adv /\ Ev.e = "keccak" /\ K' = Ev /\ UNCHANGED snaps /\ want' = None /\ Fresh
TNew == Adv /\ Ev.e = "newstate" /\ snaps' = <<>> /\ UNCHANGED K /\ want' = None /\ Fresh
\* D14 bookkeeping: a zero-value AddBalance on an existing EMPTY account is a "touch"; if the account had not been
\* modified before in this StateDB instance the touch consumes its one-shot dirty callback
IsCleanTouch == Ev.op = "addbalance" /\ Ev.v = 0 /\ Ev.a \notin BSet(dirtied) /\ "obs" \in DOMAIN X
                /\ X.obs.accts[Ev.a].exist /\ X.obs.accts[Ev.a].empty /\ Ev.a # "a2"       \* a2 = RIPEMD precompile: exempt in the code
TOp == /\ Adv /\ Ev.e = "op" /\ UNCHANGED <<snaps, K>> /\ want' = None
       /\ snapT' = BFun(snapT) /\ lost' = BSet(lost)
       /\ touches' = IF IsCleanTouch THEN BSet(touches) \cup {<<Ev.a, t>>} ELSE BSet(touches)
       /\ dirtied' = IF Ev.op \in {"addlog"} \/ (Ev.op = "subbalance" /\ X.obs.accts[Ev.a].bal = <<>>) THEN BSet(dirtied) ELSE BSet(dirtied) \cup {Ev.a}
TSnap == Adv /\ Ev.e = "snapshot" /\ UNCHANGED K /\ want' = None
         /\ dirtied' = BSet(dirtied) /\ touches' = BSet(touches) /\ lost' = BSet(lost)
         /\ snapT' = [i \in (DOMAIN BFun(snapT)) \cup {Ev.id} |-> IF i = Ev.id THEN t ELSE snapT[i]]
         /\ snaps' = [i \in (DOMAIN snaps) \cup {Ev.id} |-> IF i = Ev.id THEN Ev.obs ELSE snaps[i]]
\* later revisions die with the revert; the observation recorded for the revision is what must be read back
TRevert == Adv /\ Ev.e = "revert" /\ UNCHANGED <<K, dirtied>>
           \* touches made after the revision are undone: touchChange.undo removes the account from the dirty set although
           \* its dirty callback stays consumed - every later change of that account is lost at commit (D14)
           /\ LET since == IF Ev.id \in DOMAIN snapT THEN snapT[Ev.id] ELSE 0
                  undone == {p \in touches : p[2] >= since} IN
                /\ lost' = lost \cup {p[1] : p \in undone}
                /\ touches' = touches \ undone
           /\ snapT' = [i \in {j \in DOMAIN snapT : j < Ev.id} |-> snapT[i]]
           /\ want' = (IF Ev.id \in DOMAIN snaps THEN snaps[Ev.id] ELSE [missing |-> Ev.id])
           /\ snaps' = [i \in {j \in DOMAIN snaps : j < Ev.id} |-> snaps[i]]
\* Finalise clears the journal: no revision survives a root computation
TRoot == /\ Adv /\ Ev.e = "root" /\ snaps' = <<>> /\ UNCHANGED K /\ want' = None /\ snapT' = <<>>
         /\ dirtied' = BSet(dirtied) /\ touches' = BSet(touches) /\ lost' = BSet(lost)
TSpec == TInit /\ [][TKeccak \/ TNew \/ TOp \/ TSnap \/ TRevert \/ TRoot]_tvars

----------------------------------------------------------------------------
\* "reverting to a snapshot restores every account's balance, nonce, code, storage and existence, the refund
\*  counter and the log list to exactly what they were when the snapshot was taken"
RevertExactT == X.e = "revert" => X.obs = want

EmptyCodeHash == <<197, 210, 70, 1, 134, 247, 35, 60, 146, 126, 125, 178, 220, 199, 3, 192, 229, 0, 182, 83, 202, 130, 39, 59, 123, 250, 216, 4, 93, 133, 164, 112>>
Store == [h \in {X.dump[i][1] : i \in 1..Len(X.dump)} |-> (X.dump[CHOOSE i \in 1..Len(X.dump) : X.dump[i][1] = h][2])]

StorageContent(ac) == {<<Nibbles(K.keys[s]), Enc(Str(ac.storage[s]))>> : s \in {x \in DOMAIN ac.storage : ac.storage[x] # <<>>}}
StorageRoot(ac, D) == IF StorageContent(ac) = {} THEN EmptyRoot ELSE HashOf(EncNode(Build(StorageContent(ac)), D), D)
CodeHashOf(ac) == IF ac.code = <<>> THEN EmptyCodeHash
                  ELSE K.codeHashes[CHOOSE i \in 1..Len(K.codes) : K.codes[i] = ac.code]
AccountRLP(ac, D) == Enc(Lst(<<Str(BE(ac.nonce)), Str(ac.bal), Str(StorageRoot(ac, D)), Str(CodeHashOf(ac))>>))
WorldContent(o, D) == {<<Nibbles(K.keys[a]), AccountRLP(o.accts[a], D)>> : a \in {x \in DOMAIN o.accts : o.accts[x].exist}}

\* KNOWN FINDING D14 (KNOWN_FINDINGS.json): accounts in `lost` had a zero-value touch reverted; the pinned code no
\* longer tracks them as dirty, so what is committed for them is their state as of the reverted touch, not what the
\* getters show.  For exactly those accounts the committed (reopened) record is accepted in place of the live one.
LostNow == IF X.e = "root" THEN {a \in lost : X.obs.accts[a] # X.reopenObs.accts[a]} ELSE {}
KnownD14 == LostNow # {} /\ PrintT(<<"KNOWN", "D14", l - 1>>)
Patched(o) == [o EXCEPT !.accts = [a \in DOMAIN o.accts |-> IF a \in LostNow THEN X.reopenObs.accts[a] ELSE o.accts[a]]]

IsRoot == X.e = "root"
\* "the state root depends only on the resulting set of accounts and their contents ... equals the Merkle-Patricia
\*  root the specification defines for that content"
RootCanonicalT == IsRoot => (X.keccakOK /\ RootIsCanonical(X.root, Store, WorldContent(Patched(X.obs), Store)))
KnownFindingsT == IsRoot => (KnownD14 \/ TRUE)
\* the code hash getter is the hash of the code getter
CodeHashT == IsRoot => \A a \in (DOMAIN X.obs.accts) \ LostNow :
               X.obs.accts[a].exist => X.obs.accts[a].codeHash = CodeHashOf(X.obs.accts[a])
\* "a state reopened from a committed root (or taken by Copy) reads back identically"
\* (refund counter and logs are transaction-scoped and not part of the committed state)
ReadBackT == IsRoot => /\ X.reopenErr = ""
                       /\ X.reopenObs.accts = Patched(X.obs).accts
                       /\ Patched(X.copyObs).accts = Patched(X.obs).accts
                       /\ X.copyObs.refund = X.obs.refund /\ X.copyObs.nlogs = X.obs.nlogs
\* suicided accounts are gone and, when empty accounts are deleted, no empty account is left in the committed world
\* among those the root computation touched (existence in the committed world implies non-suicided)
\* "The state root depends only on the resulting set of accounts and their contents - never on the order or history": the same
\* mutations interleaved with reads give the same root
HistoryIndependentT == IsRoot => X.shadowRoot = X.root
\* "a state reopened from a committed root ... reads back identically": also when another state opened from the same root through
\* the same database has been modified meanwhile
TwinIsolatedT == (IsRoot /\ X.twin) => (X.twinRootSame /\ X.twinObs = X.reopenObs)

NoSuicidedT == IsRoot => \A a \in (DOMAIN X.obs.accts) \ LostNow : X.obs.accts[a].exist => ~X.obs.accts[a].suicided
=============================================================================
