SPECIFICATION TSpec
INVARIANTS CalcT HeaderT HeaderBatchT HeaderUncleT UnclesT BatchT
POSTCONDITION TraceAccepted
CHECK_DEADLOCK FALSE
