SPECIFICATION Fair
CONSTANTS
  N = 4
  W = 3
  Verdict <- V4
  SealOnly <- S2
  SkipSeal = FALSE
INVARIANTS InOrder BatchEqualsSequential
PROPERTIES AllDelivered
