SPECIFICATION Spec
CONSTANTS
  N = 4
  W = 3
  Verdict <- V4
  SealOnly <- S2
  SkipSeal = TRUE
INVARIANTS InOrder BatchEqualsSequential
