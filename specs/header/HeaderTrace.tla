----------------------------- MODULE HeaderTrace -----------------------------
(* Trace specification for C13: events calc, header, uncles, batch (harness/consensus/aquahash/header_test.go) *)
EXTENDS TraceLib, HeaderRules
VARIABLES l, X
tvars == <<l, X>>
Ev == Trace[l]
TInit == l = 1 /\ X = [e |-> "none"] /\ InitHW
TStep == l <= NLines /\ l' = l + 1 /\ Consumed(l) /\ X' = Ev
TSpec == TInit /\ [][TStep]_tvars

Sched(j) == [hf |-> [n \in 1..9 |-> j.hf[n]], mainnet |-> j.mainnet]

\* the difficulty function itself
CalcT == X.e = "calc" => X.diff = CalcDifficulty(Sched(X.sched), X.time, X.P)
\* "a header is accepted if and only if ..." - through VerifyHeader, through the batch interface, and as an uncle header
HeaderT == X.e = "header" => (X.accepted <=> HeaderAccept(Sched(X.sched), X.now, X.P, X.H, FALSE))
HeaderBatchT == X.e = "header" => (X.batchAccepted <=> HeaderAccept(Sched(X.sched), X.now, X.P, X.H, FALSE))
HeaderUncleT == X.e = "header" => (X.uncleAccepted <=> HeaderAccept(Sched(X.sched), X.now, X.P, X.H, TRUE))
\* "a block's uncles must number at most the fork's maximum, be recent, unique, not ancestors and individually valid"
UnclesT == X.e = "uncles" => (X.panic = "" /\ (X.accepted <=> UnclesAccept(Sched(X.sched), X.num, X.U)))
\* "concurrent batch verification reports the same first failure as one-by-one verification for every worker schedule"
BatchT == X.e = "batch" =>
   /\ Len(X.batch) = X.n /\ \A i \in 1..X.n : X.batch[i] # "TIMEOUT"
   /\ X.firstBatch = X.firstSeq
   /\ (X.firstSeq >= 0 => X.batch[X.firstSeq + 1] = X.seq[X.firstSeq + 1])
   /\ \A i \in 1..X.n : (X.firstSeq < 0 \/ i <= X.firstSeq) => (X.batch[i] = "" /\ X.seq[i] = "")
=============================================================================
