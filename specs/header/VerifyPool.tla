----------------------------- MODULE VerifyPool -----------------------------
(***************************************************************************)
(* L2 model of the dispatcher in Aquahash.VerifyHeaders: an unbuffered     *)
(* `inputs` channel feeding W workers, a `done` channel buffered by W,     *)
(* errors[] written by the workers, the in-order cursor `out` over         *)
(* checked[] and the buffered result channel.  Workers finish in ANY       *)
(* order; the consumer may stop reading (abort) at any time.               *)
(* Property: results are emitted in input order, each exactly once, equal  *)
(* to the per-index verdict; nothing is emitted for an index whose         *)
(* predecessor has not been emitted.                                       *)
(* SkipSeal = TRUE seeds the defect "a worker skips the seal check once    *)
(* any other header has failed" (verdicts then depend on the schedule).    *)
(***************************************************************************)
EXTENDS Integers, Sequences, FiniteSets, TLC
CONSTANTS N, W, Verdict, SealOnly, SkipSeal
\* Verdict : [1..N -> {"ok","bad"}] the verdict of one-by-one verification; SealOnly \subseteq 1..N : bad only by their seal
VARIABLES inNext, working, doneQ, errors, checked, out, emitted, aborted, failedSeen
vars == <<inNext, working, doneQ, errors, checked, out, emitted, aborted, failedSeen>>

Init == /\ inNext = 1 /\ working = {} /\ doneQ = <<>> /\ errors = [i \in 1..N |-> "none"] /\ checked = [i \in 1..N |-> FALSE]
        /\ out = 1 /\ emitted = <<>> /\ aborted = FALSE /\ failedSeen = FALSE

Dispatch ==   \* inputs <- in (a worker is free to take it)
  /\ ~aborted /\ inNext <= N /\ Cardinality(working) < W
  /\ working' = working \cup {inNext} /\ inNext' = inNext + 1
  /\ UNCHANGED <<doneQ, errors, checked, out, emitted, aborted, failedSeen>>

Finish(i) ==  \* a worker completes index i: errors[i] = verifyHeaderWorker(i); done <- i
  /\ i \in working /\ Len(doneQ) < W
  /\ LET v == IF SkipSeal /\ failedSeen /\ i \in SealOnly THEN "ok" ELSE Verdict[i] IN
       /\ errors' = [errors EXCEPT ![i] = v]
       /\ failedSeen' = (failedSeen \/ v = "bad")
  /\ working' = working \ {i} /\ doneQ' = Append(doneQ, i)
  /\ UNCHANGED <<inNext, checked, out, emitted, aborted>>

RECURSIVE Drain(_, _, _)
Drain(ch, o, acc) == IF o <= N /\ ch[o] THEN Drain(ch, o + 1, Append(acc, <<o, errors[o]>>)) ELSE <<o, acc>>
Collect ==    \* index := <-done; emit every verdict that is now in order
  /\ ~aborted /\ doneQ # <<>>
  /\ LET ch == [checked EXCEPT ![Head(doneQ)] = TRUE]
         d == Drain(ch, out, <<>>) IN
       /\ checked' = ch /\ out' = d[1] /\ emitted' = emitted \o d[2]
  /\ doneQ' = Tail(doneQ)
  /\ UNCHANGED <<inNext, working, errors, aborted, failedSeen>>

Abort == ~aborted /\ aborted' = TRUE /\ UNCHANGED <<inNext, working, doneQ, errors, checked, out, emitted, failedSeen>>

Next == Dispatch \/ (\E i \in 1..N : Finish(i)) \/ Collect \/ Abort \/ (out > N /\ UNCHANGED vars) \/ (aborted /\ UNCHANGED vars)
Spec == Init /\ [][Next]_vars
Fair == Spec /\ WF_vars(Dispatch) /\ WF_vars(Collect) /\ \A i \in 1..N : WF_vars(Finish(i))

\* in input order, each once, equal to the one-by-one verdict
InOrder == \A k \in 1..Len(emitted) : emitted[k][1] = k
BatchEqualsSequential == \A k \in 1..Len(emitted) : emitted[k][2] = Verdict[k]
\* without an abort every verdict is eventually delivered
AllDelivered == <>(aborted \/ Len(emitted) = N)
=============================================================================
