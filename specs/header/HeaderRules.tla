----------------------------- MODULE HeaderRules -----------------------------
(***************************************************************************)
(* C13: the header / uncle acceptance rules and the fork-scheduled         *)
(* difficulty formula (consensus/aquahash/difficulty.go, params).          *)
(* Difficulties and gas limits are BigNat limb numbers, heights and times  *)
(* native integers.  A schedule S is [hf : 1..9 -> height or -1 (never),   *)
(* mainnet : BOOLEAN].                                                     *)
(***************************************************************************)
EXTENDS BigNat

IsHF(S, n, h) == S.hf[n] >= 0 /\ S.hf[n] <= h
ForkBlock(S, n, h) == S.hf[n] = h

MinGenesis == FromInt(99999999)
MinHF1 == FromInt(100001792)
MinHF3 == MulSmall(FromInt(309591858), 100)          \* 30,959,185,800
MinHF5 == FromInt(46039386)
MaxB(a, b) == IF Leq(a, b) THEN b ELSE a

\* pre-HF2 formula: parent + parent/2048 * max(1 - dt/10, -99), floored at the network minimum on mainnet
Starting(S, dt, pd, floor) ==
  LET x == 1 - (dt \div 10)
      xc == IF x < -99 THEN -99 ELSE x
      y == DivSmall(pd, 2048)
      v == IF xc >= 0 THEN Add(pd, MulSmall(y, xc)) ELSE Monus(pd, MulSmall(y, 0 - xc))
  IN IF S.mainnet THEN MaxB(v, floor) ELSE v

\* difficulty of the block at height P.num + 1 with timestamp t on parent P
CalcDifficulty(S, t, P) ==
  LET next == P.num + 1
      dt == t - P.time
      min == IF IsHF(S, 5, next) THEN MinHF5 ELSE IF IsHF(S, 3, next) THEN MinHF3 ELSE IF IsHF(S, 1, next) THEN MinHF1 ELSE MinGenesis
      divisor == IF IsHF(S, 8, next) THEN 1024 ELSE IF IsHF(S, 6, next) THEN 128 ELSE IF IsHF(S, 5, next) THEN 16 ELSE 2048
      limit == IF IsHF(S, 6, next) THEN 180 ELSE 240
      adjust == DivSmall(P.diff, divisor)
      simple == LET d == IF dt < limit THEN Add(P.diff, adjust) ELSE Monus(P.diff, adjust) IN MaxB(d, min)
  IN
  IF IsHF(S, 8, next) /\ ForkBlock(S, 8, next) THEN MinHF5                \* reset at the fork blocks
  ELSE IF IsHF(S, 6, next) /\ ForkBlock(S, 6, next) THEN simple
  ELSE IF IsHF(S, 7, next) /\ ForkBlock(S, 7, next) THEN simple
  ELSE IF IsHF(S, 5, next) /\ ForkBlock(S, 5, next) THEN MinHF5
  ELSE IF IsHF(S, 3, next) /\ ForkBlock(S, 3, next) THEN MinHF3
  ELSE IF IsHF(S, 2, next) THEN simple
  ELSE IF IsHF(S, 1, next) /\ ForkBlock(S, 1, next) THEN MinHF1
  ELSE IF IsHF(S, 1, next) THEN Starting(S, dt, P.diff, MinHF1)
  ELSE Starting(S, dt, P.diff, MinGenesis)

MaxGas == <<5807, 7547, 6854, 3720, 922>>             \* 2^63 - 1 = 9,223,372,036,854,775,807
AbsDiff(a, b) == IF Leq(a, b) THEN Sub(b, a) ELSE Sub(a, b)

\* "a header (or uncle header) is accepted if and only if, relative to its parent, ..."
HeaderAccept(S, now, P, H, uncle) ==
  /\ H.extraLen <= 32
  /\ (uncle \/ H.time <= now + 15)
  /\ H.time > P.time
  /\ H.diff = CalcDifficulty(S, H.time, P)
  /\ Leq(H.gasLimit, MaxGas)
  /\ Leq(H.gasUsed, H.gasLimit)
  /\ Lt(AbsDiff(P.gasLimit, H.gasLimit), DivSmall(P.gasLimit, 1024))
  /\ Leq(FromInt(5000), H.gasLimit)
  /\ H.num = P.num + 1

\* "a block's uncles must number at most the fork's maximum (2, then 1 from HF5), be recent, unique, not ancestors and
\*  individually valid"; U[i] = [isAncestor, duplicate, parentGen (0 = its parent is no ancestor, 1 = the block's own parent,
\*  2..7 = an ancestor of that generation), headerValid]
MaxUncles(S, h) == IF IsHF(S, 5, h) THEN 1 ELSE 2
UnclesAccept(S, h, U) ==
  /\ Len(U) <= MaxUncles(S, h)
  /\ \A i \in 1..Len(U) : ~U[i].isAncestor /\ ~U[i].duplicate /\ U[i].parentGen \in 2..7 /\ U[i].headerValid
=============================================================================
