SPECIFICATION TSpec
INVARIANTS PrimitivesT SealVerdictT MinedSealVerifiesT VersionT ConstT
POSTCONDITION TraceAccepted
CHECK_DEADLOCK FALSE
