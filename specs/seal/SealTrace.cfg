SPECIFICATION TSpec
INVARIANTS SealSeqT PrimitivesT SealVerdictT MinedSealVerifiesT VersionT ConstT
POSTCONDITION TraceAccepted
CHECK_DEADLOCK FALSE
