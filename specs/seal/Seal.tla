--------------------------------- MODULE Seal ---------------------------------
(***************************************************************************)
(* C14: the acceptance predicate of a proof-of-work seal and the version   *)
(* schedule.  The hash functions are abstract (DESIGN 2.6): the driver     *)
(* supplies the fork-selected hash of (seal-free header hash, nonce) as a  *)
(* BigNat, computed by an INDEPENDENT implementation, and asserts that the *)
(* node's own primitives agree with it.  What TLC decides is the           *)
(* comparison with 2^256 / difficulty and the rest of the decision logic.  *)
(***************************************************************************)
EXTENDS BigNat

\* 2^256 in base 10000 (the driver also logs it from math/big and SealTrace!ConstT compares)
TwoTo256 == <<9936, 2963, 9131, 4007, 5758, 394, 564, 6564, 9846, 3269, 785, 6879, 5008, 7098, 4235, 6195, 3731, 892, 5792, 11>>
\* hash <= floor(2^256 / d)  <=>  hash * d <= 2^256   (d a positive integer)
MeetsTarget(hash, d) == Leq(Mul(hash, d), TwoTo256)

\* "a sealed header is accepted exactly when its mix digest is the expected one and the fork-selected hash ... is at most
\*  2^256 divided by its difficulty"
SealAccept(R) == R.diffPositive /\ R.mixOK /\ MeetsTarget(R.hash, R.diff)

\* "the algorithm version is determined solely by block height through the fork schedule"
IsHF(S, n, h) == S.hf[n] >= 0 /\ S.hf[n] <= h
VersionOfHeight(S, h) == IF IsHF(S, 9, h) THEN 4 ELSE IF IsHF(S, 8, h) THEN 3 ELSE IF IsHF(S, 5, h) THEN 2 ELSE 1
\* memory of the argon2id variant, KiB (version 1 is ethash)
MemoryKiB(v) == IF v = 2 THEN 1 ELSE IF v = 3 THEN 16 ELSE IF v = 4 THEN 32 ELSE 0

\* model-checked sanity of the comparison: for small numbers MeetsTarget is the textbook predicate
VARIABLES h, d
Init == h \in 0..40 /\ d \in 1..40
Next == UNCHANGED <<h, d>>
Spec == Init /\ [][Next]_<<h, d>>
SmallOK == Leq(Mul(FromInt(h), FromInt(d)), FromInt(400)) <=> (h <= 400 \div d)
=============================================================================
