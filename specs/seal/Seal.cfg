SPECIFICATION Spec
INVARIANT SmallOK
