------------------------------- MODULE SealTrace -------------------------------
(* Trace specification for C14: events seal, version, mined (harness/consensus/aquahash/seal_test.go) *)
EXTENDS TraceLib, Seal
VARIABLES l, X
tvars == <<l, X, h, d>>
Ev == Trace[l]
TInit == l = 1 /\ X = [e |-> "none"] /\ InitHW /\ h = 0 /\ d = 1
TStep == l <= NLines /\ l' = l + 1 /\ Consumed(l) /\ X' = Ev /\ UNCHANGED <<h, d>>
TSpec == TInit /\ [][TStep]_tvars
Sched(j) == [hf |-> [n \in 1..9 |-> j.hf[n]]]

\* the node's hash primitives are the fork-selected ones (agreement with the independent implementation)
PrimitivesT == X.e \in {"seal", "mined"} => (X.powMatchesIndependent /\ X.sealFreeMatchesIndependent /\ X.blockHashMatchesIndependent)
SealVerdictT == X.e = "seal" => (X.panic = "" /\ (X.accepted <=> SealAccept(X)))
\* "every seal the node's own miner returns passes this check"
\* every header is judged on its own: having accepted a sealed header does not make the same header with another mix digest acceptable
SealSeqT == X.e = "sealseq" => (X.goodFirst[1] = "" /\ X.goodFirst[2] # "" /\ X.badFirst[1] # "" /\ X.badFirst[2] = "")

MinedSealVerifiesT == X.e = "mined" => (X.returned /\ X.accepted /\ SealAccept(X) /\ X.version = VersionOfHeight(Sched(X.sched), X.num))
ConstT == X.e = "const" => X.two256 = TwoTo256
VersionT == X.e = "version" => X.version = VersionOfHeight(Sched(X.sched), X.num)
=============================================================================
