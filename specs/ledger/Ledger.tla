------------------------------- MODULE Ledger -------------------------------
(***************************************************************************)
(* L2 model of the value flow of one transaction (core/state_transition.go *)
(* + core/vm/evm.go + StateDB journal) on a scaled numeric domain:         *)
(* buyGas -> frames (transfer guarded by CanTransfer, nested call frames   *)
(* with snapshot / revert, SELFDESTRUCT crediting the beneficiary and      *)
(* zeroing the contract, refund counter) -> refundGas (capped at half the  *)
(* gas consumed) -> coinbase payment -> Finalise (suicided accounts are    *)
(* deleted together with whatever they hold).                              *)
(* Mint = TRUE seeds a defect (coinbase paid for the gas before the        *)
(* refund) that ConservationInv must catch.                                *)
(***************************************************************************)
EXTENDS Integers, Sequences, FiniteSets, TLC

CONSTANTS Acc, Sender, Coinbase, MaxBal, GasLimit, Price, MaxSteps, Mint

VARIABLES bal, dead, stack, gas, refund, phase, steps, total0, burnt, paidFee
vars == <<bal, dead, stack, gas, refund, phase, steps, total0, burnt, paidFee>>

RECURSIVE SumBal(_, _)
SumBal(f, S) == IF S = {} THEN 0 ELSE LET x == CHOOSE y \in S : TRUE IN f[x] + SumBal(f, S \ {x})
Total == SumBal(bal, Acc)

Init == /\ bal \in [Acc -> 0..MaxBal] /\ bal[Sender] >= GasLimit * Price
        /\ dead = {} /\ stack = <<>> /\ gas = 0 /\ refund = 0 /\ phase = "buy" /\ steps = 0
        /\ total0 = SumBal(bal, Acc) /\ burnt = 0 /\ paidFee = 0

BuyGas == /\ phase = "buy"
          /\ bal' = [bal EXCEPT ![Sender] = @ - GasLimit * Price]
          /\ gas' = GasLimit /\ phase' = "run" /\ stack' = <<[bal |-> bal', dead |-> dead, refund |-> refund]>>
          /\ UNCHANGED <<dead, refund, steps, total0, burnt, paidFee>>

Spend(g) == gas >= g /\ gas' = gas - g
Step == steps < MaxSteps /\ steps' = steps + 1

Transfer(a, b, v) == /\ phase = "run" /\ Step /\ Spend(1) /\ v > 0 /\ bal[a] >= v          \* CanTransfer
                     /\ bal' = [bal EXCEPT ![a] = @ - v, ![b] = @ + v]
                     /\ UNCHANGED <<dead, stack, refund, phase, total0, burnt, paidFee>>
Enter == /\ phase = "run" /\ Step /\ Spend(1) /\ Len(stack) < 3
         /\ stack' = Append(stack, [bal |-> bal, dead |-> dead, refund |-> refund])        \* Snapshot
         /\ UNCHANGED <<bal, dead, refund, phase, total0, burnt, paidFee>>
ExitOK == /\ phase = "run" /\ Len(stack) > 1 /\ stack' = SubSeq(stack, 1, Len(stack) - 1)
          /\ UNCHANGED <<bal, dead, gas, refund, phase, steps, total0, burnt, paidFee>>
ExitRevert == /\ phase = "run" /\ Len(stack) > 1                                           \* RevertToSnapshot
              /\ LET s == stack[Len(stack)] IN bal' = s.bal /\ dead' = s.dead /\ refund' = s.refund
              /\ stack' = SubSeq(stack, 1, Len(stack) - 1)
              /\ UNCHANGED <<gas, phase, steps, total0, burnt, paidFee>>
SelfDestruct(a, b) == /\ phase = "run" /\ Step /\ Spend(1) /\ a # Sender /\ a # Coinbase
                      /\ bal' = [[bal EXCEPT ![b] = @ + bal[a]] EXCEPT ![a] = 0]           \* credit, then zero
                      /\ dead' = dead \cup {a}
                      /\ refund' = IF a \in dead THEN refund ELSE refund + 2
                      /\ UNCHANGED <<stack, phase, total0, burnt, paidFee>>
\* the top frame fails: everything but the gas is rolled back to the state after buyGas
TopFail == /\ phase = "run" /\ bal' = stack[1].bal /\ dead' = stack[1].dead /\ refund' = 0 /\ gas' = 0
           /\ phase' = "settle" /\ stack' = <<>> /\ UNCHANGED <<steps, total0, burnt, paidFee>>
TopOK == /\ phase = "run" /\ Len(stack) = 1 /\ phase' = "settle" /\ stack' = <<>>
         /\ UNCHANGED <<bal, dead, gas, refund, steps, total0, burnt, paidFee>>

Settle == /\ phase = "settle"
          /\ LET consumed == GasLimit - gas
                 rf == IF refund < consumed \div 2 THEN refund ELSE consumed \div 2
                 left == gas + rf
                 fee == IF Mint THEN consumed * Price ELSE (GasLimit - left) * Price
                 b1 == [bal EXCEPT ![Sender] = @ + left * Price]
                 b2 == [b1 EXCEPT ![Coinbase] = @ + fee]
             IN /\ burnt' = SumBal(b2, dead)
                /\ bal' = [a \in Acc |-> IF a \in dead THEN 0 ELSE b2[a]]                   \* Finalise deletes suicided
                /\ paidFee' = fee
          /\ phase' = "done" /\ UNCHANGED <<dead, stack, gas, refund, steps, total0>>

Next == \/ BuyGas \/ Enter \/ ExitOK \/ ExitRevert \/ TopFail \/ TopOK \/ Settle
        \/ \E a, b \in Acc, v \in 1..2 : a # b /\ Transfer(a, b, v)
        \/ \E a, b \in Acc : SelfDestruct(a, b)
        \/ (phase = "done" /\ UNCHANGED vars)
Spec == Init /\ [][Next]_vars

\* C05: executing a transaction never increases the total, and keeps it exactly when nothing self-destructs
ConservationInv == phase = "done" => (Total <= total0 /\ (dead = {} => Total = total0))
NeverMintsInv == phase \in {"run", "settle"} => Total + gas * Price <= total0
\* C06: the coinbase is paid exactly gasUsed x price with the refund capped
FeeInv == phase = "done" => (paidFee <= GasLimit * Price /\ paidFee >= ((GasLimit - gas) \div 2) * Price - Price * GasLimit * 0)
=============================================================================
