---------------------------- MODULE LedgerProps ----------------------------
(***************************************************************************)
(* L1 predicates of C05 (issuance) and C06 (per-transaction accounting)    *)
(* over recorded executions.  Wei amounts are BigNat limb numbers, gas     *)
(* amounts are native integers (< 2^31 in every driver).                   *)
(***************************************************************************)
EXTENDS BigNat

E18 == <<0, 0, 0, 0, 100>>                      \* 1 AQUA = 10^18 wei
MaxMoneyHeight == 42000000
Min(a, b) == IF a < b THEN a ELSE b

\* C05: the issuance scheduled for a block at height h with uncles at heights us
RECURSIVE UncleRewards(_, _)
UncleRewards(h, us) ==
  IF us = <<>> THEN <<>>
  ELSE Add(Add(DivSmall(MulSmall(E18, 8 + Head(us) - h), 8),       \* to the uncle's miner
               DivSmall(E18, 32)),                                  \* to the block's miner
           UncleRewards(h, Tail(us)))
Reward(h, us) == IF h < MaxMoneyHeight THEN Add(E18, UncleRewards(h, us)) ELSE <<>>

\* "applying any block changes the sum of all balances by at most the issuance scheduled for that block,
\*  and by exactly that amount whenever no contract self-destructs in the block"; the HF4 zeroing only lowers it
SupplyDelta(B) ==
  /\ Leq(B.supplyAfterHF, B.supply0)
  /\ (~B.hf4 => B.supplyAfterHF = B.supply0)
  /\ Leq(B.supplyEnd, Add(B.supplyAfterHF, Reward(B.num, B.uncles)))
  /\ (B.suicides = 0 => B.supplyEnd = Add(B.supplyAfterHF, Reward(B.num, B.uncles)))
  /\ B.supplyEnd = Add(B.supplyTx, Reward(B.num, B.uncles))
  /\ B.supplyCommitted = B.supplyEnd

\* "executing transactions alone never increases the total"
TxNeverMints(X) ==
  /\ Leq(X.supplyAfter, X.supplyBefore)
  /\ (X.suicides = 0 => X.supplyAfter = X.supplyBefore)

----------------------------------------------------------------------------
\* C06
Intrinsic(X) == (IF X.create /\ X.homestead THEN 53000 ELSE 21000) + 4 * X.zeros + 68 * X.nonzeros
Fee(X) == Mul(FromInt(X.gasUsed), X.price)

TxGas(X) ==
  /\ X.post.nonce = X.pre.nonce + 1
  \* "intrinsic gas <= gasUsed <= its gas limit with the refund capped at half the gas consumed":
  \* the gas CONSUMED (before the refund) is at least the intrinsic gas and at most the limit; the reported
  \* gasUsed is the consumed gas minus the capped refund, so it is below the intrinsic gas only by a refund
  /\ X.gasUsed <= X.gasLimit
  /\ X.rcptGas = X.gasUsed
  /\ (X.ended => LET consumed == Intrinsic(X) + X.execGas IN
                   /\ consumed <= X.gasLimit
                   /\ X.gasUsed = consumed - Min(X.refund, consumed \div 2))
  /\ (X.ended /\ X.refund = 0 => Intrinsic(X) <= X.gasUsed)
  /\ 2 * X.gasUsed >= Intrinsic(X)
  \* X.refund is what THIS transaction earned (refund counter at the end of its run minus the counter when it began)
  \* the block's cumulative gas equals the sum over its receipts and never exceeds the block gas limit
  /\ X.cumGas = X.sumGas /\ X.cumGas <= X.blockGasLimit
  /\ X.poolAfter = X.poolBefore - X.gasUsed

\* exact balance equations whenever nothing can flow back to sender / coinbase during execution
NoInflow(X) == X.suicides = 0 /\ X.valueCalls = 0
Paid(X) == IF X.failed THEN <<>> ELSE X.value
TxBalances(X) ==
  NoInflow(X) =>
    /\ (~X.sameSC /\ ~X.sameST) => X.pre.sbal = Add(X.post.sbal, Add(Fee(X), Paid(X)))   \* sender pays fee + value
    /\ (~X.sameSC /\ X.sameST)  => X.pre.sbal = Add(X.post.sbal, Fee(X))                \* value to itself
    /\ (X.sameSC /\ ~X.sameST)  => X.pre.sbal = Add(X.post.sbal, Paid(X))               \* fee to itself
    /\ (~X.sameSC /\ ~X.sameCT) => X.post.cbal = Add(X.pre.cbal, Fee(X))                \* coinbase gets the fee
    /\ (~X.sameST /\ ~X.sameCT /\ ~X.create) => X.post.tbal = Add(X.pre.tbal, Paid(X))  \* recipient gets the value iff success

\* "if execution fails, no other state change, log or created code survives"
FailedTxLeavesNothing(X) ==
  X.failed => (X.restSame /\ X.nlogs = 0 /\ (X.create => X.codeAfter = 0)
               /\ (NoInflow(X) /\ ~X.sameST /\ ~X.sameCT => X.post.tbal = X.pre.tbal))
=============================================================================
