SPECIFICATION TSpec
INVARIANTS SupplyDeltaT TxNeverMintsT RewardScheduleT NoTxErrT
POSTCONDITION TraceAccepted
CHECK_DEADLOCK FALSE
