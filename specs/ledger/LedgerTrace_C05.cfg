SPECIFICATION TSpec
INVARIANTS GeneratorOKT SupplyDeltaT TxNeverMintsT RewardScheduleT NoTxErrT
POSTCONDITION TraceAccepted
CHECK_DEADLOCK FALSE
