---------------------------- MODULE LedgerTrace ----------------------------
(* Trace specification for C05 / C06: events tx, block, badblock, reward, txerr (harness/core/ledger_test.go) *)
EXTENDS TraceLib, LedgerProps
VARIABLES l, kind, X
tvars == <<l, kind, X>>
Ev == Trace[l]
TInit == l = 1 /\ kind = "init" /\ X = <<>> /\ InitHW
TStep == /\ l <= NLines /\ l' = l + 1 /\ Consumed(l) /\ kind' = Ev.e /\ X' = Ev
TSpec == TInit /\ [][TStep]_tvars

\* C05
SupplyDeltaT == kind = "block" => SupplyDelta(X)
TxNeverMintsT == kind = "tx" => TxNeverMints(X)
RewardScheduleT == kind = "reward" => X.delta = Reward(X.num, X.uncles)
\* C06
TxGasT == kind = "tx" => TxGas(X)
TxBalancesT == kind = "tx" => TxBalances(X)
FailedTxLeavesNothingT == kind = "tx" => FailedTxLeavesNothing(X)
BlockGasT == kind = "block" => (X.headerGasUsed = X.sumGas /\ X.sumGas <= X.blockGasLimit)
\* a transaction of a generated (valid) block must replay without a consensus error
NoTxErrT == kind # "txerr"
\* "a transaction with a wrong nonce, one that cannot prepay gasLimit x gasPrice and then its value, one whose gas
\*  limit is below its intrinsic cost or above the gas left in the block, makes the whole block invalid"
InvalidTxInvalidatesBlockT == kind = "badblock" => ((X.err # "") <=> X.expectError)
\* building a valid chain with the node's own block builder (GenerateChain / ApplyTransaction / StateDB) must not crash or
\* refuse a transaction that is affordable by construction (recorded by the driver as a "genfail" line)
GeneratorOKT == kind # "genfail"

=============================================================================
