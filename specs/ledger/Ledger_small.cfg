SPECIFICATION Spec
CONSTANTS
  Acc <- A3
  Sender = "s"
  Coinbase = "c"
  MaxBal = 4
  GasLimit = 4
  Price = 1
  MaxSteps = 4
  Mint = FALSE
INVARIANTS ConservationInv NeverMintsInv FeeInv
