SPECIFICATION TSpec
INVARIANTS GeneratorOKT TxGasT TxBalancesT FailedTxLeavesNothingT BlockGasT InvalidTxInvalidatesBlockT NoTxErrT
POSTCONDITION TraceAccepted
CHECK_DEADLOCK FALSE
