----------------------------- MODULE ChainIndexer -----------------------------
(***************************************************************************)
(* core.ChainIndexer (core/chain_indexer.go): the background job that      *)
(* turns finished sections of the canonical chain into index data (the     *)
(* bloom-bits index of C16 is its main user).  Beyond the listed           *)
(* properties; grown from C16's "index progress state".                    *)
(*                                                                         *)
(* The canonical chain is abstracted to a sequence of block ids, one per   *)
(* height; a reorganisation at height h replaces every block from h up by  *)
(* fresh ids.  The indexer keeps                                           *)
(*   known  - sections whose blocks are all there (with confirmations)     *)
(*   stored - sections indexed so far, with the id of each section's last  *)
(*            block (section head)                                         *)
(* Actions follow the code's critical sections:                            *)
(*   NewHead        eventLoop -> newHead(head, false)           (lock)     *)
(*   Reorg          chain reorganises; eventLoop -> newHead(anc, true)     *)
(*   ProcStart      updateLoop picks section = stored, reads oldHead (lock)*)
(*   ProcRead       processSection reads ONE canonical header, no lock;    *)
(*                  fails if it does not continue the previous one         *)
(*   ProcEnd        updateLoop: commit iff oldHead = SectionHead(sec-1)    *)
(* DeepReorgs = FALSE is the operating assumption behind `confirmsReq`     *)
(* (256 for the bloom index): no reorganisation reaches deeper than the    *)
(* confirmations.                                                          *)
(* CheckLastHead = TRUE adds what later upstream versions do: a commit is  *)
(* refused when the section just read is no longer canonical.              *)
(***************************************************************************)
EXTENDS Integers, Sequences, FiniteSets
CONSTANTS Size,          \* blocks per section
          MaxHeight,     \* chain grows to at most this many blocks
          MaxReorgs,
          Confirms,      \* confirmations before a section is processed
          CheckLastHead,
          DeepReorgs     \* TRUE: a reorganisation may be deeper than Confirms blocks

VARIABLES canon,         \* sequence of block ids: canon[h+1] = canonical block at height h
          nextId, reorgs,
          known, stored, shead,   \* shead: [0..stored-1 -> block id]
          proc            \* processing: [state, sec, oldHead, last, n] ; state "idle" | "reading" | "done" | "failed"
vars == <<canon, nextId, reorgs, known, stored, shead, proc>>

Tip == Len(canon) - 1
SectionHeadAt(s) == IF s \in DOMAIN shead THEN shead[s] ELSE 0        \* 0 = the zero hash
CanonAt(h) == IF h + 1 <= Len(canon) THEN canon[h + 1] ELSE 0

Init == /\ canon = <<1>> /\ nextId = 2 /\ reorgs = 0
        /\ known = 0 /\ stored = 0 /\ shead = <<>>
        /\ proc = [state |-> "idle", sec |-> 0, oldHead |-> 0, last |-> 0, n |-> 0]

\* a block is appended and the indexer is told (newHead(head, false))
NewHead == /\ Len(canon) < MaxHeight
           /\ canon' = Append(canon, nextId) /\ nextId' = nextId + 1
           /\ LET secs == (IF Len(canon) >= Confirms THEN (Len(canon) + 1 - Confirms) \div Size ELSE 0)   \* Len(canon) = the new head's height
              IN known' = IF secs > known THEN secs ELSE known
           /\ UNCHANGED <<reorgs, stored, shead, proc>>

\* every block from height h up is replaced by a branch of the same length; the event loop tells the indexer the common
\* ancestor h-1 (newHead(h-1, true)) and then the new head (newHead(Tip, false))
SecsAt(head) == IF head >= Confirms THEN (head + 1 - Confirms) \div Size ELSE 0
Reorg(h) == /\ reorgs < MaxReorgs /\ h >= 1 /\ h <= Tip
            /\ (DeepReorgs \/ h > Tip - Confirms)
            /\ reorgs' = reorgs + 1
            /\ canon' = [k \in 1..Len(canon) |-> IF k - 1 >= h THEN nextId + (k - 1 - h) ELSE canon[k]]
            /\ nextId' = nextId + (Len(canon) - h)
            /\ LET changed == (h - 1) \div Size
                   known1 == IF changed < known THEN changed ELSE known
               IN
               /\ known' = IF SecsAt(Tip) > known1 THEN SecsAt(Tip) ELSE known1
               /\ stored' = IF changed < stored THEN changed ELSE stored
               /\ shead' = IF changed < stored THEN [s \in 0..(changed - 1) |-> shead[s]] ELSE shead
            /\ UNCHANGED proc

ProcStart == /\ proc.state = "idle" /\ known > stored
             /\ proc' = [state |-> "reading", sec |-> stored, oldHead |-> SectionHeadAt(stored - 1), last |-> SectionHeadAt(stored - 1), n |-> 0]
             /\ UNCHANGED <<canon, nextId, reorgs, known, stored, shead>>

\* parent of block id b on the chain it was created on: ids are handed out consecutively per branch, so "continues" is decided by
\* position: the header read at height h continues `last` iff `last` is what the CURRENT canonical chain has at h-1
ProcRead == /\ proc.state = "reading"
            /\ LET h == proc.sec * Size + proc.n
                   b == CanonAt(h)
               IN IF b = 0 \/ (h > 0 /\ proc.last # CanonAt(h - 1))
                  THEN proc' = [proc EXCEPT !.state = "failed"]          \* unknown block / "chain reorged during section processing"
                  ELSE proc' = [proc EXCEPT !.last = b, !.n = @ + 1, !.state = IF proc.n + 1 = Size THEN "done" ELSE "reading"]
            /\ UNCHANGED <<canon, nextId, reorgs, known, stored, shead>>

ProcEnd == /\ proc.state \in {"done", "failed"}
           /\ IF /\ proc.state = "done" /\ proc.oldHead = SectionHeadAt(proc.sec - 1)
                 /\ (CheckLastHead => proc.last = CanonAt((proc.sec + 1) * Size - 1))
              THEN /\ shead' = [s \in 0..proc.sec |-> IF s = proc.sec THEN proc.last ELSE SectionHeadAt(s)]
                   /\ stored' = proc.sec + 1 /\ UNCHANGED known
              ELSE /\ known' = stored /\ UNCHANGED <<stored, shead>>
           /\ proc' = [state |-> "idle", sec |-> 0, oldHead |-> 0, last |-> 0, n |-> 0]
           /\ UNCHANGED <<canon, nextId, reorgs>>

Next == NewHead \/ (\E h \in 1..MaxHeight : Reorg(h)) \/ ProcStart \/ ProcRead \/ ProcEnd
Spec == Init /\ [][Next]_vars

\* the observable projection: sections known / stored, and for each stored section whether its recorded head is the canonical block
Projection == [known |-> known, stored |-> stored, fresh |-> [s \in 1..stored |-> shead[s - 1] = CanonAt(s * Size - 1)]]

\* what the index is for: every stored section describes the canonical chain
StoredIsCanonical == \A s \in DOMAIN shead : shead[s] = CanonAt((s + 1) * Size - 1)
\* bookkeeping
StoredBound == stored = Len(shead) /\ (stored * Size <= Len(canon))
=============================================================================
