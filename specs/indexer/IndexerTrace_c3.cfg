SPECIFICATION TSpec
CONSTANTS Size = 2 MaxHeight = 1000 MaxReorgs = 1000 Confirms = 3 CheckLastHead = FALSE DeepReorgs = TRUE
INVARIANTS ConformsT ShallowSafeT
POSTCONDITION TraceAccepted
CHECK_DEADLOCK FALSE
