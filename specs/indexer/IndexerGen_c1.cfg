SPECIFICATION GSpec
CONSTANTS Size = 2 MaxHeight = 9 MaxReorgs = 3 Confirms = 1 CheckLastHead = FALSE DeepReorgs = TRUE GenDepth = 22
INVARIANTS Emit
CHECK_DEADLOCK FALSE
