SPECIFICATION Spec
CONSTANTS Size = 2 MaxHeight = 7 MaxReorgs = 2 Confirms = 1 CheckLastHead = FALSE DeepReorgs = TRUE
INVARIANTS StoredIsCanonical
CHECK_DEADLOCK FALSE
