SPECIFICATION Spec
CONSTANTS Size = 2 MaxHeight = 8 MaxReorgs = 2 Confirms = 2 CheckLastHead = FALSE DeepReorgs = FALSE
INVARIANTS StoredIsCanonical
CHECK_DEADLOCK FALSE
