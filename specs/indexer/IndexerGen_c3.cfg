SPECIFICATION GSpec
CONSTANTS Size = 2 MaxHeight = 12 MaxReorgs = 3 Confirms = 3 CheckLastHead = FALSE DeepReorgs = TRUE GenDepth = 26
INVARIANTS Emit
CHECK_DEADLOCK FALSE
