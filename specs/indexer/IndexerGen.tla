------------------------------ MODULE IndexerGen ------------------------------
(* Direction A for ChainIndexer.tla: behaviours with a history variable; every behaviour of GenDepth steps is printed as JSON
   (the operation list); the Go driver replays it step by step on the real core.ChainIndexer through its step hooks. *)
EXTENDS ChainIndexer, Json, TLC
CONSTANT GenDepth
VARIABLE hist
gvars == <<vars, hist>>
GInit == Init /\ hist = <<>>
GNext == /\ Len(hist) < GenDepth
         /\ \/ NewHead /\ hist' = Append(hist, [op |-> "newhead", h |-> 0])
            \/ \E h \in 1..MaxHeight : Reorg(h) /\ hist' = Append(hist, [op |-> "reorg", h |-> h])
            \/ ProcStart /\ hist' = Append(hist, [op |-> "procstart", h |-> 0])
            \/ ProcRead /\ hist' = Append(hist, [op |-> "procread", h |-> 0])
            \/ ProcEnd /\ hist' = Append(hist, [op |-> "procend", h |-> 0])
GSpec == GInit /\ [][GNext]_gvars
Emit == Len(hist) < GenDepth \/ PrintT(<<"GEN", ToJson([ops |-> hist, size |-> Size, confirms |-> Confirms])>>)
=============================================================================
