----------------------------- MODULE IndexerTrace -----------------------------
(* Trace validation of the real core.ChainIndexer against ChainIndexer.tla: every recorded step names the action the driver let the
   real code take (chain operations are the driver's, the processing steps are released one by one through the hooks) and the
   projection (known, stored, which stored section heads are still canonical) read from the real indexer after it; the trace spec
   takes the same action in the model and demands the same projection.  "reset" starts a new indexer. *)
EXTENDS ChainIndexer, TraceLib
VARIABLES l, obs
tvars == <<vars, l, obs>>
Ev == Trace[l]
IsEv(op) == l <= NLines /\ Ev.op = op /\ l' = l + 1 /\ Consumed(l) /\ obs' = Ev
TInit == Init /\ l = 1 /\ obs = [op |-> "none"] /\ InitHW
TReset == IsEv("reset") /\ canon' = <<1>> /\ nextId' = 2 /\ reorgs' = 0 /\ known' = 0 /\ stored' = 0 /\ shead' = <<>>
          /\ proc' = [state |-> "idle", sec |-> 0, oldHead |-> 0, last |-> 0, n |-> 0]
TNext == \/ TReset
         \/ IsEv("newhead") /\ NewHead
         \/ IsEv("reorg") /\ Reorg(Ev.h)
         \/ IsEv("procstart") /\ ProcStart
         \/ IsEv("procread") /\ ProcRead
         \/ IsEv("procend") /\ ProcEnd
TSpec == TInit /\ [][TNext]_tvars

\* the real indexer shows what the model shows after every step
ConformsT == obs.op \in {"none", "reset"} \/ (obs.known = known /\ obs.stored = stored /\ obs.fresh = [s \in 1..stored |-> shead[s - 1] = CanonAt(s * Size - 1)])
\* under the operating assumption (no reorganisation deeper than the confirmations) every stored section is canonical
ShallowSafeT == (obs.op \notin {"none", "reset"} /\ ~obs.deep) => \A s \in 1..Len(obs.fresh) : obs.fresh[s]
=============================================================================
