//go:build verif

package discover

// C17 driver (discovery): a real udp transport on a datagram pipe is handed, through handlePacket, valid packets of every
// type and then: every truncation (raw, and re-signed so that hash and signature are good), every single-byte substitution
// (raw / re-hashed with a stale signature / re-signed), every type byte, malformed RLP payloads under a good signature,
// expired packets, bonded / unbonded and solicited / unsolicited senders, in both wire dialects (chain id 1 = no tag).
// Each call runs under recover and a watchdog and its allocation is measured.  The driver records features it computes
// itself (length, hash check with an independent keccak, who signed what) and the outcome; DiscTrace.tla judges.

import (
	"bufio"
	"bytes"
	"encoding/json"
	"fmt"
	"math/rand"
	"net"
	"os"
	"runtime"
	"strconv"
	"testing"
	"time"

	"gitlab.com/aquachain/aquachain/common/log"
	"gitlab.com/aquachain/aquachain/crypto"
	"gitlab.com/aquachain/aquachain/rlp"
	"golang.org/x/crypto/sha3"
)

type dvw struct {
	w *bufio.Writer
	n int
}

func (v *dvw) emit(e interface{}) {
	b, err := json.Marshal(e)
	if err != nil {
		panic(err)
	}
	v.w.Write(b)
	v.w.WriteByte('\n')
	v.n++
}

func dKeccak(b []byte) []byte {
	h := sha3.NewLegacyKeccak256()
	h.Write(b)
	return h.Sum(nil)
}

type discEnv struct {
	w         *dvw
	netcompat bool
	pipe      *dgramPipe
	udp       *udp
	key       *PrivateKey // the remote's key K (never has a pending request)
	key2      *PrivateKey // the remote's key K2: every packet it sends answers a pending request of that type
	key3      *PrivateKey // sends unsolicited pongs / neighbors and never a ping (a ping makes the node ping back and expect a pong)
	key4      *PrivateKey // sends findnode only, so that its bond time is touched by nobody but the driver
	addr      *net.UDPAddr
}

// build a datagram from sigdata (type || [tag] || payload), signed with key and hashed
func signed(key *PrivateKey, sigdata []byte) []byte {
	p := make([]byte, headSize+len(sigdata))
	copy(p[headSize:], sigdata)
	sig, err := crypto.Sign(crypto.Keccak256(p[headSize:]), key)
	if err != nil {
		panic(err)
	}
	copy(p[macSize:], sig)
	copy(p, crypto.Keccak256(p[macSize:]))
	return p
}

func rehash(p []byte) []byte {
	q := append([]byte{}, p...)
	if len(q) >= macSize {
		copy(q, crypto.Keccak256(q[macSize:]))
	}
	return q
}

type discIn struct {
	kind      string
	dgram     []byte
	sigBy     string // "K": signed by K over exactly these bytes; "stale": a signature of K over other bytes; "garbage"
	payloadOK string // "yes": the unaltered valid payload of its type; "no": known-malformed; "unknown"
	expired   bool
	bonded    bool
	solicited bool
	pos       int
}

func (e *discEnv) feed(in discIn) {
	buf := append([]byte{}, in.dgram...)
	hashOK := len(buf) > macSize && bytes.Equal(buf[:macSize], dKeccak(buf[macSize:]))
	typ := -1
	if len(buf) > headSize {
		typ = int(buf[headSize])
	}
	// receiver state
	var sd []byte
	if len(buf) > headSize {
		sd = buf[headSize:]
	}
	keyID := PubkeyID(e.sk(sd, in.solicited).PubKey().ToECDSA())
	if in.bonded {
		e.udp.db.updateBondTime(keyID, time.Now())
	} else {
		e.udp.db.updateBondTime(keyID, time.Unix(0, 0))
	}
	if in.solicited && typ >= 0 {
		t := byte(typ)
		if e.netcompat && t < 133 {
			t += 133
		}
		if t == aquapongPacket || t == aquaneighborsPacket {
			if e.netcompat {
				t -= 133
			}
			e.udp.pending(keyID, t, func(interface{}) bool { return true })
		}
	}
	// drain anything sent earlier (bonding pings of earlier events)
	e.drain()
	// decodePacket alone, for attribution
	fromK, decoded, decPanic := false, false, ""
	func() {
		defer func() {
			if r := recover(); r != nil {
				decPanic = fmt.Sprint(r)
			}
		}()
		_, id, _, err := decodePacket(e.netcompat, append([]byte{}, buf...))
		decoded = err == nil
		fromK = id == keyID
	}()
	var ms1, ms2 runtime.MemStats
	outcome, errs := "", ""
	done := make(chan struct{})
	runtime.ReadMemStats(&ms1)
	start := time.Now()
	go func() {
		defer close(done)
		defer func() {
			if r := recover(); r != nil {
				outcome, errs = "panic", fmt.Sprint(r)
			}
		}()
		if err := e.udp.handlePacket(e.addr, buf); err != nil {
			outcome, errs = "error", err.Error()
		} else {
			outcome = "handled"
		}
	}()
	select {
	case <-done:
	case <-time.After(10 * time.Minute):
		outcome = "wedge"
	}
	el := time.Since(start)
	runtime.ReadMemStats(&ms2)
	replies, echo := e.drainReplies(in.dgram)
	if len(errs) > 120 {
		errs = errs[:120]
	}
	e.w.emit(map[string]interface{}{"e": "dgram", "netcompat": e.netcompat, "kind": in.kind, "pos": in.pos, "len": len(in.dgram), "hashOK": hashOK,
		"sigBy": in.sigBy, "type": typ, "payloadOK": in.payloadOK, "expired": in.expired, "bonded": in.bonded, "solicited": in.solicited,
		"outcome": outcome, "err": errs, "decoded": decoded, "decPanic": decPanic, "fromK": fromK, "us": el.Microseconds(),
		"alloc": ms2.TotalAlloc - ms1.TotalAlloc, "replies": replies, "echo": echo})
}

// the key that signs sigdata: chosen by packet type so that the receiver state the driver declares (bonded, solicited) is
// not disturbed by the node's own bonding traffic
func (e *discEnv) sk(sigdata []byte, solicited bool) *PrivateKey {
	t := byte(0)
	if len(sigdata) > 0 {
		t = sigdata[0]
	}
	if e.netcompat && t < 133 {
		t += 133
	}
	switch {
	case t == aquafindnodePacket:
		return e.key4
	case solicited:
		return e.key2
	case t == aquapongPacket || t == aquaneighborsPacket:
		return e.key3
	}
	return e.key
}

func (e *discEnv) signed(sigdata []byte, solicited bool) []byte {
	return signed(e.sk(sigdata, solicited), sigdata)
}

func (e *discEnv) drain() {
	e.pipe.mu.Lock()
	e.pipe.queue = nil
	e.pipe.mu.Unlock()
}

// packets the transport sent in response: "pong" / "neighbors" (bonding pings are not replies); echo = a pong carried our hash
func (e *discEnv) drainReplies(in []byte) ([]string, bool) {
	e.pipe.mu.Lock()
	q := e.pipe.queue
	e.pipe.queue = nil
	e.pipe.mu.Unlock()
	out, echo := []string{}, false
	for _, d := range q {
		p, _, _, err := decodePacket(e.netcompat, append([]byte{}, d...))
		if err != nil {
			out = append(out, "undecodable")
			continue
		}
		switch x := p.(type) {
		case *pong:
			out = append(out, "pong")
			if len(in) >= macSize && bytes.Equal(x.ReplyTok, in[:macSize]) {
				echo = true
			}
		case *neighbors:
			out = append(out, "neighbors")
		}
	}
	return out, echo
}

func TestVerifDisc(t *testing.T) {
	log.Root().SetHandler(log.DiscardHandler())
	seed, _ := strconv.ParseInt(os.Getenv("VERIF_SEED"), 10, 64)
	thorough := os.Getenv("VERIF_TIER") == "thorough"
	out := os.Getenv("VERIF_OUT")
	if out == "" {
		out = os.DevNull
	}
	f, err := os.Create(out)
	if err != nil {
		t.Fatal(err)
	}
	defer f.Close()
	w := &dvw{w: bufio.NewWriterSize(f, 1<<20)}
	defer w.w.Flush()
	rng := rand.New(rand.NewSource(seed))
	for _, nc := range []bool{false, true} {
		chainid := uint64(2)
		if nc {
			chainid = 1
		}
		env := &discEnv{w: w, netcompat: nc, pipe: newpipe(), key: newkey(), key2: newkey(), key3: newkey(), key4: newkey(), addr: &net.UDPAddr{IP: net.IP{10, 0, 1, 99}, Port: 30303}}
		tab, u, err := newUDP(env.pipe, Config{PrivateKey: newkey(), ChainId: chainid})
		if err != nil {
			t.Fatal(err)
		}
		<-tab.initDone
		env.udp = u
		runDisc(env, rng, thorough)
		u.close()
	}
	fmt.Printf("VERIF-STAT events=%d\n", w.n)
}

func runDisc(e *discEnv, rng *rand.Rand, thorough bool) {
	future := uint64(time.Now().Add(10 * time.Hour).Unix())
	past := uint64(time.Now().Add(-10 * time.Hour).Unix())
	tbase := byte(133)
	if e.netcompat {
		tbase = 0
	}
	tag := []byte("aqua")
	if e.netcompat {
		tag = nil
	}
	ep := rpcEndpoint{IP: net.ParseIP("1.1.1.1").To4(), UDP: 1, TCP: 2}
	nodes := rpcNodes{}
	for i := 0; i < 3; i++ {
		nodes = append(nodes, rpcNode{IP: net.IP{10, 0, 2, byte(i + 1)}, UDP: 30303, TCP: 30303, ID: PubkeyID(newkey().PubKey().ToECDSA())})
	}
	type base struct {
		name string
		t    byte
		mk   func(exp uint64) interface{}
	}
	bases := []base{
		{"ping", tbase + 1, func(exp uint64) interface{} { return &ping{Version: 4, From: ep, To: ep, Expiration: exp} }},
		{"ping-tail", tbase + 1, func(exp uint64) interface{} {
			return &ping{Version: 555, From: ep, To: ep, Expiration: exp, Rest: []rlp.RawValue{{0x01}, {0xc2, 0x01, 0x02}}}
		}},
		{"pong", tbase + 2, func(exp uint64) interface{} { return &pong{To: ep, ReplyTok: make([]byte, 32), Expiration: exp} }},
		{"findnode", tbase + 3, func(exp uint64) interface{} { return &findnode{Target: PubkeyID(e.key.PubKey().ToECDSA()), Expiration: exp} }},
		{"neighbors", tbase + 4, func(exp uint64) interface{} { return &neighbors{Nodes: nodes, Expiration: exp} }},
		{"neighbors-empty", tbase + 4, func(exp uint64) interface{} { return &neighbors{Expiration: exp} }},
	}
	enc := func(b base, exp uint64) []byte {
		payload, err := rlp.EncodeToBytes(b.mk(exp))
		if err != nil {
			panic(err)
		}
		sd := append([]byte{b.t}, tag...)
		return append(sd, payload...)
	}
	for _, b := range bases {
		sd := enc(b, future)
		good := e.signed(sd, false)
		// the valid packet, in every receiver state
		for _, bonded := range []bool{false, true} {
			for _, sol := range []bool{false, true} {
				e.feed(discIn{kind: "valid-" + b.name, dgram: e.signed(sd, sol), sigBy: "K", payloadOK: "yes", bonded: bonded, solicited: sol})
				e.feed(discIn{kind: "expired-" + b.name, dgram: e.signed(enc(b, past), sol), sigBy: "K", payloadOK: "yes", expired: true, bonded: bonded, solicited: sol})
			}
		}
		// cross-check with the package's own encoder
		if own, _, err := encodePacket(e.netcompat, e.sk([]byte{b.t}, true), b.t, b.mk(future)); err == nil {
			e.feed(discIn{kind: "encodePacket-" + b.name, dgram: own, sigBy: "K", payloadOK: "yes", bonded: true, solicited: true})
		}
		// raw truncation at every length (hash goes stale), and zero-extension
		for k := 0; k < len(good); k++ {
			e.feed(discIn{kind: "trunc-raw", pos: k, dgram: good[:k], sigBy: "stale", payloadOK: "unknown"})
		}
		// truncation under a good hash and signature: every length of sigdata, including 1..4 bytes
		for k := 0; k <= len(sd); k++ {
			pk := "unknown"
			if k == len(sd) {
				pk = "yes"
			}
			e.feed(discIn{kind: "trunc-signed", pos: k, dgram: e.signed(sd[:k], true), sigBy: "K", payloadOK: pk, bonded: true, solicited: true})
		}
		// single-byte substitutions
		step := 1
		if !thorough {
			step = 3
		}
		for pos := rng.Intn(step); pos < len(good); pos += step {
			for _, delta := range []byte{1, 0x80, byte(1 + rng.Intn(255))} {
				m := append([]byte{}, good...)
				m[pos] ^= delta
				e.feed(discIn{kind: "flip-raw", pos: pos, dgram: m, sigBy: "stale", payloadOK: "unknown", bonded: true})
				if pos >= macSize {
					e.feed(discIn{kind: "flip-rehashed", pos: pos, dgram: rehash(m), sigBy: "stale", payloadOK: "unknown"})
				}
				if pos >= headSize {
					e.feed(discIn{kind: "flip-resigned", pos: pos, dgram: e.signed(m[headSize:], true), sigBy: "K", payloadOK: "unknown", bonded: true, solicited: true})
				}
			}
		}
	}
	// every type byte under a good signature, with a ping payload and with nothing after it
	pingPayload, _ := rlp.EncodeToBytes(&ping{Version: 4, From: ep, To: ep, Expiration: future})
	for tb := 0; tb < 256; tb++ {
		sd := append(append([]byte{byte(tb)}, tag...), pingPayload...)
		e.feed(discIn{kind: "type-byte", pos: tb, dgram: e.signed(sd, true), sigBy: "K", payloadOK: "unknown", bonded: true, solicited: true})
		for extra := 0; extra <= 5; extra++ {
			e.feed(discIn{kind: "type-byte-short", pos: tb, dgram: e.signed(append([]byte{byte(tb)}, make([]byte, extra)...), true), sigBy: "K", payloadOK: "unknown", bonded: true, solicited: true})
		}
	}
	// malformed RLP under a good signature
	corpus := [][]byte{
		{}, {0x80}, {0xc0}, {0xbf}, {0xff}, {0xf8}, {0xb8}, {0xc1}, {0xc1, 0x80}, {0x81, 0x01}, {0xb8, 0x01, 0x01}, {0xf8, 0x01, 0x80},
		{0xbb, 0xff, 0xff, 0xff, 0xff}, {0xfb, 0xff, 0xff, 0xff, 0xff}, {0xbf, 0xff, 0xff, 0xff, 0xff, 0xff, 0xff, 0xff, 0xff},
		{0xff, 0xff, 0xff, 0xff, 0xff, 0xff, 0xff, 0xff, 0xff}, {0xfa, 0xff, 0xff, 0xff}, {0xf9, 0xff, 0xff},
		bytes.Repeat([]byte{0xc1}, 1000), append(bytes.Repeat([]byte{0xf8, 0xff}, 100), 0x80),
		{0xc6, 0x04, 0xc0, 0xc0, 0x80, 0x80, 0x80}, {0xc9, 0x83, 0x01, 0x02, 0x03, 0xc0, 0xc0, 0x84, 0xff, 0xff, 0xff, 0xff},
	}
	n := 200
	if thorough {
		n = 5000
	}
	for i := 0; i < n; i++ {
		b := make([]byte, rng.Intn(60))
		rng.Read(b)
		if len(b) > 0 && rng.Intn(2) == 0 {
			b[0] = byte(0xc0 + rng.Intn(64))
		}
		corpus = append(corpus, b)
	}
	for i, c := range corpus {
		for _, tb := range []byte{tbase + 1, tbase + 2, tbase + 3, tbase + 4} {
			sd := append(append([]byte{tb}, tag...), c...)
			if headSize+len(sd) > 1280 {
				continue
			}
			e.feed(discIn{kind: "bad-rlp", pos: i, dgram: e.signed(sd, true), sigBy: "K", payloadOK: "unknown", bonded: true, solicited: true})
		}
	}
	// random datagrams of every length class
	for i := 0; i < n; i++ {
		l := []int{0, 1, 31, 32, 33, 96, 97, 98, 99, 100, 101, 102, 103, 104, 200, 1280}[rng.Intn(16)]
		b := make([]byte, l)
		rng.Read(b)
		e.feed(discIn{kind: "random", pos: l, dgram: b, sigBy: "garbage", payloadOK: "unknown"})
		e.feed(discIn{kind: "random-rehashed", pos: l, dgram: rehash(b), sigBy: "garbage", payloadOK: "unknown"})
	}
}
