//go:build verif

package p2p

// C17 driver (RLPx): real rlpx transports over net.Pipe.
//   "session": an honest writer and an honest reader with a man in the middle under the writer (below the encryption
//      layer): flips, byte drops, byte duplications, truncations at an offset of a chosen message or handshake packet,
//      whole-message drop / replay / swap.  The driver records what was written, what was delivered and `firstBad` = the
//      first message whose position on the wire no longer carries the bytes that were written (computed by comparing the
//      tampered stream with the original).
//   "hostile": a peer with valid keys and correct MACs that writes malformed content: snappy headers announcing huge
//      lengths, payloads that inflate beyond 16 MiB, empty frames, non-canonical codes, handshake packets with invalid
//      curve points / signatures / sizes / RLP under a valid ECIES envelope.
// Every read runs under recover with the transport's own deadlines; allocation is measured.  SessionTrace.tla judges.

import (
	"bufio"
	"bytes"
	"context"
	"crypto/ecdsa"
	crand "crypto/rand"
	"encoding/binary"
	"encoding/json"
	"fmt"
	"gitlab.com/aquachain/aquachain/p2p/netutil"
	"io"
	"io/ioutil"
	"math/rand"
	"net"
	"os"
	"runtime"
	"strconv"
	"strings"
	"sync"
	"testing"
	"time"

	"github.com/golang/snappy"
	"gitlab.com/aquachain/aquachain/common/log"
	"gitlab.com/aquachain/aquachain/crypto"
	"gitlab.com/aquachain/aquachain/crypto/ecies"
	"gitlab.com/aquachain/aquachain/p2p/discover"
	"gitlab.com/aquachain/aquachain/rlp"
	"golang.org/x/crypto/sha3"
)

type svw struct {
	mu sync.Mutex
	w  *bufio.Writer
	n  int
}

func (v *svw) emit(e interface{}) {
	b, err := json.Marshal(e)
	if err != nil {
		panic(err)
	}
	v.mu.Lock()
	v.w.Write(b)
	v.w.WriteByte('\n')
	v.n++
	v.mu.Unlock()
}

func sdigest(b []byte) string {
	h := sha3.NewLegacyKeccak256()
	h.Write(b)
	return fmt.Sprintf("%x", h.Sum(nil)[:8])
}

type sMsg struct {
	Code uint64 `json:"code"`
	Size int    `json:"size"`
	Dg   string `json:"dg"`
}

type sTamper struct {
	Phase string `json:"phase"` // "none" | "auth" | "ack" | "frames"
	Kind  string `json:"kind"`  // flip | dropbyte | dupbyte | truncate | dropmsg | replaymsg | swapmsg
	Msg   int    `json:"msg"`   // 1-based message (frames phase)
	Off   int    `json:"off"`   // offset inside the message / packet; negative = from the end
}

// tamperConn sits under the writer's rlpx layer.  Handshake packets are single Write calls; frame bytes are buffered per
// message (between begin() and end()) so that offsets relative to the end can be addressed.
type tamperConn struct {
	net.Conn
	tp      sTamper
	hsPhase string // which handshake packet this side writes
	cur     []byte
	inMsg   bool
	msgNo   int
	orig    bytes.Buffer // what the writer wrote (frames phase)
	sent    bytes.Buffer // what was put on the wire (frames phase)
	bounds  []int        // end offset of each message in orig
	held    []byte       // a message held back (swap)
	dead    bool
	framing bool   // handshake done: frame deadlines are no-ops
	werr    string // a write to the pipe failed (driver trouble, not a verdict)
}

func (c *tamperConn) apply(b []byte) ([]byte, bool) {
	off := c.tp.Off
	if off < 0 {
		off = len(b) + off
	}
	if off < 0 || off >= len(b) {
		off = len(b) - 1
	}
	out := append([]byte{}, b...)
	switch c.tp.Kind {
	case "flip":
		out[off] ^= 0x04
	case "dropbyte":
		out = append(out[:off], out[off+1:]...)
	case "dupbyte":
		out = append(out[:off+1], out[off:]...)
	case "truncate":
		return out[:off], true
	}
	return out, false
}

func (c *tamperConn) Write(b []byte) (int, error) {
	if c.dead {
		return len(b), nil // the adversary swallowed the rest
	}
	if c.inMsg {
		c.cur = append(c.cur, b...)
		return len(b), nil
	}
	// handshake packet
	out := b
	cut := false
	if c.tp.Phase == c.hsPhase && c.hsPhase != "" {
		out, cut = c.apply(b)
	}
	c.hsPhase = "" // one handshake packet per side
	if _, err := c.Conn.Write(out); err != nil {
		return 0, err
	}
	if cut {
		c.dead = true
		c.Conn.Close()
	}
	return len(b), nil
}

// After the handshake the transport's per-frame deadlines (20 s write, 30 s read) are not applied to the pipe: what is judged is
// what is delivered, not how fast a loaded machine moves 16 MiB; a reader that waits for bytes is always released by the
// writer closing its end.  During the handshake deadlines pass through (they are the protocol's answer to a stalled peer).
func (c *tamperConn) SetDeadline(t time.Time) error {
	if c.framing {
		return nil
	}
	return c.Conn.SetDeadline(t)
}
func (c *tamperConn) SetReadDeadline(t time.Time) error {
	if c.framing {
		return nil
	}
	return c.Conn.SetReadDeadline(t)
}
func (c *tamperConn) SetWriteDeadline(t time.Time) error {
	if c.framing {
		return nil
	}
	return c.Conn.SetWriteDeadline(t)
}

func (c *tamperConn) begin() { c.inMsg, c.cur = true, nil; c.msgNo++ }
func (c *tamperConn) end() error {
	c.inMsg = false
	c.orig.Write(c.cur)
	c.bounds = append(c.bounds, c.orig.Len())
	if c.dead {
		return nil
	}
	out, cut := c.cur, false
	hit := c.tp.Phase == "frames" && c.tp.Msg == c.msgNo
	var err error
	put := func(b []byte) {
		c.sent.Write(b)
		if err == nil {
			if _, err = c.Conn.Write(b); err != nil && c.werr == "" {
				c.werr = err.Error()
			}
		}
	}
	switch {
	case hit && c.tp.Kind == "dropmsg":
	case hit && c.tp.Kind == "replaymsg":
		put(out)
		put(out)
	case hit && c.tp.Kind == "swapmsg":
		c.held = out
	case hit:
		out, cut = c.apply(c.cur)
		put(out)
	default:
		put(out)
		if c.held != nil {
			put(c.held)
			c.held = nil
		}
	}
	if cut {
		c.dead = true
		c.Conn.Close()
	}
	return err
}

// first message (1-based) whose position on the wire does not carry the bytes that were written
func (c *tamperConn) firstBad() int {
	o, s := c.orig.Bytes(), c.sent.Bytes()
	d := 0
	for d < len(o) && d < len(s) && o[d] == s[d] {
		d++
	}
	if d == len(o) { // everything written arrived in place (extra bytes may follow)
		return len(c.bounds) + 1
	}
	for i, e := range c.bounds {
		if d < e {
			return i + 1
		}
	}
	return len(c.bounds) + 1
}

func genKey() *ecdsa.PrivateKey {
	k, err := crypto.GenerateKey()
	if err != nil {
		panic(err)
	}
	return k.ToECDSA()
}

func nodeID(k *ecdsa.PrivateKey) discover.NodeID { return discover.PubkeyID(&k.PublicKey) }

type readResult struct {
	msgs  []sMsg
	err   string
	panic string
}

// read messages until an error; bounded by the transport's own read deadline
func readAll(t *rlpx, max int) (r readResult) {
	defer func() {
		if p := recover(); p != nil {
			r.panic = fmt.Sprint(p)
		}
	}()
	r.msgs = []sMsg{}
	for len(r.msgs) < max {
		msg, err := t.ReadMsg()
		if err != nil {
			r.err = err.Error()
			return
		}
		b, err := ioutil.ReadAll(msg.Payload)
		if err != nil {
			r.err = "payload: " + err.Error()
			return
		}
		r.msgs = append(r.msgs, sMsg{msg.Code, len(b), sdigest(b)})
		if int(msg.Size) != len(b) {
			r.err = fmt.Sprintf("size field %d != payload %d", msg.Size, len(b))
			return
		}
	}
	return
}

func mkPayload(rng *rand.Rand, size int) []byte {
	b := make([]byte, size)
	switch rng.Intn(3) {
	case 0: // compressible
		for i := range b {
			b[i] = byte(i / 64)
		}
	case 1:
		rng.Read(b)
	default:
		if size > 0 {
			b[rng.Intn(size)] = 0xff
		}
	}
	return b
}

func runSession(w *svw, rng *rand.Rand, idx int, tp sTamper, snap bool, sizes []int, initiatorWrites bool) {
	fdI, fdR := net.Pipe()
	prvI, prvR := genKey(), genKey()
	tcI := &tamperConn{Conn: fdI, tp: tp, hsPhase: "auth"}
	tcR := &tamperConn{Conn: fdR, tp: tp, hsPhase: "ack"}
	tI := newRLPX(tcI).(*rlpx)
	tR := newRLPX(tcR).(*rlpx)
	type hsRes struct {
		id    discover.NodeID
		err   error
		panic string
	}
	chI, chR := make(chan hsRes, 1), make(chan hsRes, 1)
	start := time.Now()
	go func() {
		var r hsRes
		defer func() {
			if p := recover(); p != nil {
				r.panic = fmt.Sprint(p)
			}
			chI <- r
		}()
		r.id, r.err = tI.doEncHandshake(prvI, &discover.Node{ID: nodeID(prvR)})
		if r.err != nil {
			fdI.Close()
		}
	}()
	go func() {
		var r hsRes
		defer func() {
			if p := recover(); p != nil {
				r.panic = fmt.Sprint(p)
			}
			chR <- r
		}()
		r.id, r.err = tR.doEncHandshake(prvR, nil)
		if r.err != nil {
			fdR.Close()
		}
	}()
	rI, rR := <-chI, <-chR
	hsMs := time.Since(start).Milliseconds()
	es := func(e error) string {
		if e == nil {
			return ""
		}
		return e.Error()
	}
	ev := map[string]interface{}{"e": "session", "idx": idx, "snappy": snap, "tamper": tp, "initiatorWrites": initiatorWrites,
		"hsErrI": es(rI.err), "hsErrR": es(rR.err), "hsPanic": rI.panic + rR.panic, "hsMs": hsMs,
		"idI": rI.err == nil && rI.id == nodeID(prvR), "idR": rR.err == nil && rR.id == nodeID(prvI),
		"sent": []sMsg{}, "delivered": []sMsg{}, "err": "", "panic": "", "firstBad": 1, "refused": []int{}, "readMs": 0, "pipeErr": "", "wedge": false}
	if rI.err != nil || rR.err != nil || rI.panic != "" || rR.panic != "" {
		fdI.Close()
		fdR.Close()
		w.emit(ev)
		return
	}
	wr, rd, wc := tI, tR, tcI
	if !initiatorWrites {
		wr, rd, wc = tR, tI, tcR
	}
	wr.rw.snappy, rd.rw.snappy = snap, snap
	// the frames travel with no deadline pending
	fdI.SetDeadline(time.Time{})
	fdR.SetDeadline(time.Time{})
	tcI.framing, tcR.framing = true, true
	done := make(chan readResult, 1)
	rstart := time.Now()
	go func() {
		r := readAll(rd, len(sizes)+2)
		go io.Copy(ioutil.Discard, rd.fd) // the reader gave up: let the writer finish (net.Pipe is synchronous)
		done <- r
	}()
	sent := []sMsg{}
	refused := []int{}
	for i, sz := range sizes {
		p := mkPayload(rng, sz)
		code := []uint64{0, 1, 16, 127, 128, 1 << 20, 1<<64 - 1}[rng.Intn(7)]
		wc.begin()
		err := wr.WriteMsg(Msg{Code: code, Size: uint32(len(p)), Payload: bytes.NewReader(p)})
		if err != nil && len(wc.cur) == 0 {
			// refused before anything was written
			wc.inMsg = false
			wc.msgNo--
			refused = append(refused, i+1)
			continue
		}
		wc.end()
		sent = append(sent, sMsg{code, len(p), sdigest(p)})
	}
	wc.Conn.Close() // the writer is done: the reader sees EOF after the last byte
	var res readResult
	wedge := false
	select {
	case res = <-done:
	case <-time.After(15 * time.Minute):
		wedge, res.msgs = true, []sMsg{}
	}
	fdI.Close()
	fdR.Close()
	ev["sent"], ev["delivered"], ev["err"], ev["panic"], ev["firstBad"], ev["refused"] = sent, res.msgs, res.err, res.panic, wc.firstBad(), refused
	ev["readMs"] = time.Since(rstart).Milliseconds()
	ev["pipeErr"] = wc.werr
	ev["wedge"] = wedge
	w.emit(ev)
}

// ---------------------------------------------------------------------------------------------------------------
// hostile peer with valid keys

type hostileCase struct {
	kind   string
	snappy bool
	expect string // "error": ReadMsg must fail; "deliver": the message written is delivered as written
	// write the hostile frame with an honest frame writer whose snappy is off, so that raw payload bytes go out
	code    uint64
	payload []byte
	rawCode []byte // if set: the frame content is rawCode || payload (code encoding under the attacker's control)
}

func snappyHeader(n uint64, rest ...byte) []byte {
	b := make([]byte, 10)
	k := binary.PutUvarint(b, n)
	return append(b[:k], rest...)
}

func runHostileFrames(w *svw, rng *rand.Rand, thorough bool) {
	zeros := func(n int) []byte { return make([]byte, n) }
	max := int(maxUint24)
	cases := []hostileCase{
		{kind: "snappy-announce-16M+1", snappy: true, expect: "error", code: 16, payload: snappyHeader(uint64(max) + 1)},
		{kind: "snappy-announce-768M", snappy: true, expect: "error", code: 16, payload: snappyHeader(768<<20, 0x00, 0x00, 0x00)},
		{kind: "snappy-announce-1G", snappy: true, expect: "error", code: 16, payload: snappyHeader(1<<30, 0xfe, 0x00, 0x00)},
		{kind: "snappy-announce-2^63", snappy: true, expect: "error", code: 16, payload: snappyHeader(1 << 63)},
		{kind: "snappy-inflate-40M", snappy: true, expect: "error", code: 16, payload: snappy.Encode(nil, zeros(40<<20))},
		{kind: "snappy-inflate-16M+1", snappy: true, expect: "error", code: 16, payload: snappy.Encode(nil, zeros(max+1))},
		{kind: "snappy-inflate-16M", snappy: true, expect: "deliver", code: 16, payload: snappy.Encode(nil, zeros(max))},
		{kind: "snappy-garbage", snappy: true, expect: "error", code: 16, payload: []byte{0x05, 0xff, 0xff, 0xff}},
		{kind: "snappy-empty", snappy: true, expect: "error", code: 16, payload: []byte{}},
		{kind: "snappy-short-body", snappy: true, expect: "error", code: 16, payload: snappyHeader(1000, 0x00)},
		{kind: "empty-frame", expect: "error", rawCode: []byte{}, payload: []byte{}},
		{kind: "code-is-list", expect: "error", rawCode: []byte{0xc0}, payload: []byte{1, 2, 3}},
		{kind: "code-noncanonical", expect: "error", rawCode: []byte{0x81, 0x05}, payload: []byte{1, 2, 3}},
		{kind: "code-leading-zero", expect: "error", rawCode: []byte{0x82, 0x00, 0x05}, payload: []byte{1}},
		{kind: "code-9-bytes", expect: "error", rawCode: []byte{0x89, 1, 2, 3, 4, 5, 6, 7, 8, 9}, payload: []byte{1}},
		{kind: "code-truncated", expect: "error", rawCode: []byte{0x88, 1, 2}, payload: []byte{}},
		{kind: "plain-16M-1", expect: "deliver", code: 1, payload: zeros(max - 1)},
		{kind: "plain-small", expect: "deliver", code: 1<<64 - 1, payload: []byte{0xff}},
	}
	for i, c := range cases {
		if !thorough && i%2 == 1 && c.expect == "error" && len(c.payload) > 1<<20 {
			continue
		}
		fdA0, fdV0 := net.Pipe()
		fdA, fdV := &tamperConn{Conn: fdA0}, &tamperConn{Conn: fdV0}
		prvA, prvV := genKey(), genKey()
		tA, tV := newRLPX(fdA).(*rlpx), newRLPX(fdV).(*rlpx)
		errc := make(chan error, 1)
		go func() { _, err := tA.doEncHandshake(prvA, &discover.Node{ID: nodeID(prvV)}); errc <- err }()
		_, errV := tV.doEncHandshake(prvV, nil)
		if errA := <-errc; errA != nil || errV != nil {
			panic(fmt.Sprint("handshake failed ", errA, errV))
		}
		fdA.SetDeadline(time.Time{})
		fdV.SetDeadline(time.Time{})
		fdA.framing, fdV.framing = true, true
		tV.rw.snappy = c.snappy
		tA.rw.snappy = false
		content := c.payload
		code := c.code
		var sent sMsg
		if c.expect == "deliver" {
			plain := c.payload
			if c.snappy {
				plain, _ = snappy.Decode(nil, c.payload)
			}
			sent = sMsg{code, len(plain), sdigest(plain)}
		}
		go func() {
			if c.rawCode != nil {
				// frame content fully under the attacker's control: encode "code" = first byte trick is impossible through
				// WriteMsg, so write the frame by hand with the attacker's (correct) secrets
				writeRawFrame(tA.rw, append(append([]byte{}, c.rawCode...), content...))
			} else {
				tA.rw.WriteMsg(Msg{Code: code, Size: uint32(len(content)), Payload: bytes.NewReader(content)})
			}
			fdA.Close()
		}()
		var ms1, ms2 runtime.MemStats
		runtime.GC()
		runtime.ReadMemStats(&ms1)
		start := time.Now()
		res := readAll(tV, 1)
		runtime.ReadMemStats(&ms2)
		fdV.Close()
		w.emit(map[string]interface{}{"e": "hostile", "kind": c.kind, "snappy": c.snappy, "expect": c.expect, "wire": len(content),
			"sent": sent, "delivered": res.msgs, "err": res.err, "panic": res.panic, "alloc": ms2.TotalAlloc - ms1.TotalAlloc, "ms": time.Since(start).Milliseconds()})
	}
}

// an honest frame around arbitrary content (the code bytes are part of content)
func writeRawFrame(rw *rlpxFrameRW, content []byte) {
	headbuf := make([]byte, 32)
	fsize := uint32(len(content))
	putInt24(fsize, headbuf)
	copy(headbuf[3:], zeroHeader)
	rw.enc.XORKeyStream(headbuf[:16], headbuf[:16])
	copy(headbuf[16:], updateMAC(rw.egressMAC, rw.macCipher, headbuf[:16]))
	rw.conn.Write(headbuf)
	body := append([]byte{}, content...)
	if padding := fsize % 16; padding > 0 {
		body = append(body, make([]byte, 16-padding)...)
	}
	rw.enc.XORKeyStream(body, body)
	rw.egressMAC.Write(body)
	rw.conn.Write(body)
	fmacseed := rw.egressMAC.Sum(nil)
	rw.conn.Write(updateMAC(rw.egressMAC, rw.macCipher, fmacseed))
}

// hostile handshake packets under a valid ECIES envelope
func runHostileHandshakes(w *svw, rng *rand.Rand) {
	badPoints := map[string][]byte{
		"zero":       make([]byte, 64),
		"one-one":    append(append(make([]byte, 31), 1), append(make([]byte, 31), 1)...),
		"ff":         bytes.Repeat([]byte{0xff}, 64),
		"x-ok-y-bad": nil,
	}
	good := crypto.FromECDSAPub(&genKey().PublicKey)[1:]
	xb := append([]byte{}, good...)
	xb[63] ^= 1
	badPoints["x-ok-y-bad"] = xb
	eofCase := map[string]bool{"auth-size-65535-then-eof": true, "auth-short-then-eof": true}
	run := func(kind string, victimInitiates bool, attacker func(conn net.Conn, victimPub *ecdsa.PublicKey, auth []byte)) {
		fdA, fdV := net.Pipe()
		prvV := genKey()
		prvA := genKey()
		tV := newRLPX(fdV).(*rlpx)
		verdict := make(chan struct{})
		go func() {
			defer fdA.Close()
			var auth []byte
			if victimInitiates {
				// read the victim's auth packet (EIP-8: 2-byte size prefix)
				pre := make([]byte, 2)
				if _, err := io.ReadFull(fdA, pre); err != nil {
					return
				}
				rest := make([]byte, binary.BigEndian.Uint16(pre))
				if _, err := io.ReadFull(fdA, rest); err != nil {
					return
				}
				auth = append(pre, rest...)
			}
			attacker(fdA, &prvV.PublicKey, auth)
			go io.Copy(ioutil.Discard, fdA) // swallow whatever the victim answers
			// keep the pipe open until the victim has given its verdict (it must not depend on seeing EOF), unless the case
			// is about EOF
			if eofCase[kind] {
				return
			}
			select {
			case <-verdict:
			case <-time.After(10 * time.Second):
			}
		}()
		var (
			err error
			pn  string
			ms1 runtime.MemStats
			ms2 runtime.MemStats
		)
		runtime.ReadMemStats(&ms1)
		start := time.Now()
		func() {
			defer func() {
				if p := recover(); p != nil {
					pn = fmt.Sprint(p)
				}
			}()
			if victimInitiates {
				_, err = tV.doEncHandshake(prvV, &discover.Node{ID: nodeID(prvA)})
			} else {
				_, err = tV.doEncHandshake(prvV, nil)
			}
		}()
		runtime.ReadMemStats(&ms2)
		close(verdict)
		fdV.Close()
		es := ""
		if err != nil {
			es = err.Error()
		}
		if len(es) > 100 {
			es = es[:100]
		}
		class := "reject"
		switch {
		case kind == "valid-initiator":
			class = "valid"
		case eofCase[kind] || kind == "auth-sig-v-4" || kind == "ack-random":
			class = "any" // the verdict may legitimately wait for more bytes (deadline) or depend on what the random bytes recover to
		}
		w.emit(map[string]interface{}{"e": "hostile-hs", "kind": kind, "class": class, "timedOut": strings.Contains(es, "timeout"), "victimInitiates": victimInitiates, "err": es, "panic": pn,
			"ms": time.Since(start).Milliseconds(), "alloc": ms2.TotalAlloc - ms1.TotalAlloc})
	}
	seal := func(msg interface{}, to *ecdsa.PublicKey) []byte {
		h := &encHandshake{remotePub: ecies.ImportECDSAPublic(to)}
		p, err := sealEIP8(msg, h)
		if err != nil {
			panic(err)
		}
		return p
	}
	sealRaw := func(plain []byte, to *ecdsa.PublicKey) []byte {
		prefix := make([]byte, 2)
		binary.BigEndian.PutUint16(prefix, uint16(len(plain)+eciesOverhead))
		enc, err := ecies.Encrypt(crand.Reader, ecies.ImportECDSAPublic(to), plain, nil, prefix)
		if err != nil {
			panic(err)
		}
		return append(prefix, enc...)
	}
	// auth-ack with an invalid ephemeral key, to a dialing victim
	for name, pt := range badPoints {
		pt := pt
		run("ack-badpoint-"+name, true, func(conn net.Conn, vpub *ecdsa.PublicKey, auth []byte) {
			resp := &authRespV4{Version: 4}
			copy(resp.RandomPubkey[:], pt)
			crand.Read(resp.Nonce[:])
			conn.Write(seal(resp, vpub))
		})
		run("ack-plain-badpoint-"+name, true, func(conn net.Conn, vpub *ecdsa.PublicKey, auth []byte) {
			buf := make([]byte, authRespLen)
			copy(buf, pt)
			enc, _ := ecies.Encrypt(crand.Reader, ecies.ImportECDSAPublic(vpub), buf, nil, nil)
			conn.Write(enc)
		})
		// auth with an invalid static key / garbage signature, to a listening victim
		run("auth-badstatic-"+name, false, func(conn net.Conn, vpub *ecdsa.PublicKey, auth []byte) {
			m := &authMsgV4{Version: 4}
			copy(m.InitiatorPubkey[:], pt)
			crand.Read(m.Signature[:])
			crand.Read(m.Nonce[:])
			conn.Write(seal(m, vpub))
		})
	}
	run("auth-badsig", false, func(conn net.Conn, vpub *ecdsa.PublicKey, auth []byte) {
		m := &authMsgV4{Version: 4}
		copy(m.InitiatorPubkey[:], good)
		for i := range m.Signature {
			m.Signature[i] = 0xff
		}
		conn.Write(seal(m, vpub))
	})
	run("auth-sig-v-4", false, func(conn net.Conn, vpub *ecdsa.PublicKey, auth []byte) {
		m := &authMsgV4{Version: 4}
		copy(m.InitiatorPubkey[:], good)
		crand.Read(m.Signature[:])
		m.Signature[64] = 4
		conn.Write(seal(m, vpub))
	})
	for _, plain := range [][]byte{{0xc0}, {0x80}, {0xff, 0xff, 0xff, 0xff, 0xff}, {0xf9, 0xff, 0xff}, bytes.Repeat([]byte{0xc1}, 400), {0xc3, 0x01, 0x02, 0x03}} {
		plain := append(append([]byte{}, plain...), make([]byte, 400)...) // EIP-8: at least 100 bytes of padding after the RLP value
		run(fmt.Sprintf("auth-rlp-%x", plain[:min(len(plain), 4)]), false, func(conn net.Conn, vpub *ecdsa.PublicKey, auth []byte) { conn.Write(sealRaw(plain, vpub)) })
		run(fmt.Sprintf("ack-rlp-%x", plain[:min(len(plain), 4)]), true, func(conn net.Conn, vpub *ecdsa.PublicKey, auth []byte) { conn.Write(sealRaw(plain, vpub)) })
	}
	// sizes
	run("auth-size-underflow", false, func(conn net.Conn, vpub *ecdsa.PublicKey, auth []byte) {
		b := make([]byte, encAuthMsgLen)
		crand.Read(b)
		b[0], b[1] = 0, 10
		conn.Write(b)
	})
	run("auth-size-65535-then-eof", false, func(conn net.Conn, vpub *ecdsa.PublicKey, auth []byte) {
		b := make([]byte, encAuthMsgLen)
		crand.Read(b)
		b[0], b[1] = 0xff, 0xff
		conn.Write(b)
	})
	run("auth-short-then-eof", false, func(conn net.Conn, vpub *ecdsa.PublicKey, auth []byte) { conn.Write(make([]byte, 17)) })
	run("ack-echo-auth", true, func(conn net.Conn, vpub *ecdsa.PublicKey, auth []byte) { conn.Write(auth) })
	run("ack-random", true, func(conn net.Conn, vpub *ecdsa.PublicKey, auth []byte) {
		b := make([]byte, encAuthRespLen+50)
		crand.Read(b)
		conn.Write(b)
	})
	// a valid handshake, for contrast (must succeed)
	run("valid-initiator", false, func(conn net.Conn, vpub *ecdsa.PublicKey, auth []byte) {
		initiatorEncHandshake(conn, genKey(), discover.PubkeyID(vpub))
	})
}

// a connected peer receives base-protocol messages from the remote (disconnect with every reason value, ping, pong, unknown
// base codes, garbage payloads) while the server's own per-peer goroutine (Server.runPeer) is running it
func runPeerBaseMessages(w *svw, rng *rand.Rand) {
	type bcase struct {
		kind    string
		code    uint64
		payload []byte
	}
	enc := func(v interface{}) []byte {
		b, err := rlp.EncodeToBytes(v)
		if err != nil {
			panic(err)
		}
		return b
	}
	cases := []bcase{}
	for _, r := range []uint64{0, 1, 2, 3, 4, 5, 6, 7, 8, 9, 10, 11, 12, 13, 14, 15, 16, 17, 18, 19, 32, 255, 256, 1 << 31, 1 << 32, 1<<63 - 1, 1 << 63, 1<<64 - 1} {
		cases = append(cases, bcase{fmt.Sprintf("disc-%d", r), discMsg, enc([]uint64{r})})
	}
	cases = append(cases, bcase{"disc-empty", discMsg, []byte{}}, bcase{"disc-emptylist", discMsg, []byte{0xc0}}, bcase{"disc-string", discMsg, []byte{0x83, 1, 2, 3}},
		bcase{"disc-two", discMsg, enc([]uint64{3, 4})}, bcase{"disc-garbage", discMsg, []byte{0xff, 0xff, 0xff}},
		bcase{"ping", pingMsg, []byte{0xc0}}, bcase{"pong", pongMsg, []byte{0xc0}}, bcase{"ping-garbage", pingMsg, []byte{0xff}},
		bcase{"handshake-again", handshakeMsg, []byte{0xc0}}, bcase{"base-4", 4, []byte{0xc0}}, bcase{"base-15", 15, []byte{0xc0}},
		bcase{"unknown-proto-code", 16, []byte{0xc0}}, bcase{"code-huge", 1 << 40, []byte{0xc0}})
	for _, c := range cases {
		fd1, fd2 := net.Pipe()
		c1 := &conn{fd: fd1, transport: newTestTransport(randomID(), fd1)}
		c2 := &conn{fd: fd2, transport: newTestTransport(randomID(), fd2)}
		peer := newPeer(c1, nil)
		srv := &Server{delpeer: make(chan peerDrop, 1)}
		done := make(chan string, 1)
		go func() {
			pn := ""
			defer func() {
				if r := recover(); r != nil {
					pn = fmt.Sprint(r)
				}
				done <- pn
			}()
			srv.runPeer(peer)
		}()
		go io.Copy(ioutil.Discard, fd2) // whatever the peer writes (pings, disconnect reason)
		go c2.WriteMsg(Msg{Code: c.code, Size: uint32(len(c.payload)), Payload: bytes.NewReader(c.payload)})
		pn, outcome := "", "returned"
		select {
		case pn = <-done:
			if pn != "" {
				outcome = "panic"
			}
		case <-time.After(2 * time.Second):
			// nothing made the peer stop (ping, pong, ignored codes): that is fine, close from the remote side
			outcome = "running"
			fd2.Close()
			select {
			case pn = <-done:
				if pn != "" {
					outcome = "panic"
				}
			case <-time.After(10 * time.Minute):
				outcome = "wedge"
			}
		}
		fd1.Close()
		fd2.Close()
		w.emit(map[string]interface{}{"e": "peermsg", "kind": c.kind, "outcome": outcome, "panic": pn, "err": pn})
	}
}

// a listening server with a connection whitelist: attempts from outside the whitelist are refused - and after any number of
// them an honest peer from inside it still gets its handshake answered (the accept loop does not wedge)
func runListenerRejections(w *svw) {
	allow, _ := netutil.ParseNetlist("127.0.0.2/32")
	prv, _ := crypto.GenerateKey()
	srv := &Server{Config: &Config{Name: "verif", MaxPeers: 10, MaxPendingPeers: 4, ListenAddr: "127.0.0.1:0", PrivateKey: prv, ChainId: 222,
		NoDiscovery: true, NetRestrict: allow}}
	if err := srv.Start(context.Background()); err != nil {
		w.emit(map[string]interface{}{"e": "listener", "skipped": "start: " + err.Error(), "rejected": 0, "honest": "", "err": "", "kind": "listener"})
		return
	}
	defer func() { go srv.Stop() }() // a wedged accept loop also wedges Stop: do not wait for it
	rejected := 0
	for i := 0; i < 12; i++ {
		c, err := net.DialTimeout("tcp", srv.ListenAddr, 5*time.Second)
		if err != nil {
			continue
		}
		c.SetReadDeadline(time.Now().Add(5 * time.Second))
		buf := make([]byte, 1)
		if _, err := c.Read(buf); err != nil { // refused connections are closed by the server
			rejected++
		}
		c.Close()
	}
	d := net.Dialer{LocalAddr: &net.TCPAddr{IP: net.IP{127, 0, 0, 2}}, Timeout: 5 * time.Second}
	c, err := d.Dial("tcp", srv.ListenAddr)
	if err != nil {
		w.emit(map[string]interface{}{"e": "listener", "skipped": "no second loopback address: " + err.Error(), "rejected": rejected, "honest": "", "err": "", "kind": "listener"})
		return
	}
	defer c.Close()
	c.SetDeadline(time.Now().Add(60 * time.Second))
	_, herr := initiatorEncHandshake(c, genKey(), discover.PubkeyID(&prv.ToECDSA().PublicKey))
	hs := ""
	if herr != nil {
		hs = herr.Error()
	}
	w.emit(map[string]interface{}{"e": "listener", "skipped": "", "rejected": rejected, "honest": hs, "err": hs, "kind": "listener"})
}

func min(a, b int) int {
	if a < b {
		return a
	}
	return b
}

func TestVerifSession(t *testing.T) {
	log.Root().SetHandler(log.DiscardHandler())
	seed, _ := strconv.ParseInt(os.Getenv("VERIF_SEED"), 10, 64)
	thorough := os.Getenv("VERIF_TIER") == "thorough"
	nsess, _ := strconv.Atoi(os.Getenv("VERIF_SESSIONS"))
	if nsess == 0 {
		nsess = 150
	}
	out := os.Getenv("VERIF_OUT")
	if out == "" {
		out = os.DevNull
	}
	f, err := os.Create(out)
	if err != nil {
		t.Fatal(err)
	}
	defer f.Close()
	w := &svw{w: bufio.NewWriterSize(f, 1<<20)}
	defer w.w.Flush()
	rng := rand.New(rand.NewSource(seed))
	sizeClasses := []int{0, 1, 14, 15, 16, 17, 31, 32, 33, 100, 255, 256, 1000, 4096, 70000}
	idx := 0
	one := func(tp sTamper, snap bool, sizes []int, iw bool) {
		idx++
		runSession(w, rng, idx, tp, snap, sizes, iw)
	}
	randSizes := func(n int) []int {
		s := make([]int, n)
		for i := range s {
			s[i] = sizeClasses[rng.Intn(len(sizeClasses))]
		}
		return s
	}
	// untampered sessions, including the size limit
	for _, snap := range []bool{false, true} {
		one(sTamper{Phase: "none"}, snap, randSizes(5), true)
		one(sTamper{Phase: "none"}, snap, randSizes(5), false)
		one(sTamper{Phase: "none"}, snap, []int{int(maxUint24) - 9, 3, int(maxUint24) + 1, 2, 1 << 25, 1}, true)
	}
	one(sTamper{Phase: "none"}, true, []int{int(maxUint24), 7}, true)
	// handshake tampering: every region of both packets
	for _, ph := range []string{"auth", "ack"} {
		offs := []int{2, 3, 40, 66, 67, 80, 120, 200, -1, -16, -33}
		if thorough {
			for i := 0; i < 40; i++ {
				offs = append(offs, 2+rng.Intn(300))
			}
		}
		for _, off := range offs {
			one(sTamper{Phase: ph, Kind: "flip", Off: off}, rng.Intn(2) == 0, randSizes(2), true)
		}
		one(sTamper{Phase: ph, Kind: "truncate", Off: 100}, false, randSizes(2), true)
		one(sTamper{Phase: ph, Kind: "truncate", Off: -1}, false, randSizes(2), true)
		one(sTamper{Phase: ph, Kind: "flip", Off: 1}, false, randSizes(2), true) // size prefix: the reader waits for bytes that never come
		one(sTamper{Phase: ph, Kind: "dropbyte", Off: 50}, false, randSizes(2), true)
		one(sTamper{Phase: ph, Kind: "dupbyte", Off: 50}, false, randSizes(2), true)
	}
	// frame tampering
	kinds := []string{"flip", "flip", "flip", "dropbyte", "dupbyte", "truncate", "dropmsg", "replaymsg", "swapmsg"}
	for i := 0; i < nsess; i++ {
		n := 1 + rng.Intn(5)
		sizes := randSizes(n)
		tp := sTamper{Phase: "frames", Kind: kinds[rng.Intn(len(kinds))], Msg: 1 + rng.Intn(n)}
		switch rng.Intn(6) {
		case 0:
			tp.Off = rng.Intn(16) // header
		case 1:
			tp.Off = 16 + rng.Intn(16) // header MAC
		case 2:
			tp.Off = -1 - rng.Intn(16) // frame MAC
		case 3:
			tp.Off = 32 // first frame byte (the code)
		case 4:
			tp.Off = -17 // last frame byte (padding)
		default:
			tp.Off = 32 + rng.Intn(sizes[tp.Msg-1]+1)
		}
		one(tp, rng.Intn(2) == 0, sizes, rng.Intn(2) == 0)
	}
	runHostileFrames(w, rng, thorough)
	runHostileHandshakes(w, rng)
	runPeerBaseMessages(w, rng)
	runListenerRejections(w)
	fmt.Printf("VERIF-STAT events=%d sessions=%d\n", w.n, idx)
}

var _ = rlp.EncodeToBytes
