//go:build verif

package console

// C18 driver: a real node.Node with the full aqua service on a dev chain, a keystore with one locked and one unlocked
// account (the unlocked one funded, with a pending transaction in the pool), all namespaces offered on every transport
// (in-process, IPC, HTTP, WebSocket).  The set of methods is taken from what each transport's rpc.Server actually serves
// (hook: rpc.VerifMethods), not from source.  Every method is called through a real client on every transport with four
// argument profiles synthesised from the parameter types; the keystore signing counter (hook) is read before and after
// each call.  The opt-in environment variables are read by package rpc at start-up, so the check runs this test once
// per environment assignment.  RpcTrace.tla judges.

import (
	"bufio"
	"context"
	"encoding/json"
	"fmt"
	"math/big"
	"os"
	"path/filepath"
	"reflect"
	"strings"
	"sync/atomic"
	"testing"
	"time"

	"gitlab.com/aquachain/aquachain/aqua"
	"gitlab.com/aquachain/aquachain/aqua/accounts"
	"gitlab.com/aquachain/aquachain/aqua/accounts/keystore"
	"gitlab.com/aquachain/aquachain/common"
	"gitlab.com/aquachain/aquachain/common/hexutil"
	alog "gitlab.com/aquachain/aquachain/common/log"
	"gitlab.com/aquachain/aquachain/consensus/aquahash"
	"gitlab.com/aquachain/aquachain/core"
	"gitlab.com/aquachain/aquachain/core/types"
	"gitlab.com/aquachain/aquachain/crypto"
	"gitlab.com/aquachain/aquachain/node"
	"gitlab.com/aquachain/aquachain/p2p"
	"gitlab.com/aquachain/aquachain/params"
	"gitlab.com/aquachain/aquachain/rpc"
	rpcclient "gitlab.com/aquachain/aquachain/rpc/rpcclient"
)

var rpcSkip = map[string]string{
	"admin_stopRPC":      "tears the HTTP endpoint down",
	"admin_stopWS":       "tears the WebSocket endpoint down",
	"admin_startRPC":     "replaces the HTTP endpoint",
	"admin_startWS":      "replaces the WebSocket endpoint",
	"debug_setGCPercent": "disables the garbage collector with the zero argument",
	"admin_shutdown":     "stops the process",
	"admin_sleep":        "sleeps",
	"admin_sleepBlocks":  "sleeps",
	"debug_verbosity":    "needs the command line's log set-up (internal/debug.Setup), absent in a library-built node",
	"debug_vmodule":      "needs the command line's log set-up (internal/debug.Setup), absent in a library-built node",
	"debug_backtraceAt":  "needs the command line's log set-up (internal/debug.Setup), absent in a library-built node",
}

func TestVerifRpcGuard(t *testing.T) {
	alog.Root().SetHandler(alog.DiscardHandler())
	out := os.Getenv("VERIF_OUT")
	if out == "" {
		out = os.DevNull
	}
	f, err := os.Create(out)
	if err != nil {
		t.Fatal(err)
	}
	defer f.Close()
	w := bufio.NewWriterSize(f, 1<<20)
	defer w.Flush()
	nev := 0
	emit := func(e interface{}) {
		b, err := json.Marshal(e)
		if err != nil {
			panic(err)
		}
		w.Write(b)
		w.WriteByte('\n')
		nev++
	}
	env := []string{}
	for _, k := range []string{"UNSAFE_RPC_SIGNING", "UNSAFE_ALLOW_SIGN_IPC", "UNSAFE_RPC_SIGNING_HTTP", "UNSAFE_RPC_SIGNING_WS", "UNSAFE_ALLOW_SIGN_INPROC"} {
		if v := os.Getenv(k); v != "" && v != "0" && v != "false" {
			env = append(env, k)
		}
	}

	workspace, err := os.MkdirTemp("", "verif-rpcguard-")
	if err != nil {
		t.Fatal(err)
	}
	defer os.RemoveAll(workspace)
	// the node locks <home>/.aquachain/<chain name>: give every run its own
	os.Setenv("HOME", workspace)
	// some methods write files named by their string argument: keep them out of the source tree
	if wd, err := os.Getwd(); err == nil {
		defer os.Chdir(wd)
	}
	scratch := filepath.Join(workspace, "cwd")
	os.MkdirAll(scratch, 0700)
	if err := os.Chdir(scratch); err != nil {
		t.Fatal(err)
	}
	ctx, cancel := context.WithCancel(context.Background())
	defer cancel()

	// accounts first, so that genesis can fund them
	const passU, passL = "open sesame", "locked away"
	ks0 := keystore.NewKeyStore(filepath.Join(workspace, "keystore"), keystore.LightScryptN, keystore.LightScryptP)
	keyU, _ := crypto.GenerateKey()
	keyL, _ := crypto.GenerateKey()
	accU, err := ks0.ImportECDSA(keyU, passU)
	if err != nil {
		t.Fatal(err)
	}
	accL, err := ks0.ImportECDSA(keyL, passL)
	if err != nil {
		t.Fatal(err)
	}

	chainId := uint64(7331)
	chaincfg := &params.ChainConfig{}
	*chaincfg = *params.TestChainConfig
	chaincfg.ChainId = new(big.Int).SetUint64(chainId)
	params.AddChainConfig(t.Name(), chaincfg)
	stack, err := node.New(&node.Config{
		Context:           ctx,
		CloseMain:         func(err error) { panic(err.Error()) },
		DataDir:           workspace,
		UseLightweightKDF: true,
		Name:              t.Name(),
		P2P:               &p2p.Config{ChainId: chainId},
		RPCAllowIP:        []string{"127.0.0.1/32"},
		IPCPath:           "verif.ipc",
		HTTPHost:          "127.0.0.1",
		HTTPPort:          0,
		HTTPModules:       []string{"admin", "aqua", "eth", "debug", "miner", "net", "personal", "rpc", "txpool", "web3", "testing"},
		HTTPVirtualHosts:  []string{"*"},
		WSHost:            "127.0.0.1",
		WSPort:            0,
		WSOrigins:         []string{"*"},
		WSExposeAll:       true,
	})
	if err != nil {
		t.Fatalf("node: %v", err)
	}
	genesis := core.DeveloperGenesisBlock(15, common.Address{})
	genesis.Config = chaincfg
	genesis.Alloc[accU.Address] = core.GenesisAccount{Balance: new(big.Int).Lsh(big.NewInt(1), 80)}
	genesis.Alloc[accL.Address] = core.GenesisAccount{Balance: new(big.Int).Lsh(big.NewInt(1), 80)}
	ethConf := &aqua.Config{Genesis: genesis, Aquabase: accU.Address, Aquahash: &aquahash.Config{PowMode: aquahash.ModeTest}, ChainId: chainId}
	nodename := func() string { def := node.NewDefaultConfig(); def.Name = t.Name(); return def.NodeName() }
	if err = stack.Register(func(nodectx *node.ServiceContext) (node.Service, error) {
		return aqua.New(ctx, nodectx, ethConf, nodename())
	}); err != nil {
		t.Fatal(err)
	}
	if err = stack.Start(ctx); err != nil {
		t.Fatalf("start: %v", err)
	}
	defer stack.Stop()
	var aquachain *aqua.Aquachain
	stack.Service(&aquachain)
	ks := stack.AccountManager().Backends(keystore.KeyStoreType)[0].(*keystore.KeyStore)

	handlers, endpoints := stack.VerifHandlers()
	clients := map[string]*rpcclient.Client{}
	for tr := range handlers {
		var c *rpcclient.Client
		var err error
		switch tr {
		case "inproc":
			c, err = stack.Attach(ctx, "verif")
		case "ipc":
			c, err = rpcclient.DialIPC(ctx, endpoints[tr])
		case "http":
			c, err = rpcclient.DialHTTP(endpoints[tr])
		case "ws":
			c, err = rpcclient.DialWebsocket(ctx, endpoints[tr], "http://localhost")
		}
		if err != nil {
			t.Fatalf("dial %s: %v", tr, err)
		}
		clients[tr] = c
	}
	emit(map[string]interface{}{"e": "node", "env": env, "transports": keysOf(handlers)})

	signer := types.NewEIP155Signer(chaincfg.ChainId)
	to := common.HexToAddress("0x00000000000000000000000000000000000000aa")
	basePrice := big.NewInt(2000000000)
	// a pending transaction of the unlocked account, signed with the raw key (not the keystore)
	var pending *types.Transaction
	ensurePending := func() {
		nonce := aquachain.TxPool().State().GetNonce(accU.Address)
		if pending != nil && aquachain.TxPool().Get(pending.Hash()) != nil {
			return
		}
		tx, err := types.SignTx(types.NewTransaction(nonce, to, big.NewInt(1), 21000, basePrice, nil), signer, keyU)
		if err != nil {
			t.Fatal(err)
		}
		if err := aquachain.TxPool().AddLocal(tx); err != nil {
			// an earlier call may have left a transaction with this nonce: take whatever is pending
			pend, _ := aquachain.TxPool().Pending()
			if txs := pend[accU.Address]; len(txs) > 0 {
				pending = txs[0]
				return
			}
			t.Fatalf("pending tx: %v", err)
		}
		pending = tx
	}

	data32 := "0x" + strings.Repeat("ab", 32)
	type profile struct {
		name string
		addr common.Address
		pass string
	}
	profiles := []profile{{"unlocked-rightpass", accU.Address, passU}, {"locked-rightpass", accL.Address, passL}, {"locked-wrongpass", accL.Address, "wrong"}, {"unlocked-pending", accU.Address, ""}}
	argFor := func(p profile, typ reflect.Type, pos int) interface{} {
		switch typ.String() {
		case "common.Address":
			return p.addr
		case "*common.Address":
			return &p.addr
		case "string":
			return p.pass
		case "*string":
			return &p.pass
		case "hexutil.Bytes":
			return data32
		case "aquaapi.SendTxArgs":
			m := map[string]interface{}{"from": p.addr, "to": to, "value": "0x1", "gas": "0x5208", "gasPrice": hexutil.EncodeBig(basePrice)}
			if p.name == "unlocked-pending" && pending != nil {
				m["nonce"] = hexutil.EncodeUint64(pending.Nonce())
				m["gasPrice"] = hexutil.EncodeBig(pending.GasPrice())
				m["value"] = hexutil.EncodeBig(pending.Value())
				m["gas"] = hexutil.EncodeUint64(pending.Gas())
				m["to"] = pending.To()
			}
			return m
		case "*hexutil.Big":
			return hexutil.EncodeBig(new(big.Int).Mul(basePrice, big.NewInt(3)))
		case "*hexutil.Uint64":
			return "0x7530"
		case "*uint64", "*int", "*bool", "*time.Duration":
			return nil
		}
		// anything else: the JSON of the zero value (null for pointers, maps and slices)
		if typ.Kind() == reflect.Ptr || typ.Kind() == reflect.Map || typ.Kind() == reflect.Slice || typ.Kind() == reflect.Interface {
			return nil
		}
		return reflect.Zero(typ).Interface()
	}

	calls, skipped := 0, 0
	dirty := true
	signedBy := map[string]bool{}
	for _, tr := range []string{"inproc", "ipc", "http", "ws"} {
		h := handlers[tr]
		if h == nil {
			continue
		}
		methods := rpc.VerifMethods(h)
		names := []string{}
		for _, m := range methods {
			names = append(names, m.Name)
		}
		emit(map[string]interface{}{"e": "served", "env": env, "transport": tr, "methods": names})
		for _, m := range methods {
			if m.Subscribe {
				continue
			}
			if why, skip := rpcSkip[m.Name]; skip {
				emit(map[string]interface{}{"e": "skipped", "env": env, "transport": tr, "method": m.Name, "why": why})
				skipped++
				continue
			}
			for _, p := range profiles {
				// account states as the profile names say (re-established after any call that may have changed them)
				if dirty {
					ks.Lock(accL.Address)
					if err := ks.TimedUnlock(accounts.Account{Address: accU.Address}, passU, 0); err != nil {
						t.Fatalf("unlock: %v", err)
					}
					dirty = false
				}
				if p.name == "unlocked-pending" {
					ensurePending()
				}
				args := []interface{}{}
				for i, typ := range m.Types {
					args = append(args, argFor(p, typ, i))
				}
				before := atomic.LoadUint64(&keystore.VerifSignCount)
				cctx, ccancel := context.WithTimeout(ctx, 15*time.Second)
				var result json.RawMessage
				err := clients[tr].CallContext(cctx, &result, m.Name, args...)
				ccancel()
				delta := atomic.LoadUint64(&keystore.VerifSignCount) - before
				if delta > 0 {
					signedBy[tr] = true
				}
				es := ""
				if err != nil {
					es = err.Error()
					if len(es) > 90 {
						es = es[:90]
					}
				}
				emit(map[string]interface{}{"e": "call", "env": env, "transport": tr, "method": m.Name, "profile": p.name, "args": append([]string{}, m.Args...),
					"signed": delta, "err": es, "batch": false})
				calls++
				// the same request as a JSON-RPC batch of one (a separate dispatch path in the server)
				if p.name == "unlocked-rightpass" || p.name == "unlocked-pending" {
					if dirty || strings.HasPrefix(m.Name, "personal_") || strings.HasPrefix(m.Name, "admin_") {
						ks.Lock(accL.Address)
						ks.TimedUnlock(accounts.Account{Address: accU.Address}, passU, 0)
					}
					if p.name == "unlocked-pending" {
						ensurePending()
					}
					before = atomic.LoadUint64(&keystore.VerifSignCount)
					bctx, bcancel := context.WithTimeout(ctx, 15*time.Second)
					var bres json.RawMessage
					elems := []rpcclient.BatchElem{{Method: m.Name, Args: args, Result: &bres}}
					berr := clients[tr].BatchCallContext(bctx, elems)
					bcancel()
					delta = atomic.LoadUint64(&keystore.VerifSignCount) - before
					if delta > 0 {
						signedBy[tr] = true
					}
					es = ""
					if berr != nil {
						es = berr.Error()
					} else if elems[0].Error != nil {
						es = elems[0].Error.Error()
					}
					if len(es) > 90 {
						es = es[:90]
					}
					emit(map[string]interface{}{"e": "call", "env": env, "transport": tr, "method": m.Name, "profile": p.name, "args": append([]string{}, m.Args...),
						"signed": delta, "err": es, "batch": true})
					calls++
				}
				if strings.HasPrefix(m.Name, "personal_") || strings.HasPrefix(m.Name, "admin_") {
					dirty = true
				}
				if m.Name == "miner_start" {
					aquachain.StopMining()
				}
			}
		}
	}
	signedOn := []string{}
	for _, tr := range []string{"inproc", "ipc", "http", "ws"} {
		if signedBy[tr] {
			signedOn = append(signedOn, tr)
		}
	}
	emit(map[string]interface{}{"e": "envsummary", "env": env, "signedOn": signedOn})
	fmt.Printf("VERIF-STAT events=%d calls=%d skipped=%d env=%s\n", nev, calls, skipped, strings.Join(env, ","))
}

func keysOf(m map[string]*rpc.Server) []string {
	out := []string{}
	for _, k := range []string{"inproc", "ipc", "http", "ws"} {
		if m[k] != nil {
			out = append(out, k)
		}
	}
	return out
}
