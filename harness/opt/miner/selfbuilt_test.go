//go:build verif

package miner

// C01 driver (block building): a real miner worker on a real BlockChain and TxPool assembles blocks from seeded pending
// transaction sets - plain transfers, pairs of transfers that are affordable one by one but not together, calls into
// reverting / gas-burning / storing contracts, contract creations, under-gassed and nonce-gapped transactions.  Every
// assembled block is imported (InsertChain, full validation) by an independent chain that has seen the same history;
// what the builder computed and what the importer computed are recorded.  MinerTrace.tla judges.

import (
	"bufio"
	"context"
	"encoding/json"
	"fmt"
	"math/big"
	"math/rand"
	"os"
	"strconv"
	"sync"
	"sync/atomic"
	"testing"
	"time"

	"github.com/btcsuite/btcd/btcec/v2"
	"gitlab.com/aquachain/aquachain/aqua/accounts"
	"gitlab.com/aquachain/aquachain/aqua/event"
	"gitlab.com/aquachain/aquachain/aquadb"
	"gitlab.com/aquachain/aquachain/common"
	"gitlab.com/aquachain/aquachain/common/log"
	"gitlab.com/aquachain/aquachain/consensus/aquahash"
	"gitlab.com/aquachain/aquachain/core"
	"gitlab.com/aquachain/aquachain/core/types"
	"gitlab.com/aquachain/aquachain/core/vm"
	"gitlab.com/aquachain/aquachain/crypto"
	"gitlab.com/aquachain/aquachain/params"
	"gitlab.com/aquachain/aquachain/rlp"
)

type mBackend struct {
	bc   *core.BlockChain
	pool *core.TxPool
	db   aquadb.Database
}

func (b *mBackend) AccountManager() *accounts.Manager { return nil }
func (b *mBackend) BlockChain() *core.BlockChain      { return b.bc }
func (b *mBackend) TxPool() *core.TxPool              { return b.pool }
func (b *mBackend) ChainDb() aquadb.Database          { return b.db }

type mResult struct {
	Root     string   `json:"root"`
	Receipts []string `json:"receipts"`
	GasUsed  uint64   `json:"gasUsed"`
	Logs     int      `json:"logs"`
}

func receiptDigests(rs types.Receipts) ([]string, int) {
	out, logs := []string{}, 0
	for _, r := range rs {
		b, _ := rlp.EncodeToBytes(r) // consensus encoding: status/post-state, cumulative gas, bloom, logs
		out = append(out, fmt.Sprintf("%x", crypto.Keccak256(b)[:8]))
		logs += len(r.Logs)
	}
	return out, logs
}

func runBuildSequence(seq int, seed int64, nblocks int, emit func(interface{})) {
	rng := rand.New(rand.NewSource(seed))
	cfg := params.TestChainConfig
	signer := types.NewEIP155Signer(cfg.ChainId)
	keys := []*btcec.PrivateKey{}
	addrs := []common.Address{}
	ether := new(big.Int).Exp(big.NewInt(10), big.NewInt(18), nil)
	alloc := core.GenesisAlloc{}
	for i := 0; i < 4; i++ {
		k, _ := crypto.GenerateKey()
		keys = append(keys, k)
		a := crypto.PubkeyToAddress(k.PubKey())
		addrs = append(addrs, a)
		alloc[a] = core.GenesisAccount{Balance: new(big.Int).Set(ether)}
	}
	reverter := common.HexToAddress("0x00000000000000000000000000000000000c0001")
	burner := common.HexToAddress("0x00000000000000000000000000000000000c0002")
	storer := common.HexToAddress("0x00000000000000000000000000000000000c0003")
	logger := common.HexToAddress("0x00000000000000000000000000000000000c0004")
	alloc[reverter] = core.GenesisAccount{Code: []byte{0x60, 0x00, 0x60, 0x00, 0xfd}, Balance: big.NewInt(0)}                  // REVERT(0,0)
	alloc[burner] = core.GenesisAccount{Code: []byte{0x5b, 0x60, 0x00, 0x56}, Balance: big.NewInt(0)}                            // JUMPDEST PUSH1 0 JUMP
	alloc[storer] = core.GenesisAccount{Code: []byte{0x43, 0x60, 0x00, 0x35, 0x55, 0x00}, Balance: big.NewInt(0)}                // SSTORE(calldata[0], NUMBER)
	alloc[logger] = core.GenesisAccount{Code: []byte{0x33, 0x60, 0x00, 0x60, 0x00, 0xa1, 0x00}, Balance: big.NewInt(0)}          // LOG1(0,0,CALLER)
	gspec := &core.Genesis{Config: cfg, GasLimit: 4712388, Difficulty: big.NewInt(131072), Alloc: alloc, Timestamp: uint64(time.Now().Unix() - 100000)}
	mk := func() (*core.BlockChain, aquadb.Database) {
		db := aquadb.NewMemDatabase()
		gspec.MustCommit(db)
		bc, err := core.NewBlockChain(context.TODO(), db, nil, cfg, aquahash.NewFaker(), vm.Config{})
		if err != nil {
			panic(err)
		}
		return bc, db
	}
	bc1, db1 := mk()
	bc2, db2 := mk()
	defer bc1.Stop()
	defer bc2.Stop()
	pcfg := core.DefaultTxPoolConfig
	pcfg.Journal = ""
	pool := core.NewTxPool(pcfg, cfg, bc1)
	defer pool.Stop()
	w := newWorker(cfg, aquahash.NewFaker(), common.HexToAddress("0x00000000000000000000000000000000000c01ba"), &mBackend{bc1, pool, db1}, new(event.TypeMux))
	atomic.StoreInt32(&w.mining, 1)
	defer w.stop()

	gp := big.NewInt(1000000000)
	for n := 0; n < nblocks; n++ {
		// offer transactions
		offered := 0
		for i, k := range keys {
			st, _ := bc1.State()
			nonce := pool.State().GetNonce(addrs[i])
			bal := st.GetBalance(addrs[i])
			for c := rng.Intn(4); c > 0; c-- {
				var tx *types.Transaction
				to := addrs[rng.Intn(len(addrs))]
				switch rng.Intn(9) {
				case 0, 1: // more than half of what the sender owns: two of these are affordable one by one, not together
					v := new(big.Int).Div(new(big.Int).Mul(bal, big.NewInt(int64(52+rng.Intn(40)))), big.NewInt(100))
					tx = types.NewTransaction(nonce, to, v, 21000, gp, nil)
				case 2:
					tx = types.NewTransaction(nonce, reverter, big.NewInt(0), 50000, gp, nil)
				case 3:
					tx = types.NewTransaction(nonce, burner, big.NewInt(0), uint64(30000+rng.Intn(50000)), gp, nil)
				case 4:
					tx = types.NewTransaction(nonce, storer, big.NewInt(0), 60000, gp, common.BigToHash(big.NewInt(int64(rng.Intn(3)))).Bytes())
				case 5:
					tx = types.NewContractCreation(nonce, big.NewInt(int64(rng.Intn(1000))), 100000, gp, []byte{0x60, 0x2a, 0x60, 0x00, 0x55, 0x60, 0x01, 0x60, 0x00, 0xf3})
				case 6:
					tx = types.NewTransaction(nonce, logger, big.NewInt(1), 40000, gp, nil)
				case 7: // a value the account cannot pay after the gas has been bought, but can before
					v := new(big.Int).Sub(bal, big.NewInt(int64(rng.Intn(21000))*1000000000))
					if v.Sign() < 0 {
						v = big.NewInt(0)
					}
					tx = types.NewTransaction(nonce, to, v, 21000, gp, nil)
				default:
					tx = types.NewTransaction(nonce, to, big.NewInt(int64(rng.Intn(1000000))), 21000, gp, nil)
				}
				stx, err := types.SignTx(tx, signer, k)
				if err != nil {
					panic(err)
				}
				if pool.AddRemote(stx) == nil {
					offered++
					nonce++
				}
			}
		}
		// build
		var (
			blk      *types.Block
			receipts types.Receipts
			pn       string
		)
		func() {
			defer func() {
				if r := recover(); r != nil {
					pn = fmt.Sprint(r)
				}
			}()
			w.commitNewWork()
			w.currentMu.Lock()
			if w.current != nil && w.current.Block != nil {
				blk = w.current.Block
				receipts = append(types.Receipts{}, w.current.receipts...)
			}
			w.currentMu.Unlock()
		}()
		if blk == nil {
			emit(map[string]interface{}{"e": "selfbuilt", "seq": seq, "n": n, "offered": offered, "included": 0, "importErr": "no block built", "panic": pn,
				"built": mResult{Receipts: []string{}}, "imported": mResult{Receipts: []string{}}})
			return
		}
		bd, bl := receiptDigests(receipts)
		built := mResult{Root: blk.Root().Hex(), Receipts: bd, GasUsed: blk.GasUsed(), Logs: bl}
		// import into the independent chain
		imported := mResult{Receipts: []string{}}
		ierr := ""
		func() {
			defer func() {
				if r := recover(); r != nil {
					pn = "import: " + fmt.Sprint(r)
				}
			}()
			if _, err := bc2.InsertChain(types.Blocks{blk}); err != nil {
				ierr = err.Error()
				return
			}
			ib := bc2.GetBlockByHash(blk.Hash())
			if ib == nil {
				ierr = "block not found after import"
				return
			}
			rd, rl := receiptDigests(core.GetBlockReceipts(db2, blk.Hash(), blk.NumberU64()))
			imported = mResult{Root: ib.Root().Hex(), Receipts: rd, GasUsed: ib.GasUsed(), Logs: rl}
		}()
		if len(ierr) > 160 {
			ierr = ierr[:160]
		}
		emit(map[string]interface{}{"e": "selfbuilt", "seq": seq, "n": n, "offered": offered, "included": len(blk.Transactions()), "importErr": ierr, "panic": pn,
			"built": built, "imported": imported})
		if ierr != "" || pn != "" {
			return
		}
		// the builder's own chain takes the block too (the pool then drops what was mined)
		if _, err := bc1.InsertChain(types.Blocks{blk}); err != nil {
			emit(map[string]interface{}{"e": "selfbuilt", "seq": seq, "n": n, "offered": offered, "included": len(blk.Transactions()), "importErr": "own chain: " + err.Error(), "panic": "",
				"built": built, "imported": imported})
			return
		}
		// wait for the pool to notice the new head
		for i := 0; i < 200; i++ {
			if st := pool.State(); st != nil {
				cur, _ := bc1.State()
				ok := true
				for _, a := range addrs {
					if st.GetNonce(a) < cur.GetNonce(a) {
						ok = false
					}
				}
				if ok {
					break
				}
			}
			time.Sleep(5 * time.Millisecond)
		}
	}
}

func TestVerifSelfBuilt(t *testing.T) {
	log.Root().SetHandler(log.DiscardHandler())
	seed, _ := strconv.ParseInt(os.Getenv("VERIF_SEED"), 10, 64)
	nseq, _ := strconv.Atoi(os.Getenv("VERIF_SEQS"))
	if nseq == 0 {
		nseq = 8
	}
	nblocks, _ := strconv.Atoi(os.Getenv("VERIF_BLOCKS"))
	if nblocks == 0 {
		nblocks = 6
	}
	out := os.Getenv("VERIF_OUT")
	if out == "" {
		out = os.DevNull
	}
	f, err := os.Create(out)
	if err != nil {
		t.Fatal(err)
	}
	defer f.Close()
	w := bufio.NewWriter(f)
	defer w.Flush()
	var mu sync.Mutex
	nev := 0
	emit := func(e interface{}) {
		b, err := json.Marshal(e)
		if err != nil {
			panic(err)
		}
		mu.Lock()
		w.Write(b)
		w.WriteByte('\n')
		nev++
		mu.Unlock()
	}
	var wg sync.WaitGroup
	sem := make(chan struct{}, 8)
	for s := 0; s < nseq; s++ {
		wg.Add(1)
		sem <- struct{}{}
		go func(s int) {
			defer wg.Done()
			defer func() { <-sem }()
			runBuildSequence(s, seed*100000+int64(s), nblocks, emit)
		}(s)
	}
	wg.Wait()
	fmt.Printf("VERIF-STAT sequences=%d events=%d\n", nseq, nev)
}
