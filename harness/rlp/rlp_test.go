//go:build verif

package rlp

// C11 driver: every byte string up to a length bound over a boundary alphabet, seeded mutations of valid
// encodings of typed values and of consensus-shaped records, through DecodeBytes / Stream / Split / typed targets.
// Outcomes (verdict, decoded term, re-encoding, allocation, panic) are recorded; TLC (RLPTrace.tla) computes the
// expected verdict and term from RLP.tla and judges.

import (
	"bufio"
	"bytes"
	"encoding/json"
	"fmt"
	"io"
	"io/ioutil"
	"math/big"
	"math/rand"
	"os"
	"reflect"
	"runtime"
	"strconv"
	"testing"
)

type vw struct {
	w *bufio.Writer
	n int
}

func (v *vw) emit(e interface{}) {
	b, err := json.Marshal(e)
	if err != nil {
		panic(err)
	}
	v.w.Write(b)
	v.w.WriteByte('\n')
	v.n++
}

func ints(b []byte) []int {
	o := make([]int, len(b))
	for i, x := range b {
		o[i] = int(x)
	}
	return o
}

// generic term of a decoded interface{} value
func termOf(v interface{}) interface{} {
	switch x := v.(type) {
	case []byte:
		return map[string]interface{}{"k": "s", "b": ints(x)}
	case []interface{}:
		items := []interface{}{}
		for _, it := range x {
			items = append(items, termOf(it))
		}
		return map[string]interface{}{"k": "l", "items": items}
	}
	return map[string]interface{}{"k": "?"}
}

var noTerm = map[string]interface{}{"k": "-"}

// TotalAlloc is process-wide (other goroutines, GC bookkeeping): a decode is deterministic, so the minimum of
// three runs is the decode's own allocation
func allocOf(f func()) (alloc uint64, panicked string) {
	alloc = ^uint64(0)
	for i := 0; i < 3; i++ {
		var m0, m1 runtime.MemStats
		runtime.ReadMemStats(&m0)
		func() {
			defer func() {
				if r := recover(); r != nil {
					panicked = fmt.Sprint(r)
					if len(panicked) > 60 {
						panicked = panicked[:60]
					}
				}
			}()
			f()
		}()
		runtime.ReadMemStats(&m1)
		if d := m1.TotalAlloc - m0.TotalAlloc; d < alloc {
			alloc = d
		}
		if panicked != "" {
			break
		}
	}
	return alloc, panicked
}

type rec3 struct {
	A uint64
	B []byte
	C *big.Int
	T []uint16 `rlp:"tail"`
}

// a record as fat as a block header (several fixed-size hashes)
type fat struct {
	A, B, C, D, E, F, G, H [32]byte
	N                      uint64
}
type recOpt struct {
	A uint8
	P *rec3 `rlp:"nil"`
}
type tMutA struct {
	N uint
	B tMutB
}
type tMutB struct {
	As []tMutA
}
type recOptS struct {
	A uint8
	S *[2]byte  `rlp:"nil"`
	U *uint16   `rlp:"nil"`
	L *[]uint16 `rlp:"nil"`
}

// decode `in` through every API and emit one event
func probe(w *vw, in []byte, src string) {
	ev := map[string]interface{}{"e": "dec", "src": src, "in": ints(in), "n": len(in)}
	// 1. DecodeBytes into interface{}
	var v interface{}
	var err error
	alloc, pn := allocOf(func() { v = nil; err = DecodeBytes(in, &v) })
	ev["ok"], ev["alloc"], ev["panic"] = err == nil, int(alloc), pn
	ev["term"], ev["reenc"] = noTerm, []int{}
	if err == nil && pn == "" {
		ev["term"] = termOf(v)
		re, e2 := EncodeToBytes(v)
		if e2 == nil {
			ev["reenc"] = ints(re)
		}
	}
	// 2. Stream with a known input limit
	var v2 interface{}
	var err2 error
	alloc2, pn2 := allocOf(func() {
		v2 = nil
		s := NewStream(bytes.NewReader(in), uint64(len(in)))
		err2 = s.Decode(&v2)
		if err2 == nil {
			// the stream must be exhausted: DecodeBytes semantics are checked separately
			if _, _, e := s.Kind(); e != io.EOF {
				err2 = fmt.Errorf("trailing")
			}
		}
	})
	ev["streamOk"], ev["streamAlloc"], ev["streamPanic"] = err2 == nil, int(alloc2), pn2
	ev["streamSame"] = err2 != nil || fmt.Sprint(termOf(v2)) == fmt.Sprint(ev["term"])
	// 3. Split / CountValues on the raw bytes
	var k Kind
	var content, rest []byte
	var err3 error
	_, pn3 := allocOf(func() { k, content, rest, err3 = Split(in) })
	ev["splitOk"], ev["splitPanic"] = err3 == nil, pn3
	ev["splitKind"], ev["splitLen"], ev["splitRest"] = "-", 0, 0
	if err3 == nil {
		ev["splitKind"] = map[Kind]string{Byte: "byte", String: "s", List: "l"}[k]
		ev["splitLen"], ev["splitRest"] = len(content), len(rest)
	}
	// 4. typed targets: a decode that succeeds must be of the canonical encoding of what it produced
	typed := map[string]interface{}{}
	tryT := func(name string, mk func() interface{}) {
		var e error
		var val interface{}
		a, p := allocOf(func() { val = mk(); e = DecodeBytes(in, val) }) // a fresh target per run
		r := map[string]interface{}{"ok": e == nil, "panic": p, "alloc": int(a), "same": true}
		if e == nil && p == "" {
			re, e2 := EncodeToBytes(val)
			r["same"] = e2 == nil && bytes.Equal(re, in)
		}
		typed[name] = r
	}
	tryT("uint8", func() interface{} { return new(uint8) })
	tryT("uint64", func() interface{} { return new(uint64) })
	tryT("bigint", func() interface{} { return new(big.Int) })
	tryT("bool", func() interface{} { return new(bool) })
	tryT("bytes", func() interface{} { return new([]byte) })
	tryT("arr2", func() interface{} { return new([2]byte) })
	tryT("string", func() interface{} { return new(string) })
	tryT("u16s", func() interface{} { return new([]uint16) })
	tryT("rec3", func() interface{} { return new(rec3) })
	tryT("recOpt", func() interface{} { return new(recOpt) })
	tryT("recOptS", func() interface{} { return new(recOptS) })
	tryT("raw", func() interface{} { return new(RawValue) })
	tryT("fats", func() interface{} { return new([]fat) })
	tryT("recps", func() interface{} { return new([]*rec3) })
	ev["typed"] = typed
	w.emit(ev)
}

func enumerate(alpha []byte, maxLen int, f func([]byte)) {
	var rec func(cur []byte)
	rec = func(cur []byte) {
		f(cur)
		if len(cur) == maxLen {
			return
		}
		for _, a := range alpha {
			rec(append(append([]byte{}, cur...), a))
		}
	}
	rec(nil)
}

func TestVerifRLP(t *testing.T) {
	out := os.Getenv("VERIF_OUT")
	if out == "" {
		t.Skip("VERIF_OUT not set")
	}
	seed, _ := strconv.ParseInt(os.Getenv("VERIF_SEED"), 10, 64)
	maxLen, _ := strconv.Atoi(os.Getenv("VERIF_MAXLEN"))
	if maxLen == 0 {
		maxLen = 3
	}
	nmut, _ := strconv.Atoi(os.Getenv("VERIF_MUT"))
	if nmut == 0 {
		nmut = 1500
	}
	f, err := os.Create(out)
	if err != nil {
		t.Fatal(err)
	}
	defer f.Close()
	w := &vw{w: bufio.NewWriterSize(f, 1<<20)}
	defer w.w.Flush()
	rng := rand.New(rand.NewSource(seed*2654435761 + 17))
	// prime the reflection caches (typeinfo is built once per type and is not part of a decode's cost)
	{
		nul := &vw{w: bufio.NewWriter(new(bytes.Buffer))}
		for _, b := range [][]byte{{0xc0}, {0x01}, {0x80}, {0xc2, 0x01, 0x02}, {0x82, 0x01, 0x02}} {
			for i := 0; i < 3; i++ {
				probe(nul, b, "prime")
			}
		}
	}
	// (a) exhaustive over the boundary alphabet
	alpha := []byte{0x00, 0x01, 0x7f, 0x80, 0x81, 0xb7, 0xb8, 0xbf, 0xc0, 0xc1, 0xf7, 0xf8, 0xff}
	enumerate(alpha, maxLen, func(b []byte) { probe(w, b, "enum") })
	// (b) valid encodings of typed values at boundaries, and their mutations
	var seeds [][]byte
	add := func(v interface{}) {
		b, err := EncodeToBytes(v)
		if err != nil {
			panic(err)
		}
		seeds = append(seeds, b)
	}
	for _, u := range []uint64{0, 1, 127, 128, 255, 256, 65535, 65536, 1<<32 - 1, 1 << 32, 1<<64 - 1} {
		add(u)
	}
	for _, n := range []int{0, 1, 2, 54, 55, 56, 57, 255, 256, 300} {
		b := make([]byte, n)
		for i := range b {
			b[i] = byte(0x80 + rng.Intn(0x7f))
		}
		add(b)
		var l []interface{}
		for i := 0; i < n/3; i++ {
			l = append(l, []byte{byte(rng.Intn(256))})
		}
		add(l)
	}
	add(new(big.Int).Lsh(big.NewInt(1), 255))
	add(new(big.Int).Sub(new(big.Int).Lsh(big.NewInt(1), 256), big.NewInt(1)))
	add(rec3{A: 7, B: []byte{1, 2, 3}, C: big.NewInt(1 << 40), T: []uint16{1, 256, 65535}})
	add(rec3{A: 0, B: nil, C: big.NewInt(0)})
	add(recOpt{A: 1})
	add(recOptS{A: 1})
	add(recOptS{A: 2, S: &[2]byte{1, 2}, U: new(uint16), L: &[]uint16{}})
	// the empty value of either kind where a pointer with the "nil" tag is expected
	for _, raw := range [][]byte{{0xc2, 1, 0x80}, {0xc2, 1, 0xc0}, {0xc4, 1, 0x80, 0x80, 0xc0}, {0xc4, 1, 0xc0, 0x80, 0xc0}, {0xc4, 1, 0x80, 0xc0, 0xc0}, {0xc4, 1, 0x80, 0x80, 0x80}, {0xc4, 1, 0xc0, 0xc0, 0x80}} {
		seeds = append(seeds, raw)
	}
	add(recOpt{A: 255, P: &rec3{A: 1 << 63, B: make([]byte, 60), C: big.NewInt(3)}})
	add([]interface{}{[]interface{}{}, []interface{}{[]interface{}{}}, []byte{}, []byte{0x7f}, []byte{0x80}})
	// consensus-shaped records: a header-like and a transaction-like list with 32-byte and 20-byte strings
	h32 := func() []byte { b := make([]byte, 32); rng.Read(b); return b }
	add([]interface{}{h32(), h32(), make([]byte, 20), h32(), h32(), h32(), make([]byte, 256), big.NewInt(46039386), big.NewInt(22800),
		uint64(4712388), uint64(21000), big.NewInt(1537000000), []byte("extra"), h32(), make([]byte, 8)})
	add([]interface{}{uint64(3), big.NewInt(1e9), uint64(21000), make([]byte, 20), big.NewInt(1e18), []byte{}, big.NewInt(37), new(big.Int).SetBytes(h32()), new(big.Int).SetBytes(h32())})
	for _, s := range seeds {
		probe(w, s, "valid")
	}
	for i := 0; i < nmut; i++ {
		s := append([]byte{}, seeds[rng.Intn(len(seeds))]...)
		switch rng.Intn(7) {
		case 0: // bit flip
			if len(s) > 0 {
				s[rng.Intn(len(s))] ^= byte(1 << uint(rng.Intn(8)))
			}
		case 1: // truncate
			s = s[:rng.Intn(len(s)+1)]
		case 2: // prefix byte +-1
			if len(s) > 0 {
				s[0] += byte(rng.Intn(3) - 1)
			}
		case 3: // insert a zero byte (leading zeros)
			p := rng.Intn(len(s) + 1)
			s = append(s[:p], append([]byte{0}, s[p:]...)...)
		case 4: // append garbage
			s = append(s, byte(rng.Intn(256)))
		case 5: // long-form a short string: 0x8n.. -> 0xb8 n ..
			if len(s) > 1 && s[0] > 0x80 && s[0] <= 0xb7 {
				s = append([]byte{0xb8, s[0] - 0x80}, s[1:]...)
			}
		case 6: // huge declared size
			hdr := [][]byte{{0xbb, 0xff, 0xff, 0xff, 0xff}, {0xfb, 0xff, 0xff, 0xff, 0xff}, {0xbf, 0xff, 0xff, 0xff, 0xff, 0xff, 0xff, 0xff, 0xff},
				{0xff, 0xff, 0xff, 0xff, 0xff, 0xff, 0xff, 0xff, 0xff}, {0xba, 0x01, 0x00, 0x00}, {0xfa, 0x01, 0x00, 0x00}}[rng.Intn(6)]
			s = append(append([]byte{}, hdr...), s...)
		}
		probe(w, s, "mut")
	}
	// (c) large lists with a huge declared payload and few valid elements (allocation must follow the input, not the claim)
	for _, n := range []int{1 << 10, 1 << 14, 1 << 16} {
		payload := make([]byte, n)
		payload[0] = 0xb8 // malformed first element
		enc := append([]byte{0xf9, byte(n >> 8), byte(n)}, payload...)
		if n >= 1<<16 {
			enc = append([]byte{0xfa, byte(n >> 16), byte(n >> 8), byte(n)}, payload...)
		}
		probe(w, enc, "biglist")
		good := bytes.Repeat([]byte{0x01}, n)
		enc2 := append([]byte{0xf9, byte(n >> 8), byte(n)}, good...)
		if n >= 1<<16 {
			enc2 = append([]byte{0xfa, byte(n >> 16), byte(n >> 8), byte(n)}, good...)
		}
		probe(w, enc2, "biglist")
	}
	// encode side: values whose list / string payloads sit on the header-size boundaries (55/56, 255/256, 65535/65536), alone,
	// nested, and followed by another list; through EncodeToBytes, Encode(io.Writer) and EncodeToReader
	{
		str := func(n int) []byte {
			b := make([]byte, n)
			for i := range b {
				b[i] = byte(0x80 + i%100)
			}
			return b
		}
		var vals []interface{}
		for _, n := range []int{0, 1, 2, 50, 51, 52, 53, 54, 55, 56, 57, 58, 60, 250, 252, 253, 254, 255, 256, 257, 258, 65530, 65532, 65533, 65534, 65535, 65536, 65540} {
			vals = append(vals, str(n), []interface{}{str(n)})
			if n < 300 {
				items := []interface{}{}
				for i := 0; i < n; i++ {
					items = append(items, []byte{byte(i % 128)}) // n one-byte items: payload exactly n
				}
				vals = append(vals, items, []interface{}{items}, []interface{}{items, []interface{}{}}, []interface{}{[]byte{1}, items, []interface{}{[]byte{2}}})
			}
		}
		for _, v := range vals {
			ev := map[string]interface{}{"e": "enc", "term": termOf(v), "bytes": []int{}, "writer": []int{}, "reader": []int{}, "err": false, "roundtrip": false}
			pn := ""
			func() {
				defer func() {
					if r := recover(); r != nil {
						pn = fmt.Sprint(r)
					}
				}()
				b, err := EncodeToBytes(v)
				ev["bytes"], ev["err"] = ints(b), err != nil
				var buf bytes.Buffer
				err2 := Encode(&buf, v)
				ev["writer"] = ints(buf.Bytes())
				_, r, err3 := EncodeToReader(v)
				var rb []byte
				if err3 == nil {
					rb, _ = ioutil.ReadAll(r)
				}
				ev["reader"] = ints(rb)
				ev["err"] = err != nil || err2 != nil || err3 != nil
				var back interface{}
				ev["roundtrip"] = DecodeBytes(b, &back) == nil && reflect.DeepEqual(termOf(back), termOf(v))
			}()
			ev["panic"] = pn
			w.emit(ev)
		}
	}
	// typed values: "for every supported value, decoding its encoding returns an equal value" - Go values of the supported kinds
	// (byte arrays of every small length with 0x00 / 0x7f / 0x80 / 0xff in them, integers of every width, booleans, strings,
	// nested structs, slices and arrays, pointers, nil / tail / ignored tags) are encoded, decoded into a fresh value of the same
	// type and compared; the bytes are also decoded generically so that the specification can check that they are canonical
	{
		type s1 struct {
			A [1]byte
			B uint
		}
		type s2 struct {
			A [2]byte
			B [1]byte
			C [0]byte
			D uint8
		}
		type sTail struct {
			A uint16
			T []uint16 `rlp:"tail"`
		}
		type sIgn struct {
			A uint32
			X uint32 `rlp:"-"`
			B [1]byte
		}
		type sPtr struct {
			P *[1]byte
			Q *uint64
			R *s1
		}
		type sArr struct {
			A [3][1]byte
			B [2]uint16
			C []s1
		}
		// types that contain themselves through a slice, an array of pointers or a pointer (the type cache is filled while it is read)
		type tSelf struct {
			Val  uint
			Kids []tSelf
		}
		var vals []interface{}
		vals = append(vals, tSelf{1, []tSelf{{2, []tSelf{}}, {3, []tSelf{{4, []tSelf{}}}}}}, tSelf{0, []tSelf{}},
			tMutA{7, tMutB{[]tMutA{{8, tMutB{[]tMutA{}}}}}}, []tSelf{{1, []tSelf{}}}, [2][]tSelf{{{5, []tSelf{}}}, {}})
		for _, b := range []byte{0x00, 0x01, 0x7f, 0x80, 0xff} {
			vals = append(vals, [1]byte{b}, s1{[1]byte{b}, 5}, s1{[1]byte{b}, 0}, [2]byte{b, 0}, [2]byte{0, b}, s2{[2]byte{b, b}, [1]byte{b}, [0]byte{}, b},
				sIgn{A: uint32(b), B: [1]byte{b}}, sPtr{P: &[1]byte{b}, Q: new(uint64), R: &s1{[1]byte{b}, uint(b)}},
				sArr{A: [3][1]byte{{b}, {0}, {b}}, B: [2]uint16{uint16(b), 0}, C: []s1{{[1]byte{b}, 1}, {[1]byte{0}, 0}}},
				[]byte{b}, string([]byte{b}), uint8(b), uint16(b)<<8, uint64(b)<<56, b != 0, sTail{uint16(b), []uint16{uint16(b), 0, uint16(b) << 8}}, sTail{0, []uint16{}},
				recOpt{A: b}, recOptS{A: b, S: &[2]byte{b, b}}, recOptS{A: b, U: func() *uint16 { u := uint16(b) + 1; return &u }()}, // (a pointer to zero and nil share one encoding under the nil tag)
				rec3{A: uint64(b), B: []byte{b}, C: big.NewInt(int64(b)), T: []uint16{uint16(b)}})
		}
		for _, v := range vals {
			ev := map[string]interface{}{"e": "tval", "type": fmt.Sprintf("%T", v), "bytes": []int{}, "err": false, "roundtrip": false, "generic": false, "term": termOf([]byte{})}
			pn := ""
			func() {
				defer func() {
					if r := recover(); r != nil {
						pn = fmt.Sprint(r)
					}
				}()
				b, err := EncodeToBytes(v)
				ev["bytes"], ev["err"] = ints(b), err != nil
				back := reflect.New(reflect.TypeOf(v))
				derr := DecodeBytes(b, back.Interface())
				want := v
				if si, ok := v.(sIgn); ok { // an ignored field is not transported
					si.X = 0
					want = si
				}
				ev["roundtrip"] = derr == nil && reflect.DeepEqual(back.Elem().Interface(), want)
				var g interface{}
				if DecodeBytes(b, &g) == nil {
					ev["generic"], ev["term"] = true, termOf(g)
				}
			}()
			ev["panic"] = pn
			w.emit(ev)
		}
	}
	fmt.Printf("VERIF-STAT events=%d\n", w.n)
}
