//go:build verif

package aquahash

// C13 driver: headers on both sides of every rule boundary, per network schedule and around every fork height,
// through VerifyHeader / VerifyHeaders / CalcDifficulty with a fake ChainReader; uncle sets through VerifyUncles;
// batches with planted failures under perturbed worker schedules. TLC (HeaderTrace.tla) judges.

import (
	"bufio"
	"context"
	"encoding/json"
	"fmt"
	"math/big"
	"math/rand"
	"os"
	"runtime"
	"strconv"
	"sync"
	"testing"
	"time"

	"gitlab.com/aquachain/aquachain/common"
	"gitlab.com/aquachain/aquachain/core/types"
	"gitlab.com/aquachain/aquachain/params"
)

type hw struct {
	w *bufio.Writer
	n int
}

func (v *hw) emit(e interface{}) {
	b, err := json.Marshal(e)
	if err != nil {
		panic(err)
	}
	v.w.Write(b)
	v.w.WriteByte('\n')
	v.n++
}

func hlimbs(x *big.Int) []int {
	out := []int{}
	if x == nil || x.Sign() <= 0 {
		return out
	}
	v := new(big.Int).Set(x)
	base := big.NewInt(10000)
	m := new(big.Int)
	for v.Sign() > 0 {
		v.DivMod(v, base, m)
		out = append(out, int(m.Int64()))
	}
	return out
}

type fakeChain struct {
	cfg     *params.ChainConfig
	mu      sync.Mutex
	headers map[common.Hash]*types.Header
	blocks  map[common.Hash]*types.Block
	delay   func(num uint64) // called in GetHeader: perturbs worker schedules
}

func newFakeChain(cfg *params.ChainConfig) *fakeChain {
	return &fakeChain{cfg: cfg, headers: map[common.Hash]*types.Header{}, blocks: map[common.Hash]*types.Block{}}
}
func (c *fakeChain) Config() *params.ChainConfig   { return c.cfg }
func (c *fakeChain) GetContext() context.Context   { return context.TODO() }
func (c *fakeChain) CurrentHeader() *types.Header  { return nil }
func (c *fakeChain) GetHeader(h common.Hash, n uint64) *types.Header {
	if c.delay != nil {
		c.delay(n)
	}
	c.mu.Lock()
	defer c.mu.Unlock()
	return c.headers[h]
}
func (c *fakeChain) GetHeaderByNumber(uint64) *types.Header        { return nil }
func (c *fakeChain) GetHeaderByHash(h common.Hash) *types.Header { return c.GetHeader(h, 0) }
func (c *fakeChain) GetBlock(h common.Hash, n uint64) *types.Block {
	c.mu.Lock()
	defer c.mu.Unlock()
	return c.blocks[h]
}
func (c *fakeChain) add(h *types.Header) {
	h.Version = c.cfg.GetBlockVersion(h.Number)
	c.mu.Lock()
	c.headers[h.Hash()] = h
	c.mu.Unlock()
}

type sched struct {
	name string
	cfg  *params.ChainConfig
}

func schedules() []sched {
	return []sched{{"mainnet", params.MainnetChainConfig}, {"testnet", params.TestnetChainConfig}, {"testnet2", params.Testnet2ChainConfig},
		{"test", params.TestChainConfig}, {"dev", params.AllAquahashProtocolChanges}}
}

func schedJSON(s sched) map[string]interface{} {
	hf := make([]int, 9)
	for i := 1; i <= 9; i++ {
		hf[i-1] = -1
		if h := s.cfg.GetHF(i); h != nil {
			hf[i-1] = int(h.Int64())
		}
	}
	return map[string]interface{}{"name": s.name, "hf": hf, "mainnet": s.cfg == params.MainnetChainConfig}
}

func hdrJSON(h *types.Header) map[string]interface{} {
	return map[string]interface{}{"num": int(h.Number.Int64()), "time": int(h.Time.Int64()), "diff": hlimbs(h.Difficulty),
		"gasLimit": hlimbs(new(big.Int).SetUint64(h.GasLimit)), "gasUsed": hlimbs(new(big.Int).SetUint64(h.GasUsed)), "extraLen": len(h.Extra)}
}

// a parent (with its own parent, so that a grandparent exists) at the given height
func mkParent(rng *rand.Rand, c *fakeChain, num int64, now int64, diff *big.Int) *types.Header {
	gp := &types.Header{Number: big.NewInt(num - 1), Time: big.NewInt(now - 100000), Difficulty: new(big.Int).Set(diff), GasLimit: 4700000, Extra: []byte("gp")}
	if num-1 < 0 {
		gp.Number = big.NewInt(0)
	}
	c.add(gp)
	p := &types.Header{ParentHash: gp.Hash(), Number: big.NewInt(num), Time: big.NewInt(now - 50000 + int64(rng.Intn(1000))), Difficulty: new(big.Int).Set(diff),
		GasLimit: 4000000 + uint64(rng.Intn(2000000)), Extra: []byte("p")}
	c.add(p)
	return p
}

func verdict(err error) string {
	if err == nil {
		return ""
	}
	s := err.Error()
	if len(s) > 50 {
		s = s[:50]
	}
	return s
}

func TestVerifHeaders(t *testing.T) {
	out := os.Getenv("VERIF_OUT")
	if out == "" {
		t.Skip("VERIF_OUT not set")
	}
	seed, _ := strconv.ParseInt(os.Getenv("VERIF_SEED"), 10, 64)
	reps, _ := strconv.Atoi(os.Getenv("VERIF_REPS"))
	if reps == 0 {
		reps = 2
	}
	nbatch, _ := strconv.Atoi(os.Getenv("VERIF_BATCH"))
	if nbatch == 0 {
		nbatch = 40
	}
	f, err := os.Create(out)
	if err != nil {
		t.Fatal(err)
	}
	defer f.Close()
	w := &hw{w: bufio.NewWriterSize(f, 1<<20)}
	defer w.w.Flush()
	rng := rand.New(rand.NewSource(seed*1103515245 + 41))
	engine := NewFaker()
	dts := []int64{1, 9, 10, 11, 19, 179, 180, 181, 239, 240, 241, 989, 990, 1000, 1001, 5000}
	for _, s := range schedules() {
		// heights: around every fork of the schedule, and a few ordinary ones
		hset := map[int64]bool{1: true, 2: true, 50000: true, 1000000: true}
		for i := 1; i <= 9; i++ {
			if h := s.cfg.GetHF(i); h != nil {
				for d := int64(-2); d <= 2; d++ {
					if h.Int64()+d >= 1 {
						hset[h.Int64()+d] = true
					}
				}
			}
		}
		for height := range hset {
			for rep := 0; rep < reps; rep++ {
				now := time.Now().Unix()
				c := newFakeChain(s.cfg)
				pdiffs := []*big.Int{big.NewInt(46039386), big.NewInt(46039387), big.NewInt(99999999), big.NewInt(100001792), big.NewInt(100001793),
					new(big.Int).Mul(big.NewInt(3095918580), big.NewInt(10)), big.NewInt(2048*48829 - 1), big.NewInt(2048 * 48829), new(big.Int).Lsh(big.NewInt(1), 50),
					big.NewInt(131072), big.NewInt(1)}
				parent := mkParent(rng, c, height-1, now, pdiffs[rng.Intn(len(pdiffs))])
				dt := dts[rng.Intn(len(dts))]
				good := &types.Header{ParentHash: parent.Hash(), Number: big.NewInt(height), Time: new(big.Int).Add(parent.Time, big.NewInt(dt)),
					GasLimit: parent.GasLimit, GasUsed: uint64(rng.Intn(100000)), Extra: make([]byte, rng.Intn(33)), Coinbase: common.Address{1}}
				good.Version = s.cfg.GetBlockVersion(good.Number)
				good.Difficulty = engine.CalcDifficulty(c, good.Time.Uint64(), parent, nil)
				w.emit(map[string]interface{}{"e": "calc", "sched": schedJSON(s), "P": hdrJSON(parent), "time": int(good.Time.Int64()), "diff": hlimbs(good.Difficulty)})
				limit := parent.GasLimit / 1024
				type mutf func(h *types.Header)
				muts := map[string]mutf{
					"none":         func(h *types.Header) {},
					"time=parent":  func(h *types.Header) { h.Time = new(big.Int).Set(parent.Time) },
					"time<parent":  func(h *types.Header) { h.Time = new(big.Int).Sub(parent.Time, big.NewInt(1)) },
					"future+9":     func(h *types.Header) { h.Time = big.NewInt(now + 9); h.Difficulty = engine.CalcDifficulty(c, h.Time.Uint64(), parent, nil) },
					"future+25":    func(h *types.Header) { h.Time = big.NewInt(now + 25); h.Difficulty = engine.CalcDifficulty(c, h.Time.Uint64(), parent, nil) },
					"diff+1":       func(h *types.Header) { h.Difficulty = new(big.Int).Add(h.Difficulty, big.NewInt(1)) },
					"diff-1":       func(h *types.Header) { h.Difficulty = new(big.Int).Sub(h.Difficulty, big.NewInt(1)) },
					"diff=parent":  func(h *types.Header) { h.Difficulty = new(big.Int).Set(parent.Difficulty) },
					"extra33":      func(h *types.Header) { h.Extra = make([]byte, 33) },
					"extra32":      func(h *types.Header) { h.Extra = make([]byte, 32) },
					"gasUsed=lim":  func(h *types.Header) { h.GasUsed = h.GasLimit },
					"gasUsed>lim":  func(h *types.Header) { h.GasUsed = h.GasLimit + 1 },
					"gl+bound":     func(h *types.Header) { h.GasLimit = parent.GasLimit + limit },
					"gl+bound-1":   func(h *types.Header) { h.GasLimit = parent.GasLimit + limit - 1 },
					"gl-bound":     func(h *types.Header) { h.GasLimit = parent.GasLimit - limit },
					"gl-bound+1":   func(h *types.Header) { h.GasLimit = parent.GasLimit - limit + 1 },
					"gl=2^63":      func(h *types.Header) { h.GasLimit = 1 << 63 },
					"number+2":     func(h *types.Header) { h.Number = big.NewInt(height + 1) },
					"number=same":  func(h *types.Header) { h.Number = big.NewInt(height - 1) },
				}
				for name, mf := range muts {
					h := types.CopyHeader(good)
					mf(h)
					h.Version = s.cfg.GetBlockVersion(good.Number)
					callNow := time.Now().Unix()
					e1 := engine.VerifyHeader(c, h, true)
					// the same header through the batch interface
					_, results := engine.VerifyHeaders(c, []*types.Header{h}, []bool{true})
					e2 := <-results
					// and as an uncle (no future-time rule), through the internal entry point
					gp := c.GetHeader(parent.ParentHash, 0)
					e3 := engine.verifyHeader(c, h, parent, gp, true, true)
					w.emit(map[string]interface{}{"e": "header", "mut": name, "sched": schedJSON(s), "now": int(callNow), "P": hdrJSON(parent), "H": hdrJSON(h),
						"accepted": e1 == nil, "batchAccepted": e2 == nil, "uncleAccepted": e3 == nil, "err": verdict(e1)})
				}
				// small parent gas limits: the 5000 floor
				lowP := mkParent(rng, c, height-1, now, parent.Difficulty)
				lowP.GasLimit = 5003
				c.add(lowP)
				for _, gl := range []uint64{4999, 5000, 5001} {
					h := types.CopyHeader(good)
					h.ParentHash, h.GasLimit, h.GasUsed = lowP.Hash(), gl, 0
					h.Time = new(big.Int).Add(lowP.Time, big.NewInt(dt))
					h.Difficulty = engine.CalcDifficulty(c, h.Time.Uint64(), lowP, nil)
					e1 := engine.VerifyHeader(c, h, true)
					w.emit(map[string]interface{}{"e": "header", "mut": fmt.Sprintf("floor%d", gl), "sched": schedJSON(s), "now": int(time.Now().Unix()), "P": hdrJSON(lowP), "H": hdrJSON(h),
						"accepted": e1 == nil, "batchAccepted": e1 == nil, "uncleAccepted": e1 == nil, "err": verdict(e1)})
				}
			}
		}
	}
	// ---- uncles: a synthetic ancestry of 9 blocks at a height beyond the historical exemptions ----
	for _, s := range schedules() {
		for rep := 0; rep < reps*4; rep++ {
			c := newFakeChain(s.cfg)
			now := time.Now().Unix()
			base := int64(20000 + rng.Intn(1000))
			if h5 := s.cfg.GetHF(5); h5 != nil && h5.Int64() > 20 && rep < 3 { // around the HF5 height: uncle limit 2 -> 1
				base = h5.Int64() - 11 + int64(rep) // the block under test is HF5-1, HF5, HF5+1
			}
			mk := func(parent *types.Header, salt byte, uncles []*types.Header) *types.Block {
				h := &types.Header{ParentHash: parent.Hash(), Number: new(big.Int).Add(parent.Number, big.NewInt(1)), Time: new(big.Int).Add(parent.Time, big.NewInt(240)),
					GasLimit: parent.GasLimit, Extra: []byte{salt}, Coinbase: common.Address{salt}}
				h.Version = s.cfg.GetBlockVersion(h.Number)
				h.Difficulty = engine.CalcDifficulty(c, h.Time.Uint64(), parent, nil)
				b := types.NewBlock(h, nil, uncles, nil)
				c.add(b.Header())
				c.mu.Lock()
				c.blocks[b.Hash()] = b
				c.mu.Unlock()
				return b
			}
			root := &types.Header{Number: big.NewInt(base), Time: big.NewInt(now - 100000), Difficulty: big.NewInt(46039386), GasLimit: 4700000}
			c.add(root)
			rootB := types.NewBlock(root, nil, nil, nil)
			c.blocks[rootB.Hash()] = rootB
			chain := []*types.Block{rootB}
			// an earlier block of the ancestry already includes one uncle (for the duplicate case)
			var used *types.Header
			for i := 1; i <= 9; i++ {
				var uncles []*types.Header
				if i == 5 {
					u := mk(chain[2].Header(), 0x77, nil) // sibling of chain[3]
					used = u.Header()
					uncles = []*types.Header{used}
				}
				chain = append(chain, mk(chain[i-1].Header(), 1, uncles))
			}
			tip := chain[9]
			// candidate uncles of the block to be built on tip (generation g = distance of the uncle's PARENT from the new block)
			type cand struct {
				h                     *types.Header
				isAncestor, duplicate bool
				parentGen             int
				valid                 bool
			}
			var cands []cand
			for g := 1; g <= 9; g++ { // parent = chain[10-g]
				if 10-g < 0 {
					continue
				}
				par := chain[10-g].Header()
				u := mk(par, byte(0x40+g), nil).Header()
				pg := g
				if g > 7 {
					pg = 0 // outside the 7-generation window
				}
				cands = append(cands, cand{u, false, false, pg, true})
			}
			cands = append(cands, cand{chain[8].Header(), true, false, 2, true}) // an ancestor
			cands = append(cands, cand{used, false, true, 0 + 8 - 5 + 0, true}) // already included by an ancestor (its parent chain[2] is generation 8: outside)
			cands[len(cands)-1].parentGen = 0
			// an uncle with an invalid header (wrong difficulty) but a fine position
			bad := types.CopyHeader(cands[2].h)
			bad.Difficulty = new(big.Int).Add(bad.Difficulty, big.NewInt(1))
			bad.Extra = []byte{0x99}
			cands = append(cands, cand{bad, false, false, cands[2].parentGen, false})
			for trial := 0; trial < 10; trial++ {
				n := rng.Intn(4)
				var us []*types.Header
				var uj []map[string]interface{}
				perm := rng.Perm(len(cands))
				if trial < 3 { // one and two uncles in perfectly valid positions: only the count rule decides
					n = 1 + trial%2
					perm = []int{1 + rng.Intn(3), 4 + rng.Intn(3)}
				}
				for _, i := range perm[:n] {
					us = append(us, cands[i].h)
					uj = append(uj, map[string]interface{}{"isAncestor": cands[i].isAncestor, "duplicate": cands[i].duplicate, "parentGen": cands[i].parentGen, "headerValid": cands[i].valid})
				}
				if n == 2 && rng.Intn(5) == 0 { // the same uncle twice
					us[1] = us[0]
					uj[1] = map[string]interface{}{"isAncestor": uj[0]["isAncestor"], "duplicate": true, "parentGen": uj[0]["parentGen"], "headerValid": uj[0]["headerValid"]}
				}
				if uj == nil {
					uj = []map[string]interface{}{}
				}
				h := &types.Header{ParentHash: tip.Hash(), Number: new(big.Int).Add(tip.Number(), big.NewInt(1)), Time: new(big.Int).Add(tip.Time(), big.NewInt(240)), GasLimit: tip.GasLimit()}
				h.Version = s.cfg.GetBlockVersion(h.Number)
				h.Difficulty = engine.CalcDifficulty(c, h.Time.Uint64(), tip.Header(), nil)
				blk := types.NewBlock(h, nil, us, nil)
				pn := ""
				var e error
				func() {
					defer func() {
						if r := recover(); r != nil {
							pn = fmt.Sprint(r)
						}
					}()
					e = engine.VerifyUncles(c, blk)
				}()
				w.emit(map[string]interface{}{"e": "uncles", "sched": schedJSON(s), "num": int(h.Number.Int64()), "U": uj, "accepted": e == nil && pn == "", "err": verdict(e), "panic": pn})
			}
		}
	}
	// ---- batch vs one-by-one under perturbed schedules ----
	for b := 0; b < nbatch; b++ {
		s := schedules()[3]
		c := newFakeChain(s.cfg)
		now := time.Now().Unix()
		n := 2 + rng.Intn(24)
		start := int64(100 + rng.Intn(1000))
		parent := mkParent(rng, c, start, now, big.NewInt(46039386))
		hs := make([]*types.Header, n)
		prev := parent
		sealFail := uint64(0)
		planted := map[int]string{}
		for i := 0; i < n; i++ {
			h := &types.Header{ParentHash: prev.Hash(), Number: new(big.Int).Add(prev.Number, big.NewInt(1)), Time: new(big.Int).Add(prev.Time, big.NewInt(240)), GasLimit: prev.GasLimit, Extra: []byte{byte(i)}}
			h.Version = s.cfg.GetBlockVersion(h.Number)
			hs[i], prev = h, h
		}
		// difficulties need the chain of parents: compute sequentially with the real function
		prev = parent
		for i := 0; i < n; i++ {
			hs[i].ParentHash = prev.Hash()
			hs[i].Difficulty = engine.CalcDifficulty(c, hs[i].Time.Uint64(), prev, nil)
			prev = hs[i]
		}
		// plant 0-3 failures that do not change hashes of later parents' links: extra-data too long is checked first, so
		// it is planted by a separate header copy list
		nfail := rng.Intn(4)
		for k := 0; k < nfail; k++ {
			i := rng.Intn(n)
			switch rng.Intn(2) {
			case 0:
				if sealFail == 0 {
					sealFail = hs[i].Number.Uint64()
					planted[i] = "seal"
				}
			default:
				// rebuild the tail so that links stay intact after changing header i
				hs[i].GasUsed = hs[i].GasLimit + 1
				planted[i] = "gasused"
				p := hs[i]
				for j := i + 1; j < n; j++ {
					hs[j].ParentHash = p.Hash()
					p = hs[j]
				}
			}
		}
		eng := NewFaker()
		if sealFail != 0 {
			eng = NewFakeFailer(sealFail)
		}
		// one by one: each header with its predecessors known to the chain
		seq := make([]string, n)
		cs := newFakeChain(s.cfg)
		for _, h := range c.headers {
			cs.add(h)
		}
		firstSeq := -1
		for i := 0; i < n; i++ {
			e := eng.VerifyHeader(cs, hs[i], true)
			seq[i] = verdict(e)
			if e != nil && firstSeq < 0 {
				firstSeq = i
			}
			cs.add(hs[i]) // later headers can find their parent (as InsertHeaderChain would have stored the valid prefix)
		}
		// batch, with a schedule perturbation: lookups for some heights are slow
		slow := map[uint64]time.Duration{}
		for k := 0; k < 3; k++ {
			slow[uint64(start)+uint64(rng.Intn(n+1))] = time.Duration(1+rng.Intn(4)) * time.Millisecond
		}
		c.delay = func(num uint64) {
			if d, ok := slow[num]; ok {
				time.Sleep(d)
			} else if rng.Intn(3) == 0 {
				runtime.Gosched()
			}
		}
		old := runtime.GOMAXPROCS([]int{1, 2, 4, 16}[b%4])
		seals := make([]bool, n)
		for i := range seals {
			seals[i] = true
		}
		abort, results := eng.VerifyHeaders(c, hs, seals)
		batch := make([]string, 0, n)
		firstBatch := -1
		for i := 0; i < n; i++ {
			select {
			case e := <-results:
				batch = append(batch, verdict(e))
				if e != nil && firstBatch < 0 {
					firstBatch = i
				}
			case <-time.After(3 * time.Minute):
				batch = append(batch, "TIMEOUT")
			}
		}
		close(abort)
		runtime.GOMAXPROCS(old)
		c.delay = nil
		pl := map[string]string{}
		for i, k := range planted {
			pl[strconv.Itoa(i)] = k
		}
		w.emit(map[string]interface{}{"e": "batch", "n": n, "seq": seq, "batch": batch, "firstSeq": firstSeq, "firstBatch": firstBatch, "planted": pl})
	}
	fmt.Printf("VERIF-STAT events=%d\n", w.n)
}
