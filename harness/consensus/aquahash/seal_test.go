//go:build verif

package aquahash

// C14 driver: for random headers of versions 2, 3, 4 the proof-of-work hash is computed with an independent
// implementation (x/crypto argon2 + sha3) and the difficulty is chosen to straddle it by one; mix digest and sign
// alterations; the version schedule; seals returned by the node's own miner with 1/2/4 threads. TLC (SealTrace.tla) judges.

import (
	"bytes"
	"encoding/binary"
	"fmt"
	"math/big"
	"math/rand"
	"os"
	"strconv"
	"testing"
	"bufio"

	"gitlab.com/aquachain/aquachain/common"
	"gitlab.com/aquachain/aquachain/consensus/aquahash/ethashdag"
	"gitlab.com/aquachain/aquachain/core/types"
	"gitlab.com/aquachain/aquachain/params"
	"gitlab.com/aquachain/aquachain/crypto"
	"gitlab.com/aquachain/aquachain/rlp"
	"golang.org/x/crypto/argon2"
	"golang.org/x/crypto/sha3"
)

func indepKeccak256(b []byte) []byte {
	h := sha3.NewLegacyKeccak256()
	h.Write(b)
	return h.Sum(nil)
}
func indepArgon(version byte, b []byte) []byte {
	mem := map[byte]uint32{2: 1, 3: 16, 4: 32}[version]
	return argon2.IDKey(b, nil, 1, mem, 1, 32)
}

// the seal-free header hash: keccak of the RLP of the 13 non-seal fields, except version 3 (argon2id-16KiB of it)
func indepSealFree(h *types.Header) []byte {
	enc, _ := rlp.EncodeToBytes([]interface{}{h.ParentHash, h.UncleHash, h.Coinbase, h.Root, h.TxHash, h.ReceiptHash, h.Bloom, h.Difficulty, h.Number,
		h.GasLimit, h.GasUsed, h.Time, h.Extra})
	if h.Version == 3 {
		return indepArgon(3, enc)
	}
	return indepKeccak256(enc)
}
func indepPow(h *types.Header) []byte {
	seed := make([]byte, 40)
	copy(seed, indepSealFree(h))
	binary.LittleEndian.PutUint64(seed[32:], h.Nonce.Uint64())
	return indepArgon(byte(h.Version), seed)
}
func indepBlockHash(h *types.Header) []byte {
	enc, _ := rlp.EncodeToBytes(h)
	if h.Version == 1 {
		return indepKeccak256(enc)
	}
	return indepArgon(byte(h.Version), enc)
}

func TestVerifSeal(t *testing.T) {
	out := os.Getenv("VERIF_OUT")
	if out == "" {
		t.Skip("VERIF_OUT not set")
	}
	seed, _ := strconv.ParseInt(os.Getenv("VERIF_SEED"), 10, 64)
	n, _ := strconv.Atoi(os.Getenv("VERIF_N"))
	if n == 0 {
		n = 100
	}
	f, err := os.Create(out)
	if err != nil {
		t.Fatal(err)
	}
	defer f.Close()
	w := &hw{w: bufio.NewWriterSize(f, 1<<20)}
	defer w.w.Flush()
	rng := rand.New(rand.NewSource(seed*214013 + 43))
	engine := New(&Config{StartVersion: 2})
	max256 := new(big.Int).Lsh(big.NewInt(1), 256)
	w.emit(map[string]interface{}{"e": "const", "two256": hlimbs(max256)})
	for i := 0; i < n; i++ {
		v := byte(2 + i%3)
		h := &types.Header{Number: big.NewInt(int64(1 + rng.Intn(1000000))), Time: big.NewInt(int64(1500000000 + rng.Intn(1000000))), GasLimit: 4700000,
			Difficulty: big.NewInt(1), Extra: make([]byte, rng.Intn(33)), Version: types.HeaderVersion(v)}
		rng.Read(h.ParentHash[:])
		rng.Read(h.Root[:])
		rng.Read(h.Coinbase[:])
		h.Nonce = types.EncodeNonce(rng.Uint64())
		emitSeal := func(kind string, hh *types.Header) {
			pow := indepPow(hh)
			hashInt := new(big.Int).SetBytes(pow)
			var verr error
			pn := ""
			func() {
				defer func() {
					if r := recover(); r != nil {
						pn = fmt.Sprint(r)
					}
				}()
				verr = engine.VerifySeal(nil, hh)
			}()
			// the node's own primitives against the independent ones
			sf := hh.HashNoNonce()
			sd := make([]byte, 40)
			copy(sd, sf[:])
			binary.LittleEndian.PutUint64(sd[32:], hh.Nonce.Uint64())
			own := versionHashSafe(byte(hh.Version), sd)
			bh := hh.Hash()
			d := hh.Difficulty
			w.emit(map[string]interface{}{"e": "seal", "kind": kind, "version": int(hh.Version), "hash": hlimbs(hashInt), "diff": hlimbs(new(big.Int).Abs(d)),
				"diffPositive": d.Sign() > 0, "mixOK": hh.MixDigest == (common.Hash{}), "accepted": verr == nil && pn == "", "err": verdict(verr), "panic": pn,
				"powMatchesIndependent": bytes.Equal(own, pow), "sealFreeMatchesIndependent": bytes.Equal(sf[:], indepSealFree(hh)),
				"blockHashMatchesIndependent": bytes.Equal(bh[:], indepBlockHash(hh))})
		}
		hashInt := new(big.Int).SetBytes(indepPow(h)) // difficulty is not part of the... it is: recompute after setting it
		_ = hashInt
		// the tightest straddle the difficulty parameter allows: iterate, because the difficulty is part of the sealed header
		for _, delta := range []int64{0, 1} {
			hh := types.CopyHeader(h)
			// fixed point: d = floor(2^256 / pow(header with difficulty d)) is not attainable in general, so scan a few nonces for
			// a header whose hash makes d_accept = floor(2^256/hash) re-hash to something still <= target; instead judge every
			// candidate by TLC: any (hash, d) pair is a legitimate test of the comparison
			dd := new(big.Int).Div(max256, new(big.Int).Add(new(big.Int).SetBytes(indepPow(hh)), big.NewInt(1)))
			hh.Difficulty = new(big.Int).Add(dd, big.NewInt(delta))
			emitSeal("straddle", hh)
			// nudge the difficulty towards the boundary of the NEW hash a few times (each is a fresh, valid test of the comparison)
			for k := 0; k < 3; k++ {
				hi := new(big.Int).SetBytes(indepPow(hh))
				if hi.Sign() == 0 {
					break
				}
				hh = types.CopyHeader(hh)
				hh.Difficulty = new(big.Int).Add(new(big.Int).Div(max256, hi), big.NewInt(delta))
				emitSeal("straddle", hh)
			}
		}
		for _, d := range []int64{1, 2, 3, 0, -1, -1000} {
			hh := types.CopyHeader(h)
			hh.Difficulty = big.NewInt(d)
			emitSeal("smalldiff", hh)
		}
		hh := types.CopyHeader(h)
		hh.Difficulty = big.NewInt(1)
		hh.MixDigest[rng.Intn(32)] ^= byte(1 << uint(rng.Intn(8)))
		emitSeal("mix", hh)
	}
	// version 1: ethash in test mode (small cache / dataset).  The hashimoto primitive is the repository's own (no independent
	// implementation is available offline) and is trusted; what is judged is the decision: expected mix digest and hash x difficulty.
	{
		tester := NewTester()
		dag := ethashdag.New(&Config{CachesInMem: 1, PowMode: ModeTest})
		n1 := n / 4
		if n1 < 6 {
			n1 = 6
		}
		for i := 0; i < n1; i++ {
			h := &types.Header{Number: big.NewInt(int64(1 + rng.Intn(20000))), Time: big.NewInt(int64(1500000000 + rng.Intn(1000000))), GasLimit: 4700000,
				Difficulty: big.NewInt(1), Extra: make([]byte, rng.Intn(33)), Version: 1}
			rng.Read(h.ParentHash[:])
			rng.Read(h.Root[:])
			h.Nonce = types.EncodeNonce(rng.Uint64())
			emit1 := func(kind string, hh *types.Header, flipMix bool) {
				_, digest, result, err := dag.VerifySeal(hh.Number.Uint64(), hh)
				if err != nil {
					panic(err)
				}
				copy(hh.MixDigest[:], digest)
				if flipMix {
					hh.MixDigest[rng.Intn(32)] ^= byte(1 << uint(rng.Intn(8)))
				}
				var verr error
				pn := ""
				func() {
					defer func() {
						if r := recover(); r != nil {
							pn = fmt.Sprint(r)
						}
					}()
					verr = tester.VerifySeal(nil, hh)
				}()
				sf := hh.HashNoNonce()
				bh := hh.Hash()
				d := hh.Difficulty
				w.emit(map[string]interface{}{"e": "seal", "kind": kind, "version": 1, "hash": hlimbs(new(big.Int).SetBytes(result)), "diff": hlimbs(new(big.Int).Abs(d)),
					"diffPositive": d.Sign() > 0, "mixOK": bytes.Equal(hh.MixDigest[:], digest), "accepted": verr == nil && pn == "", "err": verdict(verr), "panic": pn,
					"powMatchesIndependent": true, "sealFreeMatchesIndependent": bytes.Equal(sf[:], indepSealFree(hh)),
					"blockHashMatchesIndependent": bytes.Equal(bh[:], indepBlockHash(hh))})
			}
			for _, delta := range []int64{0, 1} {
				hh := types.CopyHeader(h)
				for k := 0; k < 3; k++ {
					_, _, result, _ := dag.VerifySeal(hh.Number.Uint64(), hh)
					hi := new(big.Int).SetBytes(result)
					if hi.Sign() == 0 {
						break
					}
					hh = types.CopyHeader(hh)
					hh.Difficulty = new(big.Int).Add(new(big.Int).Div(max256, hi), big.NewInt(delta))
					emit1("v1-straddle", hh, false)
				}
			}
			for _, d := range []int64{1, 2, 0, -1} {
				hh := types.CopyHeader(h)
				hh.Difficulty = big.NewInt(d)
				emit1("v1-smalldiff", hh, false)
			}
			hh := types.CopyHeader(h)
			emit1("v1-mix", hh, true)
		}
	}
	// the version schedule
	for _, s := range schedules() {
		hs := map[int64]bool{0: true, 1: true, 100: true, 1000000: true}
		for _, k := range []int{5, 8, 9} {
			if hf := s.cfg.GetHF(k); hf != nil {
				for dlt := int64(-1); dlt <= 1; dlt++ {
					if hf.Int64()+dlt >= 0 {
						hs[hf.Int64()+dlt] = true
					}
				}
			}
		}
		for height := range hs {
			w.emit(map[string]interface{}{"e": "version", "sched": schedJSON(s), "num": int(height), "version": int(s.cfg.GetBlockVersion(big.NewInt(height)))})
		}
	}
	// the node's own miner
	for _, s := range schedules() {
		for _, k := range []int{5, 8, 9} {
			hf := s.cfg.GetHF(k)
			if hf == nil {
				continue
			}
			for _, threads := range []int{1, 2, 4} {
				for _, diff := range []int64{1, 2, 64, 700} {
					eng := New(&Config{StartVersion: 2})
					eng.SetThreads(threads)
					c := newFakeChain(s.cfg)
					num := hf.Int64() + int64(rng.Intn(2))
					hd := &types.Header{Number: big.NewInt(num), Time: big.NewInt(1600000000), GasLimit: 4700000, Difficulty: big.NewInt(diff), Extra: []byte("mined")}
					if threads == 2 {
						// a template that already carries seal fields (copied from a sealed header): the sealer owns them
						rng.Read(hd.MixDigest[:])
						hd.Nonce = types.EncodeNonce(rng.Uint64())
					}
					hd.Version = s.cfg.GetBlockVersion(hd.Number) // as the miner's worker does before Seal
					if hd.Version == 1 {
						continue
					}
					blk := types.NewBlock(hd, nil, nil, nil)
					res, err := eng.Seal(c, blk, nil)
					ev := map[string]interface{}{"e": "mined", "sched": schedJSON(s), "num": int(num), "threads": threads, "returned": err == nil && res != nil}
					if err == nil && res != nil {
						rh := res.Header()
						pow := indepPow(rh)
						sf := rh.HashNoNonce()
						sd := make([]byte, 40)
						copy(sd, sf[:])
						binary.LittleEndian.PutUint64(sd[32:], rh.Nonce.Uint64())
						bh := rh.Hash()
						verr := eng.VerifySeal(c, rh)
						ev["version"], ev["hash"], ev["diff"], ev["diffPositive"], ev["mixOK"] = int(rh.Version), hlimbs(new(big.Int).SetBytes(pow)), hlimbs(rh.Difficulty), true, rh.MixDigest == (common.Hash{})
						ev["accepted"] = verr == nil
						ev["powMatchesIndependent"] = bytes.Equal(versionHashSafe(byte(rh.Version), sd), pow)
						ev["sealFreeMatchesIndependent"] = bytes.Equal(sf[:], indepSealFree(rh))
						ev["blockHashMatchesIndependent"] = bytes.Equal(bh[:], indepBlockHash(rh))
					} else {
						ev["version"], ev["hash"], ev["diff"], ev["diffPositive"], ev["mixOK"], ev["accepted"] = 0, []int{}, []int{}, false, false, false
						ev["powMatchesIndependent"], ev["sealFreeMatchesIndependent"], ev["blockHashMatchesIndependent"] = false, false, false
					}
					w.emit(ev)
				}
			}
		}
	}
	// one engine verifies a correctly sealed header and then the same header with another mix digest (and in the other order on a
	// fresh engine): every header is checked on its own
	{
		cfg := &params.ChainConfig{ChainId: big.NewInt(77), HomesteadBlock: big.NewInt(0), EIP150Block: big.NewInt(0), Aquahash: new(params.AquahashConfig), HF: params.ForkMap{}}
		mk := func() (*Aquahash, *fakeChain) { return NewTester(), newFakeChain(cfg) }
		eng, c := mk()
		parent := &types.Header{Number: big.NewInt(0), Time: big.NewInt(1600000000), GasLimit: 4700000, Difficulty: big.NewInt(131072), Version: 1}
		c.add(parent)
		hd := &types.Header{ParentHash: parent.Hash(), Number: big.NewInt(1), Time: big.NewInt(1600000013), GasLimit: 4700000, Extra: []byte("seq"), Version: 1}
		hd.Difficulty = eng.CalcDifficulty(c, hd.Time.Uint64(), parent, nil)
		eng.SetThreads(4)
		res, err := eng.Seal(c, types.NewBlock(hd, nil, nil, nil), nil)
		if err == nil && res != nil {
			good := res.Header()
			bad := types.CopyHeader(good)
			bad.MixDigest[7] ^= 0x10
			vs := func(e error) string {
				if e == nil {
					return ""
				}
				return e.Error()
			}
			e1, c1 := mk()
			c1.add(parent)
			a := vs(e1.VerifyHeader(c1, good, true))
			b := vs(e1.VerifyHeader(c1, bad, true))
			e2, c2 := mk()
			c2.add(parent)
			d := vs(e2.VerifyHeader(c2, bad, true))
			g := vs(e2.VerifyHeader(c2, good, true))
			w.emit(map[string]interface{}{"e": "sealseq", "goodFirst": []string{a, b}, "badFirst": []string{d, g}})
		}
	}
	fmt.Printf("VERIF-STAT events=%d\n", w.n)
}

func versionHashSafe(v byte, data []byte) (out []byte) {
	defer func() {
		if r := recover(); r != nil {
			out = nil
		}
	}()
	return crypto.VersionHash(v, data)
}
