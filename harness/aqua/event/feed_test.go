//go:build verif

package event

// C19 conformance driver (direction B): random concurrent runs of the real event.Feed,
// recorded as API-level histories with global atomic tickets. TLC (FeedTrace.tla) judges.
// The driver never judges.

import (
	"bufio"
	"encoding/json"
	"fmt"
	"math/rand"
	"os"
	"runtime"
	"sort"
	"strconv"
	"sync"
	"sync/atomic"
	"testing"
	"time"
)

type fev struct {
	T     int64    `json:"-"`
	E     string   `json:"e"`
	S     string   `json:"s,omitempty"`
	V     string   `json:"v,omitempty"`
	ID    int      `json:"id,omitempty"`
	Nsent *int     `json:"nsent,omitempty"`
	Len   *int     `json:"len,omitempty"`
	Subs  []string `json:"subs,omitempty"`
	Vals  []string `json:"vals,omitempty"`
	Scn   string   `json:"scn,omitempty"`
}

type frec struct {
	ticket int64
	mu     sync.Mutex
	evs    []fev
}

func (r *frec) add(e fev) {
	// the ticket is the event's position in the global order; the slice append is bookkeeping only
	e.T = atomic.AddInt64(&r.ticket, 1)
	r.mu.Lock()
	r.evs = append(r.evs, e)
	r.mu.Unlock()
}

func (r *frec) flush(w *bufio.Writer) int {
	r.mu.Lock()
	defer r.mu.Unlock()
	sort.Slice(r.evs, func(i, j int) bool { return r.evs[i].T < r.evs[j].T })
	for _, e := range r.evs {
		b, _ := json.Marshal(e)
		w.Write(b)
		w.WriteByte('\n')
	}
	n := len(r.evs)
	r.evs = nil
	return n
}

var verifYieldCtr uint64
var verifYieldMode int32 // 0 off, 1 random gosched/sleep

func init() {
	VerifYield = func(site int) {
		if atomic.LoadInt32(&verifYieldMode) == 0 {
			return
		}
		x := atomic.AddUint64(&verifYieldCtr, 0x9E3779B97F4A7C15)
		x ^= x >> 29
		x *= 0xBF58476D1CE4E5B9
		x ^= x >> 32
		switch x % 8 {
		case 0, 1, 2:
			runtime.Gosched()
		case 3:
			time.Sleep(time.Duration(x>>40%50) * time.Microsecond)
		}
	}
}

func intp(i int) *int { return &i }

// one random concurrent scenario
func feedScenario(rng *rand.Rand, rec *frec, name string) (wedged bool) {
	nSub := 1 + rng.Intn(5)
	nSend := 1 + rng.Intn(3)
	k := 1 + rng.Intn(3)
	var subs, vals []string
	for i := 0; i < nSub; i++ {
		subs = append(subs, "s"+strconv.Itoa(i+1))
	}
	for i := 0; i < nSend; i++ {
		for j := 0; j < k; j++ {
			vals = append(vals, fmt.Sprintf("v%d", i*10+j))
		}
	}
	rec.add(fev{E: "reset", Subs: subs, Vals: vals, Scn: name})

	var feed Feed
	chans := make([]chan int, nSub)
	subscr := make([]Subscription, nSub)
	stop := make([]chan struct{}, nSub)
	var recvWG, ctrlWG, sendWG sync.WaitGroup
	sendsDone := make(chan struct{})
	// per-goroutine seeds drawn up front so the schedule of rng use is deterministic
	seeds := make([]int64, nSub*2+nSend)
	for i := range seeds {
		seeds[i] = rng.Int63()
	}
	slowRecv := make([]bool, nSub)
	unsubEarly := make([]bool, nSub)
	subLate := make([]bool, nSub)
	for i := 0; i < nSub; i++ {
		chans[i] = make(chan int, rng.Intn(3))
		stop[i] = make(chan struct{})
		slowRecv[i] = rng.Intn(3) == 0
		unsubEarly[i] = rng.Intn(2) == 0
		subLate[i] = rng.Intn(3) == 0
	}
	recvID := make([]int32, nSub)

	receiver := func(i int, r *rand.Rand) {
		defer recvWG.Done()
		for {
			if slowRecv[i] {
				time.Sleep(time.Duration(r.Intn(300)) * time.Microsecond)
			}
			id := int(atomic.AddInt32(&recvID[i], 1))
			rec.add(fev{E: "recv_call", S: subs[i], ID: id})
			select {
			case v := <-chans[i]:
				rec.add(fev{E: "recv", S: subs[i], ID: id, V: "v" + strconv.Itoa(v)})
			case <-stop[i]:
				return
			}
		}
	}
	controller := func(i int, r *rand.Rand) {
		defer ctrlWG.Done()
		if subLate[i] {
			time.Sleep(time.Duration(r.Intn(400)) * time.Microsecond)
		}
		rec.add(fev{E: "sub_call", S: subs[i]})
		subscr[i] = feed.Subscribe(chans[i])
		rec.add(fev{E: "sub_ret", S: subs[i]})
		recvWG.Add(1)
		go receiver(i, rand.New(rand.NewSource(seeds[nSub+i])))
		if unsubEarly[i] {
			time.Sleep(time.Duration(r.Intn(500)) * time.Microsecond)
		} else {
			<-sendsDone
		}
		rec.add(fev{E: "unsub_call", S: subs[i]})
		subscr[i].Unsubscribe()
		n := len(chans[i])
		rec.add(fev{E: "unsub_ret", S: subs[i], Len: intp(n)})
	}
	sender := func(i int, r *rand.Rand) {
		defer sendWG.Done()
		for j := 0; j < k; j++ {
			if r.Intn(2) == 0 {
				time.Sleep(time.Duration(r.Intn(200)) * time.Microsecond)
			}
			v := i*10 + j
			rec.add(fev{E: "send_call", V: "v" + strconv.Itoa(v)})
			n := feed.Send(v)
			rec.add(fev{E: "send_ret", V: "v" + strconv.Itoa(v), Nsent: intp(n)})
		}
	}
	for i := 0; i < nSub; i++ {
		ctrlWG.Add(1)
		go controller(i, rand.New(rand.NewSource(seeds[i])))
	}
	for i := 0; i < nSend; i++ {
		sendWG.Add(1)
		go sender(i, rand.New(rand.NewSource(seeds[2*nSub+i])))
	}
	waitOr := func(wg *sync.WaitGroup, d time.Duration) bool {
		c := make(chan struct{})
		go func() { wg.Wait(); close(c) }()
		select {
		case <-c:
			return true
		case <-time.After(d):
			return false
		}
	}
	if !waitOr(&sendWG, 120*time.Second) {
		wedged = true
	}
	close(sendsDone)
	if !waitOr(&ctrlWG, 120*time.Second) {
		wedged = true
	}
	for i := 0; i < nSub; i++ {
		close(stop[i])
	}
	if !waitOr(&recvWG, 120*time.Second) {
		wedged = true
	}
	if !wedged {
		// drain what is still buffered: late receive attempts, judged against the len seen at unsub_ret
		for i := 0; i < nSub; i++ {
			for {
				id := int(atomic.AddInt32(&recvID[i], 1))
				rec.add(fev{E: "recv_call", S: subs[i], ID: id})
				select {
				case v := <-chans[i]:
					rec.add(fev{E: "recv", S: subs[i], ID: id, V: "v" + strconv.Itoa(v)})
					continue
				default:
				}
				break
			}
		}
	}
	rec.add(fev{E: "end"})
	return wedged
}

func TestVerifFeedRandom(t *testing.T) {
	out := os.Getenv("VERIF_OUT")
	if out == "" {
		t.Skip("VERIF_OUT not set")
	}
	seed, _ := strconv.ParseInt(os.Getenv("VERIF_SEED"), 10, 64)
	n, _ := strconv.Atoi(os.Getenv("VERIF_N"))
	if n == 0 {
		n = 200
	}
	f, err := os.Create(out)
	if err != nil {
		t.Fatal(err)
	}
	defer f.Close()
	w := bufio.NewWriterSize(f, 1<<20)
	defer w.Flush()
	rng := rand.New(rand.NewSource(seed*7919 + 1))
	rec := &frec{}
	total, wedged := 0, 0
	for i := 0; i < n; i++ {
		atomic.StoreInt32(&verifYieldMode, int32(i%2))
		runtime.GOMAXPROCS([]int{1, 2, 4, 16}[i%4])
		if feedScenario(rng, rec, fmt.Sprintf("rand-%d-%d", seed, i)) {
			wedged++
		}
		total += rec.flush(w)
		if wedged > 0 {
			break // goroutines are stuck; later scenarios would only add noise
		}
	}
	runtime.GOMAXPROCS(runtime.NumCPU())
	fmt.Printf("VERIF-STAT scenarios=%d events=%d wedged=%d\n", n, total, wedged)
}
