//go:build verif

package event

// C19 driver for SubscriptionScope: trackers subscribe to a feed through scope.Track while a closer runs scope.Close over
// subscriptions whose Unsubscribe is slow (so that Close is busy for a while).  After Close has returned and every tracker has
// finished, nothing the scope accepted may still be subscribed: the scope is empty and a Send reaches nobody.  ScopeT in
// MuxTrace.tla judges.

import (
	"bufio"
	"encoding/json"
	"fmt"
	"math/rand"
	"os"
	"strconv"
	"sync"
	"testing"
	"time"
)

func TestVerifScope(t *testing.T) {
	seed, _ := strconv.ParseInt(os.Getenv("VERIF_SEED"), 10, 64)
	n, _ := strconv.Atoi(os.Getenv("VERIF_N"))
	if n == 0 {
		n = 100
	}
	out := os.Getenv("VERIF_SCOPE_OUT")
	if out == "" {
		out = os.DevNull
	}
	f, err := os.Create(out)
	if err != nil {
		t.Fatal(err)
	}
	defer f.Close()
	w := bufio.NewWriter(f)
	defer w.Flush()
	rng := rand.New(rand.NewSource(seed*31337 + 5))
	for i := 0; i < n; i++ {
		var (
			feed  Feed
			scope SubscriptionScope
			mu    sync.Mutex
			chans []chan int
		)
		// a few slow subscriptions so that Close takes a moment
		for k := 0; k < 2+rng.Intn(3); k++ {
			scope.Track(NewSubscription(func(quit <-chan struct{}) error {
				<-quit
				time.Sleep(time.Duration(200+rng.Intn(400)) * time.Microsecond)
				return nil
			}))
		}
		pre := 1 + rng.Intn(3)
		track := func() (accepted bool) {
			ch := make(chan int, 4)
			s := feed.Subscribe(ch)
			ts := scope.Track(s)
			if ts == nil {
				s.Unsubscribe() // the scope is closed: the caller keeps nothing
				return false
			}
			mu.Lock()
			chans = append(chans, ch)
			mu.Unlock()
			return true
		}
		acc, nils := 0, 0
		for k := 0; k < pre; k++ {
			if track() {
				acc++
			}
		}
		var wg sync.WaitGroup
		var cmu sync.Mutex
		trackers := 2 + rng.Intn(4)
		for k := 0; k < trackers; k++ {
			wg.Add(1)
			d := time.Duration(rng.Intn(1500)) * time.Microsecond
			go func() {
				defer wg.Done()
				time.Sleep(d)
				ok := track()
				cmu.Lock()
				if ok {
					acc++
				} else {
					nils++
				}
				cmu.Unlock()
			}()
		}
		time.Sleep(time.Duration(rng.Intn(800)) * time.Microsecond)
		scope.Close()
		closedAt := time.Now()
		wg.Wait()
		count := scope.Count()
		delivered := feed.Send(42)
		late := scope.Track(feed.Subscribe(make(chan int, 1))) != nil
		b, _ := json.Marshal(map[string]interface{}{"e": "scope", "scn": i, "accepted": acc, "refused": nils, "countAfterClose": count,
			"deliveredAfterClose": delivered, "trackAfterCloseAccepted": late, "us": time.Since(closedAt).Microseconds()})
		w.Write(b)
		w.WriteByte('\n')
	}
	fmt.Printf("VERIF-STAT scope scenarios=%d\n", n)
}
