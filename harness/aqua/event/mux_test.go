//go:build verif

package event

// C19 driver for event.TypeMux: Posts run in their own goroutines; the driver thread owns every subscriber and decides,
// step by step, whether to take the next delivery (a Post blocks on one unbuffered subscriber channel at a time, so the
// subscribers are the scheduler) or to Unsubscribe / Subscribe in the middle of a Post.  One history line per scenario;
// MuxTrace.tla judges.

import (
	"bufio"
	"encoding/json"
	"fmt"
	"math/rand"
	"os"
	"reflect"
	"strconv"
	"testing"
	"time"
)

type muxStep struct {
	Op   string `json:"op"` // post-start | recv | unsub | sub | post-done | wedge
	Post int    `json:"post"`
	Sub  int    `json:"sub"`
}

type muxVal struct{ Post int }

func runMuxScenario(rng *rand.Rand) (steps []muxStep, nsubs int) {
	var mux TypeMux
	nsubs = 3 + rng.Intn(4)
	subs := []*TypeMuxSubscription{}
	live := map[int]bool{}
	for i := 0; i < nsubs; i++ {
		subs = append(subs, mux.Subscribe(muxVal{}))
		live[i] = true
	}
	steps = []muxStep{}
	nposts := 1 + rng.Intn(2)
	done := make(chan int, nposts)
	running := 0
	settling := map[int]bool{}
	startPost := func(p int) {
		steps = append(steps, muxStep{Op: "post-start", Post: p, Sub: -1})
		running++
		go func() {
			mux.Post(muxVal{p})
			done <- p
		}()
		settling[p] = true // no Subscribe / Unsubscribe until this Post has shown that it holds its snapshot (first delivery or return)
	}
	startPost(1)
	started := 1
	for running > 0 {
		// maybe interfere
		r := rng.Intn(10)
		if len(settling) > 0 {
			r = 9
		}
		switch {
		case r < 3:
			cands := []int{}
			for i := range subs {
				if live[i] {
					cands = append(cands, i)
				}
			}
			if len(cands) > 0 {
				j := cands[rng.Intn(len(cands))]
				subs[j].Unsubscribe()
				live[j] = false
				steps = append(steps, muxStep{Op: "unsub", Post: 0, Sub: j})
			}
		case r == 3 && len(subs) < 9:
			subs = append(subs, mux.Subscribe(muxVal{}))
			live[len(subs)-1] = true
			steps = append(steps, muxStep{Op: "sub", Post: 0, Sub: len(subs) - 1})
		case r == 4 && started < nposts:
			started++
			startPost(started)
		}
		// take the next thing that happens
		cases := []reflect.SelectCase{{Dir: reflect.SelectRecv, Chan: reflect.ValueOf(done)},
			{Dir: reflect.SelectRecv, Chan: reflect.ValueOf(time.After(60 * time.Second))}}
		idx := []int{-1, -1}
		for i, s := range subs {
			if live[i] {
				cases = append(cases, reflect.SelectCase{Dir: reflect.SelectRecv, Chan: reflect.ValueOf(s.Chan())})
				idx = append(idx, i)
			}
		}
		chosen, v, ok := reflect.Select(cases)
		switch {
		case chosen == 0:
			steps = append(steps, muxStep{Op: "post-done", Post: int(v.Int()), Sub: -1})
			delete(settling, int(v.Int()))
			running--
			if running == 0 && started < nposts {
				started++
				startPost(started)
			}
		case chosen == 1:
			steps = append(steps, muxStep{Op: "wedge", Post: 0, Sub: -1})
			return
		case ok:
			ev := v.Interface().(*TypeMuxEvent)
			steps = append(steps, muxStep{Op: "recv", Post: ev.Data.(muxVal).Post, Sub: idx[chosen]})
			delete(settling, ev.Data.(muxVal).Post)
		default:
			// a closed channel of a live subscriber: the mux dropped it
			steps = append(steps, muxStep{Op: "closed", Post: 0, Sub: idx[chosen]})
			live[idx[chosen]] = false
		}
	}
	mux.Stop()
	return
}

func TestVerifMux(t *testing.T) {
	seed, _ := strconv.ParseInt(os.Getenv("VERIF_SEED"), 10, 64)
	n, _ := strconv.Atoi(os.Getenv("VERIF_N"))
	if n == 0 {
		n = 200
	}
	out := os.Getenv("VERIF_MUX_OUT")
	if out == "" {
		out = os.DevNull
	}
	f, err := os.Create(out)
	if err != nil {
		t.Fatal(err)
	}
	defer f.Close()
	w := bufio.NewWriter(f)
	defer w.Flush()
	rng := rand.New(rand.NewSource(seed*7919 + 13))
	total := 0
	for i := 0; i < n; i++ {
		steps, nsubs := runMuxScenario(rng)
		b, _ := json.Marshal(map[string]interface{}{"e": "mux", "scn": i, "nsubs": nsubs, "steps": steps})
		w.Write(b)
		w.WriteByte('\n')
		total += len(steps)
	}
	fmt.Printf("VERIF-STAT mux scenarios=%d steps=%d\n", n, total)
}
