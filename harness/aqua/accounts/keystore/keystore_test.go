//go:build verif

package keystore

// C20 driver: real EncryptKey / DecryptKey / keyStorePassphrase.GetKey / KeyStore.Import on key files (scrypt and
// pbkdf2), for every key x passphrase of a boundary set, every near-miss passphrase, and EVERY single-character
// substitution, deletion and duplication at every position of the stored file (values and key names alike).
// Outcomes are classified against the original key; TLC (KeystoreTrace.tla) judges.

import (
	"bufio"
	"bytes"
	"crypto/aes"
	"crypto/cipher"
	"crypto/sha256"
	"encoding/hex"
	"encoding/json"
	"fmt"
	"golang.org/x/crypto/scrypt"
	"math/big"
	"math/rand"
	"os"
	"path/filepath"
	"strconv"
	"strings"
	"testing"

	"gitlab.com/aquachain/aquachain/common"
	"gitlab.com/aquachain/aquachain/crypto"
	"golang.org/x/crypto/pbkdf2"
)

type kw struct {
	w *bufio.Writer
	n int
}

func (v *kw) emit(e interface{}) {
	b, err := json.Marshal(e)
	if err != nil {
		panic(err)
	}
	v.w.Write(b)
	v.w.WriteByte('\n')
	v.n++
}

// which part of the file a byte offset belongs to (the JSON path of the innermost member), and whether it is in a key name
func locate(file []byte, pos int) (path string, inName bool) {
	// a tiny scanner: track the current member names by depth
	var names []string
	depth := 0
	i := 0
	cur := ""
	for i < len(file) {
		c := file[i]
		switch c {
		case '{':
			depth++
			names = append(names, "")
		case '}':
			depth--
			if len(names) > 0 {
				names = names[:len(names)-1]
			}
		case '"':
			j := i + 1
			for j < len(file) && file[j] != '"' {
				if file[j] == '\\' {
					j++
				}
				j++
			}
			// a string: key name if followed by ':'
			k := j + 1
			for k < len(file) && (file[k] == ' ') {
				k++
			}
			isName := k < len(file) && file[k] == ':'
			if isName && len(names) > 0 {
				names[len(names)-1] = string(file[i+1 : j])
			}
			if pos >= i && pos <= j {
				return strings.Join(names, "."), isName
			}
			i = j
		}
		if pos == i {
			cur = strings.Join(names, ".")
			return cur, false
		}
		i++
	}
	return cur, false
}

func classify(key *Key, err error, pn string, orig *Key) string {
	switch {
	case pn != "":
		return "panic"
	case err != nil:
		return "error"
	case key == nil || key.PrivateKey == nil:
		return "error"
	case key.Address == orig.Address && bytes.Equal(crypto.FromECDSA(key.PrivateKey), crypto.FromECDSA(orig.PrivateKey)):
		return "original"
	}
	return "different"
}

func tryDecrypt(file []byte, pass string, orig *Key) string {
	var k *Key
	var err error
	pn := ""
	func() {
		defer func() {
			if r := recover(); r != nil {
				pn = fmt.Sprint(r)
			}
		}()
		k, err = DecryptKey(file, pass)
	}()
	return classify(k, err, pn, orig)
}

// through the keystore: the file sits in the key directory under the original account
func tryGetKey(dir string, file []byte, pass string, orig *Key) string {
	fn := filepath.Join(dir, "k.json")
	os.WriteFile(fn, file, 0600)
	var k *Key
	var err error
	pn := ""
	func() {
		defer func() {
			if r := recover(); r != nil {
				pn = fmt.Sprint(r)
			}
		}()
		k, err = keyStorePassphrase{dir, 2, 1}.GetKey(orig.Address, fn, pass)
	}()
	return classify(k, err, pn, orig)
}

// Import of a file: the account that results must be the original one
func tryImport(dir string, file []byte, pass string, orig *Key) string {
	d, _ := os.MkdirTemp(dir, "imp")
	defer os.RemoveAll(d)
	ks := NewKeyStore(d, 2, 1)
	pn := ""
	var addr common.Address
	var err error
	func() {
		defer func() {
			if r := recover(); r != nil {
				pn = fmt.Sprint(r)
			}
		}()
		acc, e := ks.Import(file, pass, "newpass")
		addr, err = acc.Address, e
	}()
	switch {
	case pn != "":
		return "panic"
	case err != nil:
		return "error"
	case addr == orig.Address:
		return "original"
	}
	return "different"
}

func altChar(rng *rand.Rand, c byte) byte {
	const hexd = "0123456789abcdef"
	switch {
	case c >= '0' && c <= '9' || c >= 'a' && c <= 'f':
		for {
			n := hexd[rng.Intn(16)]
			if n != c {
				return n
			}
		}
	case c >= 'g' && c <= 'z':
		return 'g' + (c-'g'+1+byte(rng.Intn(18)))%20
	case c >= 'A' && c <= 'Z':
		return 'A' + (c-'A'+1)%26
	}
	return c
}

func TestVerifKeystore(t *testing.T) {
	out := os.Getenv("VERIF_OUT")
	if out == "" {
		t.Skip("VERIF_OUT not set")
	}
	seed, _ := strconv.ParseInt(os.Getenv("VERIF_SEED"), 10, 64)
	nfiles, _ := strconv.Atoi(os.Getenv("VERIF_FILES"))
	if nfiles == 0 {
		nfiles = 3
	}
	f, err := os.Create(out)
	if err != nil {
		t.Fatal(err)
	}
	defer f.Close()
	w := &kw{w: bufio.NewWriterSize(f, 1<<20)}
	defer w.w.Flush()
	rng := rand.New(rand.NewSource(seed*22695477 + 47))
	dir, _ := os.MkdirTemp("", "verifks")
	defer os.RemoveAll(dir)
	passes := []string{"", "a", "correct horse battery staple", strings.Repeat("x", 1024), "пароль-密码", "nul\x00inside", " lead", "trail "}
	// private keys: random, and with 1 / 2 leading zero bytes
	mkKey := func(leading int) *Key {
		for {
			b := make([]byte, 32)
			rng.Read(b)
			for i := 0; i < leading; i++ {
				b[i] = 0
			}
			if leading > 0 && b[leading] == 0 {
				b[leading] = 1
			}
			k, err := crypto.BytesToKey(b)
			if err != nil {
				d := new(big.Int).SetBytes(b)
				if d.Sign() == 0 {
					continue
				}
				k = crypto.ToECDSAUnsafe(b)
			}
			return newKeyFromECDSA(k)
		}
	}
	// ---- round trips: every key x every passphrase; near-miss passphrases ----
	for li := 0; li < 3; li++ {
		for _, pass := range passes {
			key := mkKey(li)
			file, err := EncryptKey(key, pass, 2, 1)
			if err != nil {
				t.Fatal(err)
			}
			w.emit(map[string]interface{}{"e": "roundtrip", "leadingZeros": li, "passLen": len(pass), "decrypt": tryDecrypt(file, pass, key),
				"getkey": tryGetKey(dir, file, pass, key), "import": tryImport(dir, file, pass, key)})
			near := []string{pass + "x", pass + " ", strings.ToUpper(pass) + "!", "x" + pass}
			if len(pass) > 0 {
				near = append(near, pass[:len(pass)-1], pass[1:], strings.Replace(pass, pass[:1], "~", 1))
			}
			for _, np := range near {
				if np == pass {
					continue
				}
				w.emit(map[string]interface{}{"e": "wrongpass", "decrypt": tryDecrypt(file, np, key), "getkey": tryGetKey(dir, file, np, key)})
			}
		}
	}
	// ---- the public KeyStore API ----
	{
		d, _ := os.MkdirTemp(dir, "api")
		ks := NewKeyStore(d, 2, 1)
		for i := 0; i < 4; i++ {
			pass := passes[rng.Intn(len(passes))]
			key := mkKey(i % 3)
			acc, err := ks.ImportECDSA(key.PrivateKey, pass)
			ok := err == nil && acc.Address == key.Address
			e1 := ks.Unlock(acc, pass+"?")
			e2 := ks.Unlock(acc, pass)
			hash := crypto.Keccak256([]byte("msg"))
			sig, e3 := ks.SignHashAllowed(acc, hash)
			var rec common.Address
			if e3 == nil {
				if pub, e := crypto.SigToPub(hash, sig); e == nil {
					rec = crypto.PubkeyToAddress(pub)
				}
			}
			exp, e4 := ks.Export(acc, pass, "exported")
			expOK := "error"
			if e4 == nil {
				expOK = tryDecrypt(exp, "exported", key)
			}
			e5 := ks.Update(acc, pass, "updated")
			e6 := ks.Unlock(acc, "updated")
			w.emit(map[string]interface{}{"e": "api", "imported": ok, "wrongUnlockFails": e1 != nil, "unlock": e2 == nil, "signerIsAccount": e3 == nil && rec == key.Address,
				"export": expOK, "update": e5 == nil, "unlockAfterUpdate": e6 == nil, "oldPassFailsAfterUpdate": ks.Unlock(acc, pass) != nil || pass == "updated"})
		}
	}
	// ---- every single-character alteration of the stored file ----
	pbk := func(key *Key, pass string) []byte { // a pbkdf2 variant of the same format
		file, _ := EncryptKey(key, pass, 2, 1)
		var m map[string]interface{}
		json.Unmarshal(file, &m)
		cr := m["crypto"].(map[string]interface{})
		salt := make([]byte, 32)
		rng.Read(salt)
		dk := pbkdf2Key([]byte(pass), salt, 8, 32)
		iv, _ := hex.DecodeString(cr["cipherparams"].(map[string]interface{})["iv"].(string))
		ct, _ := aesCTRXOR(dk[:16], common.LeftPadBytes(crypto.FromECDSA(key.PrivateKey), 32), iv)
		cr["kdf"] = "pbkdf2"
		cr["kdfparams"] = map[string]interface{}{"c": 8, "dklen": 32, "prf": "hmac-sha256", "salt": hex.EncodeToString(salt)}
		cr["ciphertext"] = hex.EncodeToString(ct)
		cr["mac"] = hex.EncodeToString(crypto.Keccak256(dk[16:32], ct))
		o, _ := json.Marshal(m)
		return o
	}
	v1 := func(key *Key, pass string) []byte { // a version-1 file (AES-128-CBC, accepted on read, never written)
		salt := make([]byte, 32)
		rng.Read(salt)
		dk := scryptKey([]byte(pass), salt)
		iv := make([]byte, 16)
		rng.Read(iv)
		plain := common.LeftPadBytes(crypto.FromECDSA(key.PrivateKey), 32)
		plain = append(plain, bytes.Repeat([]byte{16}, 16)...) // PKCS7: a full block of padding
		blk, _ := aes.NewCipher(crypto.Keccak256(dk[:16])[:16])
		ct := make([]byte, len(plain))
		cipher.NewCBCEncrypter(blk, iv).CryptBlocks(ct, plain)
		m := map[string]interface{}{"address": hex.EncodeToString(key.Address[:]), "id": key.Id.String(), "version": "1",
			"crypto": map[string]interface{}{"cipher": "aes-128-cbc", "ciphertext": hex.EncodeToString(ct), "cipherparams": map[string]interface{}{"iv": hex.EncodeToString(iv)},
				"kdf": "scrypt", "kdfparams": map[string]interface{}{"dklen": 32, "n": 2, "p": 1, "r": 8, "salt": hex.EncodeToString(salt)},
				"mac": hex.EncodeToString(crypto.Keccak256(dk[16:32], ct))}}
		o, _ := json.Marshal(m)
		return o
	}
	for fi := 0; fi < nfiles; fi++ {
		pass := passes[1+rng.Intn(len(passes)-1)]
		key := mkKey(fi % 3)
		var file []byte
		switch fi % 4 {
		case 2:
			file = pbk(key, pass)
		case 3:
			file = v1(key, pass)
		default:
			file, _ = EncryptKey(key, pass, 2, 1)
		}
		if tryDecrypt(file, pass, key) != "original" {
			w.emit(map[string]interface{}{"e": "tamper", "kind": "baseline-broken", "path": "", "inName": false, "decrypt": "error", "getkey": "error", "import": "error"})
			continue
		}
		for pos := 0; pos < len(file); pos++ {
			c := file[pos]
			var variants [][]byte
			kinds := []string{}
			if a := altChar(rng, c); a != c {
				variants = append(variants, append(append(append([]byte{}, file[:pos]...), a), file[pos+1:]...))
				kinds = append(kinds, "subst")
			}
			if c >= '0' && c <= '9' && !strings.Contains(locateStr(file, pos), "\"") {
				// a bare JSON number (KDF parameters, version): every other digit, not only a random one
				for d := byte('0'); d <= '9'; d++ {
					if d != c {
						variants = append(variants, append(append(append([]byte{}, file[:pos]...), d), file[pos+1:]...))
						kinds = append(kinds, "subst")
					}
				}
			}
			if c != '"' && c != '{' && c != '}' && c != ':' && c != ',' {
				variants = append(variants, append(append([]byte{}, file[:pos]...), file[pos+1:]...))
				kinds = append(kinds, "delete")
				variants = append(variants, append(append(append([]byte{}, file[:pos+1]...), c), file[pos+1:]...))
				kinds = append(kinds, "dup")
			}
			path, inName := locate(file, pos)
			for vi, v := range variants {
				ev := map[string]interface{}{"e": "tamper", "kind": kinds[vi], "path": path, "inName": inName, "decrypt": tryDecrypt(v, pass, key),
					"getkey": tryGetKey(dir, v, pass, key)}
				ev["import"] = "skipped"
				if strings.Contains(path, "iv") || strings.Contains(path, "address") || pos%7 == 0 {
					ev["import"] = tryImport(dir, v, pass, key)
				}
				w.emit(ev)
			}
		}
	}
	fmt.Printf("VERIF-STAT events=%d\n", w.n)
}

// the JSON token around pos (up to the enclosing separators): contains a quote iff pos is inside a string
func locateStr(file []byte, pos int) string {
	i, j := pos, pos
	for i > 0 && file[i-1] != ':' && file[i-1] != ',' && file[i-1] != '{' {
		i--
	}
	for j < len(file) && file[j] != ',' && file[j] != '}' {
		j++
	}
	return string(file[i:j])
}

func scryptKey(pass, salt []byte) []byte {
	dk, err := scrypt.Key(pass, salt, 2, 8, 1, 32)
	if err != nil {
		panic(err)
	}
	return dk
}

func pbkdf2Key(pass, salt []byte, c, n int) []byte { return pbkdf2.Key(pass, salt, c, n, sha256.New) }
