//go:build verif

package filters_test

// C16 driver: seeded chains whose receipts carry logs (real LOGn-emitting transactions executed by the state processor,
// and unchecked receipts with addresses/topics from a small colliding universe, including a topic equal to the emitting
// address padded to 32 bytes), written to a database; the real chain indexer (aqua.NewBloomIndexer) builds the bloom-bits
// index with a seeded section size; queries run through filters.New(...).Logs and PublicFilterAPI.GetLogs, once with the
// index progress the indexer reached (or a seeded smaller one) and once with no index at all.  Recorded: the canonical
// receipts as read back from the database, header and receipt blooms as bit positions, the bit positions of every item
// from an independent keccak, and each query with its result.  TLC (LogFilterTrace.tla) computes the brute-force answer
// and judges.

import (
	"bufio"
	"context"
	"encoding/json"
	"fmt"
	"math/big"
	"math/rand"
	"os"
	"strconv"
	"testing"
	"time"

	"gitlab.com/aquachain/aquachain/aqua"
	"gitlab.com/aquachain/aquachain/aqua/event"
	"gitlab.com/aquachain/aquachain/aqua/filters"
	"gitlab.com/aquachain/aquachain/aquadb"
	"gitlab.com/aquachain/aquachain/common"
	"gitlab.com/aquachain/aquachain/common/bitutil"
	"gitlab.com/aquachain/aquachain/consensus/aquahash"
	"gitlab.com/aquachain/aquachain/core"
	"gitlab.com/aquachain/aquachain/core/bloombits"
	"gitlab.com/aquachain/aquachain/core/types"
	"gitlab.com/aquachain/aquachain/crypto"
	"gitlab.com/aquachain/aquachain/params"
	"gitlab.com/aquachain/aquachain/rpc"
	"golang.org/x/crypto/sha3"
)

type fvw struct {
	w *bufio.Writer
	n int
}

func (v *fvw) emit(e interface{}) {
	b, err := json.Marshal(e)
	if err != nil {
		panic(err)
	}
	v.w.Write(b)
	v.w.WriteByte('\n')
	v.n++
}

type fBackend struct {
	db                      aquadb.Database
	mux                     *event.TypeMux
	feed                    *event.Feed
	txFeed, rmFeed, logFeed event.Feed
	size                    uint64
	sections                uint64 // index progress reported to the filter
}

func (b *fBackend) ChainDb() aquadb.Database { return b.db }
func (b *fBackend) EventMux() *event.TypeMux { return b.mux }
func (b *fBackend) GetHeaderVersion(h *big.Int) params.HeaderVersion {
	return params.TestChainConfig.GetBlockVersion(h)
}
func (b *fBackend) HeaderByNumber(ctx context.Context, blockNr rpc.BlockNumber) (*types.Header, error) {
	var hash common.Hash
	var num uint64
	if blockNr == rpc.LatestBlockNumber {
		hash = core.GetHeadBlockHash(b.db)
		num = core.GetBlockNumber(b.db, hash)
	} else {
		num = uint64(blockNr)
		hash = core.GetCanonicalHash(b.db, num)
	}
	header := core.GetHeaderNoVersion(b.db, hash, num)
	if header != nil {
		header.Version = b.GetHeaderVersion(header.Number)
	}
	return header, nil
}
func (b *fBackend) GetReceipts(ctx context.Context, blockHash common.Hash) (types.Receipts, error) {
	number := core.GetBlockNumber(b.db, blockHash)
	return core.GetBlockReceipts(b.db, blockHash, number), nil
}
func (b *fBackend) GetLogs(ctx context.Context, blockHash common.Hash) ([][]*types.Log, error) {
	receipts, _ := b.GetReceipts(ctx, blockHash)
	logs := make([][]*types.Log, len(receipts))
	for i, receipt := range receipts {
		logs[i] = receipt.Logs
	}
	return logs, nil
}
func (b *fBackend) SubscribeTxPreEvent(ch chan<- core.TxPreEvent) event.Subscription {
	return b.txFeed.Subscribe(ch)
}
func (b *fBackend) SubscribeChainEvent(ch chan<- core.ChainEvent) event.Subscription {
	return b.feed.Subscribe(ch)
}
func (b *fBackend) SubscribeRemovedLogsEvent(ch chan<- core.RemovedLogsEvent) event.Subscription {
	return b.rmFeed.Subscribe(ch)
}
func (b *fBackend) SubscribeLogsEvent(ch chan<- []*types.Log) event.Subscription {
	return b.logFeed.Subscribe(ch)
}
func (b *fBackend) BloomStatus() (uint64, uint64) { return b.size, b.sections }

// as aqua.startBloomHandlers, with the backend's section size
func (b *fBackend) ServiceFilter(ctx context.Context, session *bloombits.MatcherSession) {
	requests := make(chan chan *bloombits.Retrieval)
	for i := 0; i < 3; i++ {
		go session.Multiplex(16, 0, requests)
	}
	go func() {
		for {
			select {
			case <-ctx.Done():
				return
			case request := <-requests:
				task := <-request
				task.Bitsets = make([][]byte, len(task.Sections))
				for i, section := range task.Sections {
					head := core.GetCanonicalHash(b.db, (section+1)*b.size-1)
					if compVector, err := core.GetBloomBits(b.db, task.Bit, section, head); err == nil {
						if blob, err := bitutil.DecompressBytes(compVector, int(b.size)/8); err == nil {
							task.Bitsets[i] = blob
						} else {
							task.Error = err
						}
					} else {
						task.Error = err
					}
				}
				request <- task
			}
		}
	}()
}

// the chain as the indexer sees it
type fChain struct {
	b *fBackend
}

func (c fChain) CurrentHeader() *types.Header {
	h, _ := c.b.HeaderByNumber(context.Background(), rpc.LatestBlockNumber)
	return h
}
func (c fChain) SubscribeChainEvent(ch chan<- core.ChainEvent) event.Subscription {
	return c.b.feed.Subscribe(ch)
}

func fhex(b []byte) string { return fmt.Sprintf("%x", b) }

// three bit positions of an item, from an independent keccak
func indepBits(item []byte) []int {
	h := sha3.NewLegacyKeccak256()
	h.Write(item)
	s := h.Sum(nil)
	out := []int{}
	for i := 0; i < 6; i += 2 {
		out = append(out, (int(s[i])<<8|int(s[i+1]))&2047)
	}
	return out
}

// set bit positions of a 2048-bit bloom (big-endian byte string, position p = bit p of the integer)
func bloomPositions(b types.Bloom) []int {
	out := []int{}
	for p := 0; p < 2048; p++ {
		if b[255-p/8]&(1<<uint(p%8)) != 0 {
			out = append(out, p)
		}
	}
	return out
}

type fLog struct {
	Addr   string   `json:"addr"`
	Topics []string `json:"topics"`
}

func toFLog(l *types.Log) fLog {
	o := fLog{Addr: fhex(l.Address[:]), Topics: []string{}}
	for _, t := range l.Topics {
		o.Topics = append(o.Topics, fhex(t[:]))
	}
	return o
}

func TestVerifLogFilter(t *testing.T) {
	seed, _ := strconv.ParseInt(os.Getenv("VERIF_SEED"), 10, 64)
	nchains, _ := strconv.Atoi(os.Getenv("VERIF_CHAINS"))
	if nchains == 0 {
		nchains = 4
	}
	nq, _ := strconv.Atoi(os.Getenv("VERIF_QUERIES"))
	if nq == 0 {
		nq = 40
	}
	out := os.Getenv("VERIF_OUT")
	if out == "" {
		out = os.DevNull
	}
	f, err := os.Create(out)
	if err != nil {
		t.Fatal(err)
	}
	defer f.Close()
	w := &fvw{w: bufio.NewWriterSize(f, 1<<20)}
	defer w.w.Flush()
	queries := 0
	for c := 0; c < nchains; c++ {
		queries += runFilterChain(t, w, rand.New(rand.NewSource(seed*1000+int64(c))), c, nq, false)
	}
	nreal, _ := strconv.Atoi(os.Getenv("VERIF_REALIDX"))
	for c := 0; c < nreal; c++ {
		queries += runFilterChain(t, w, rand.New(rand.NewSource(seed*1000+500+int64(c))), nchains+c, nq/2, true)
	}
	runCodec(w, rand.New(rand.NewSource(seed*77+1)))
	fmt.Printf("VERIF-STAT chains=%d queries=%d events=%d\n", nchains, queries, w.n)
}

// the compression every index section passes through: all vectors of up to 5 bytes over a boundary alphabet (the specification
// computes their encoding), and section-sized vectors (256 and 512 bytes) with every interesting number of non-zero bytes -
// among them the densities at which the encoding is exactly as long as the vector
func runCodec(w *fvw, rng *rand.Rand) {
	ints := func(b []byte) []int {
		out := make([]int, len(b))
		for i, x := range b {
			out[i] = int(x)
		}
		return out
	}
	probe := func(data []byte, small bool) {
		enc := bitutil.CompressBytes(data)
		dec, err := bitutil.DecompressBytes(enc, len(data))
		same := err == nil && len(dec) == len(data)
		for i := 0; same && i < len(data); i++ {
			same = dec[i] == data[i]
		}
		ev := map[string]interface{}{"e": "codec", "n": len(data), "small": small, "encLen": len(enc), "decOk": err == nil, "same": same, "data": []int{}, "enc": []int{}, "dec": []int{}}
		if small {
			ev["data"], ev["enc"], ev["dec"] = ints(data), ints(enc), ints(dec)
		}
		w.emit(ev)
	}
	alpha := []byte{0, 1, 128, 255}
	var rec func(cur []byte)
	rec = func(cur []byte) {
		probe(cur, true)
		if len(cur) == 5 {
			return
		}
		for _, a := range alpha {
			rec(append(append([]byte{}, cur...), a))
		}
	}
	rec(nil)
	for _, n := range []int{8, 9, 64, 256, 512} {
		for k := 0; k <= n; k++ {
			if n >= 256 && k > 3 && k < n-3 && k%16 != 0 && (k < n*7/8-4 || k > n*7/8+4) {
				continue
			}
			// k non-zero bytes: at the front, at the back, and scattered
			for layout := 0; layout < 3; layout++ {
				data := make([]byte, n)
				pos := rng.Perm(n)
				for j := 0; j < k; j++ {
					i := j
					if layout == 1 {
						i = n - 1 - j
					} else if layout == 2 {
						i = pos[j]
					}
					data[i] = byte(1 + rng.Intn(255))
				}
				probe(data, false)
			}
		}
	}
}

func runFilterChain(t *testing.T, w *fvw, rng *rand.Rand, cidx, nq int, realIndexer bool) int {
	var (
		db      = aquadb.NewMemDatabase()
		key, _  = crypto.HexToBtcec("b71c71a67e1177ad4e901695e1b4b9ee17ae16c6668d313eac2f96dbcda3f291")
		sender  = crypto.PubkeyToAddress(key.PubKey())
		size    = []uint64{8, 16, 32, 64}[rng.Intn(4)]
		wantSec = uint64(1 + rng.Intn(4))
		extra   = uint64(rng.Intn(int(size) + 6))
		nblocks = int(wantSec*size + extra - 1)
		backend = &fBackend{db: db, mux: new(event.TypeMux), feed: new(event.Feed), size: size}
		signer  = types.NewEIP155Signer(params.TestChainConfig.ChainId)
	)
	if realIndexer {
		// bloombits.Generator only accepts section sizes >= 2048 (its Bitset bound check compares the bit index with the
		// section size), and the chain indexer wants 256 confirmations
		size = 2048
		wantSec = uint64(1 + rng.Intn(2))
		nblocks = int(256 + wantSec*size + uint64(rng.Intn(64)) - 1)
		backend.size = size
	}
	// item universe: a few addresses and topics; topic "self" values are addresses padded to 32 bytes
	addrs := []common.Address{}
	for i := 0; i < 4; i++ {
		addrs = append(addrs, common.BytesToAddress([]byte{byte(cidx + 1), byte(i + 1), 0x77}))
	}
	topics := []common.Hash{}
	for i := 0; i < 5; i++ {
		topics = append(topics, common.BytesToHash([]byte{byte(cidx + 1), byte(i + 1), 0x55}))
	}
	for _, a := range addrs[:2] {
		topics = append(topics, a.Hash())
	}
	// future contract addresses of the sender (real transactions log from these)
	nonce := uint64(0)
	busy := (wantSec + 2) * size // blocks below this carry most of the logs
	randTopics := func(self common.Address) []common.Hash {
		n := rng.Intn(5)
		ts := make([]common.Hash, 0, n)
		for i := 0; i < n; i++ {
			switch rng.Intn(8) {
			case 0:
				ts = append(ts, self.Hash()) // a topic equal to the emitting address
			case 1:
				if len(ts) > 0 {
					ts = append(ts, ts[len(ts)-1]) // the same topic at two positions
					break
				}
				fallthrough
			default:
				ts = append(ts, topics[rng.Intn(len(topics))])
			}
		}
		return ts
	}
	genesis := core.GenesisBlockForTesting(db, sender, new(big.Int).Lsh(big.NewInt(1), 100))
	chain, receipts := core.GenerateChain(context.TODO(), params.TestChainConfig, genesis, aquahash.NewFaker(), db, nblocks, func(i int, gen *core.BlockGen) {
		num := uint64(i + 1)
		p := 12 // percent of blocks with logs in the quiet tail
		if num < busy {
			p = 45
		}
		if realIndexer {
			p = 1
			if num+40 > wantSec*size && num < wantSec*size+40 || num%size < 20 || num%size > size-20 {
				p = 40
			}
		}
		boundary := num%size == 0 || num%size == size-1 || num == wantSec*size || num+1 == wantSec*size
		if !(rng.Intn(100) < p || (boundary && rng.Intn(2) == 0)) {
			return
		}
		idx := uint(0)
		real := rng.Intn(2) == 0 // log indices are block-wide: a block is all real transactions or all unchecked receipts
		for r := 1 + rng.Intn(3); r > 0; r-- {
			if real {
				// a real transaction: contract creation whose init code emits logs
				self := crypto.CreateAddress(sender, nonce)
				code := []byte{}
				nl := rng.Intn(3)
				for k := 0; k < nl; k++ {
					ts := randTopics(self)
					for j := len(ts) - 1; j >= 0; j-- {
						code = append(code, 0x7f)
						code = append(code, ts[j][:]...)
					}
					code = append(code, 0x60, byte(rng.Intn(3)), 0x60, 0x00, byte(0xa0+len(ts)))
				}
				code = append(code, 0x00)
				tx, err := types.SignTx(types.NewContractCreation(nonce, new(big.Int), 900000, big.NewInt(1), code), signer, key)
				if err != nil {
					t.Fatal(err)
				}
				nonce++
				gen.AddTx(tx)
				continue
			}
			receipt := types.NewReceipt(nil, false, 0)
			nl := rng.Intn(4)
			for k := 0; k < nl; k++ {
				a := addrs[rng.Intn(len(addrs))]
				receipt.Logs = append(receipt.Logs, &types.Log{Address: a, Topics: randTopics(a), Data: []byte{byte(k)}, BlockNumber: num, Index: idx})
				idx++
			}
			receipt.Bloom = types.CreateBloom(types.Receipts{receipt})
			gen.AddUncheckedReceipt(receipt)
		}
	})
	for i, block := range chain {
		core.WriteBlock(db, block)
		core.WriteCanonicalHash(db, block.Hash(), block.NumberU64())
		core.WriteHeadBlockHash(db, block.Hash())
		core.WriteHeadHeaderHash(db, block.Hash())
		if err := core.WriteBlockReceipts(db, block.Hash(), block.NumberU64(), receipts[i]); err != nil {
			t.Fatal(err)
		}
	}
	if realIndexer {
		// the real indexer builds the index
		indexer := aqua.NewBloomIndexer(params.TestChainConfig, db, size)
		indexer.Start(fChain{backend})
		deadline := time.Now().Add(120 * time.Second)
		for {
			s, _, _ := indexer.Sections()
			if s >= wantSec {
				if s != wantSec {
					t.Fatalf("indexer reports %d sections, %d expected", s, wantSec)
				}
				break
			}
			if time.Now().After(deadline) {
				t.Fatalf("indexer stuck at %d of %d sections", s, wantSec)
			}
			time.Sleep(20 * time.Millisecond)
		}
		indexer.Close()
	} else {
		// the index as the specification defines it: bit vector i of section s has bit j set iff header bloom of block
		// s*size+j has bit i set (most significant bit first), stored compressed under the section's last canonical hash
		for sec := uint64(0); sec < wantSec; sec++ {
			vecs := make([][]byte, types.BloomBitLength)
			for i := range vecs {
				vecs[i] = make([]byte, size/8)
			}
			for j := uint64(0); j < size; j++ {
				n := sec*size + j
				hdr := core.GetHeaderNoVersion(db, core.GetCanonicalHash(db, n), n)
				for _, p := range bloomPositions(hdr.Bloom) {
					vecs[p][j/8] |= 1 << (7 - j%8)
				}
			}
			head := core.GetCanonicalHash(db, (sec+1)*size-1)
			for i, v := range vecs {
				core.WriteBloomBits(db, uint(i), sec, head, bitutil.CompressBytes(v))
			}
		}
	}

	// record the canonical receipts as the database returns them
	type fBlock struct {
		Receipts [][]fLog `json:"receipts"`
		HBloom   []int    `json:"hbloom"`
		RBlooms  [][]int  `json:"rblooms"`
	}
	blocks := []fBlock{}
	items := map[string][]byte{}
	head := uint64(nblocks)
	canon := map[[2]uint64]*types.Log{} // (number, 1-based position) -> log
	for n := uint64(0); n <= head; n++ {
		hash := core.GetCanonicalHash(db, n)
		hdr := core.GetHeaderNoVersion(db, hash, n)
		rs := core.GetBlockReceipts(db, hash, n)
		fb := fBlock{Receipts: [][]fLog{}, HBloom: bloomPositions(hdr.Bloom), RBlooms: [][]int{}}
		k := uint64(0)
		for _, r := range rs {
			ls := []fLog{}
			for _, l := range r.Logs {
				k++
				canon[[2]uint64{n, k}] = l
				ls = append(ls, toFLog(l))
				items[fhex(l.Address[:])] = l.Address[:]
				for _, tp := range l.Topics {
					items[fhex(tp[:])] = append([]byte{}, tp[:]...)
				}
			}
			fb.Receipts = append(fb.Receipts, ls)
			fb.RBlooms = append(fb.RBlooms, bloomPositions(r.Bloom))
		}
		blocks = append(blocks, fb)
	}
	type fItem struct {
		Item string `json:"item"`
		Bits []int  `json:"bits"`
	}
	its := []fItem{}
	for h, raw := range items {
		its = append(its, fItem{h, indepBits(raw)})
	}
	w.emit(map[string]interface{}{"e": "chain", "chain": cidx, "size": size, "sections": wantSec, "realIndexer": realIndexer, "head": head, "blocks": blocks, "items": its})

	// queries
	api := filters.NewPublicFilterAPI(backend, false)
	usedAddrs := append([]common.Address{}, addrs...)
	for n := uint64(0); n < nonce && n < 6; n++ {
		usedAddrs = append(usedAddrs, crypto.CreateAddress(sender, uint64(rng.Intn(int(nonce)))))
	}
	usedAddrs = append(usedAddrs, common.BytesToAddress([]byte("nobody")))
	usedTopics := append([]common.Hash{}, topics...)
	usedTopics = append(usedTopics, common.BytesToHash([]byte("nothing")))
	for _, a := range usedAddrs[4:] {
		usedTopics = append(usedTopics, a.Hash())
	}
	indexed := int64(wantSec * size)
	pickBlock := func() int64 {
		switch rng.Intn(10) {
		case 0:
			return -1
		case 1:
			return indexed - 1
		case 2:
			return indexed
		case 3:
			return indexed + 1
		case 4:
			return int64(uint64(rng.Intn(int(wantSec)+1)) * size)
		case 5:
			return int64(head) + int64(rng.Intn(3)) - 1
		case 6:
			return 0
		default:
			return int64(rng.Intn(int(busy) + 8))
		}
	}
	nqueries := 0
	for q := 0; q < nq; q++ {
		var qa []common.Address
		for n := []int{0, 0, 1, 1, 2, 3}[rng.Intn(6)]; n > 0; n-- {
			qa = append(qa, usedAddrs[rng.Intn(len(usedAddrs))])
		}
		var qt [][]common.Hash
		for n := []int{0, 1, 1, 2, 2, 3, 4, 5}[rng.Intn(8)]; n > 0; n-- {
			var alt []common.Hash
			for m := []int{0, 1, 1, 2, 3}[rng.Intn(5)]; m > 0; m-- {
				alt = append(alt, usedTopics[rng.Intn(len(usedTopics))])
			}
			qt = append(qt, alt)
		}
		if rng.Intn(3) == 0 && len(qt) >= 2 {
			// positional alternatives of increasing length
			for p := range qt {
				alt := []common.Hash{}
				for m := 0; m <= p; m++ {
					alt = append(alt, usedTopics[rng.Intn(len(usedTopics))])
				}
				qt[p] = alt
			}
		}
		from, to := pickBlock(), pickBlock()
		if from > to && to != -1 && rng.Intn(4) != 0 {
			from, to = to, from
		}
		if rng.Intn(3) == 0 {
			from, to = 0, -1
		}
		for _, mode := range []string{"index", "partial", "scan"} {
			switch mode {
			case "index":
				backend.sections = wantSec
			case "partial":
				backend.sections = uint64(rng.Intn(int(wantSec) + 1))
			case "scan":
				backend.sections = 0
			}
			via := "filter"
			var (
				logs []*types.Log
				err  error
			)
			ctx, cancel := context.WithTimeout(context.Background(), 60*time.Second)
			jsonTopics := qt // the criteria the specification judges: a JSON null among alternatives makes the position a wildcard
			if r := rng.Intn(6); r == 0 || r == 1 {
				// the criteria arrive as JSON (as over RPC): single topics as strings, positions as null, alternatives as arrays
				// that may contain a null (= wildcard) anywhere
				via = "api-json"
				var tops []interface{}
				jsonTopics = [][]common.Hash{}
				for _, alt := range qt {
					switch {
					case len(alt) == 0:
						tops = append(tops, nil)
						jsonTopics = append(jsonTopics, []common.Hash{})
					case len(alt) == 1 && rng.Intn(2) == 0:
						tops = append(tops, alt[0].Hex())
						jsonTopics = append(jsonTopics, alt)
					default:
						arr := []interface{}{}
						for _, h := range alt {
							arr = append(arr, h.Hex())
						}
						if rng.Intn(3) == 0 {
							at := rng.Intn(len(arr) + 1)
							arr = append(arr[:at], append([]interface{}{nil}, arr[at:]...)...)
							jsonTopics = append(jsonTopics, []common.Hash{})
						} else {
							jsonTopics = append(jsonTopics, alt)
						}
						tops = append(tops, arr)
					}
				}
				doc := map[string]interface{}{"topics": tops}
				if len(qa) == 1 && rng.Intn(2) == 0 {
					doc["address"] = qa[0].Hex()
				} else if len(qa) > 0 {
					as := []string{}
					for _, a := range qa {
						as = append(as, a.Hex())
					}
					doc["address"] = as
				}
				if from != -1 {
					doc["fromBlock"] = fmt.Sprintf("0x%x", from)
				}
				if to != -1 {
					doc["toBlock"] = fmt.Sprintf("0x%x", to)
				} else if rng.Intn(2) == 0 {
					doc["toBlock"] = "latest"
				}
				raw, _ := json.Marshal(doc)
				var crit filters.FilterCriteria
				if err = json.Unmarshal(raw, &crit); err == nil {
					logs, err = api.GetLogs(ctx, crit)
				}
			} else if r == 2 {
				via = "api"
				crit := filters.FilterCriteria{Addresses: qa, Topics: qt}
				if from != -1 {
					crit.FromBlock = big.NewInt(from)
				}
				if to != -1 {
					crit.ToBlock = big.NewInt(to)
				}
				logs, err = api.GetLogs(ctx, crit)
			} else {
				logs, err = filters.New(backend, from, to, qa, qt).Logs(ctx)
			}
			cancel()
			type fRes struct {
				N     uint64 `json:"n"`
				K     uint64 `json:"k"`
				Log   fLog   `json:"log"`
				Canon bool   `json:"canon"` // the very log the database holds at (n, k)
			}
			res := []fRes{}
			for _, l := range logs {
				r := fRes{N: l.BlockNumber, K: uint64(l.Index) + 1, Log: toFLog(l)}
				if cl := canon[[2]uint64{r.N, r.K}]; cl != nil {
					r.Canon = fhex(cl.Data) == fhex(l.Data) && cl.TxHash == l.TxHash && cl.BlockHash == l.BlockHash && cl.TxIndex == l.TxIndex
				}
				res = append(res, r)
			}
			qas := []string{}
			for _, a := range qa {
				qas = append(qas, fhex(a[:]))
			}
			qts := [][]string{}
			for _, alt := range jsonTopics {
				s := []string{}
				for _, tp := range alt {
					s = append(s, fhex(tp[:]))
				}
				qts = append(qts, s)
			}
			errs := ""
			if err != nil {
				errs = err.Error()
			}
			w.emit(map[string]interface{}{"e": "query", "chain": cidx, "mode": mode, "via": via, "reported": backend.sections, "from": from, "to": to,
				"addrs": qas, "topics": qts, "result": res, "err": errs})
			nqueries++
		}
	}
	return nqueries
}
