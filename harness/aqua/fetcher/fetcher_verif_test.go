//go:build verif

package fetcher

// Fetcher bookkeeping driver: a real Fetcher (the repository's fetcherTester stands in for chain and peers) is fed announcement
// and block sequences from honest, silent and repeating peers.  At the top of every iteration of the fetcher's loop (step point,
// build tag verif) the bookkeeping is read on the loop's own goroutine: per peer the announce counter, the number of distinct
// announcement objects the four maps still hold, the queue counter and the number of queued blocks.  A snapshot is recorded
// whenever it changes; FetcherTrace.tla judges (counter = what is remembered <= the limits; nothing left at rest).
// Announcements carry a time stamp, so "the fetch is due" and "the fetch timed out" are set by the driver, not waited for.

import (
	"bufio"
	"encoding/json"
	"fmt"
	"math/rand"
	"os"
	"sort"
	"strconv"
	"sync"
	"testing"
	"time"

	"gitlab.com/aquachain/aquachain/common"
	"gitlab.com/aquachain/aquachain/common/log"
	"gitlab.com/aquachain/aquachain/core/types"
)

type fvRec struct {
	mu   sync.Mutex
	w    *bufio.Writer
	n    int
	scen string
	last string
}

func (r *fvRec) emit(e map[string]interface{}) {
	b, err := json.Marshal(e)
	if err != nil {
		panic(err)
	}
	r.mu.Lock()
	r.w.Write(b)
	r.w.WriteByte('\n')
	r.n++
	r.mu.Unlock()
}

type fvPeer struct {
	Peer   string `json:"peer"`
	Count  int    `json:"count"`
	Live   int    `json:"live"`
	Queue  int    `json:"queue"`
	QLive  int    `json:"qlive"`
	Stages [4]int `json:"stages"`
}

// read on the loop goroutine
func fvSnapshot(f *Fetcher) []fvPeer {
	live := map[string]map[*announce]bool{}
	stages := map[string]*[4]int{}
	add := func(a *announce, stage int) {
		if live[a.origin] == nil {
			live[a.origin] = map[*announce]bool{}
			stages[a.origin] = &[4]int{}
		}
		live[a.origin][a] = true
		stages[a.origin][stage]++
	}
	for _, as := range f.announced {
		for _, a := range as {
			add(a, 0)
		}
	}
	for _, a := range f.fetching {
		add(a, 1)
	}
	for _, as := range f.fetched {
		for _, a := range as {
			add(a, 2)
		}
	}
	for _, a := range f.completing {
		add(a, 3)
	}
	qlive := map[string]int{}
	for _, op := range f.queued {
		qlive[op.origin]++
	}
	peers := map[string]bool{}
	for p := range f.announces {
		peers[p] = true
	}
	for p := range live {
		peers[p] = true
	}
	for p := range f.queues {
		peers[p] = true
	}
	for p := range qlive {
		peers[p] = true
	}
	out := []fvPeer{}
	for p := range peers {
		e := fvPeer{Peer: p, Count: f.announces[p], Live: len(live[p]), Queue: f.queues[p], QLive: qlive[p]}
		if s := stages[p]; s != nil {
			e.Stages = *s
		}
		out = append(out, e)
	}
	sort.Slice(out, func(i, j int) bool { return out[i].Peer < out[j].Peer })
	return out
}

func (r *fvRec) hook(f *Fetcher) {
	snap := fvSnapshot(f)
	b, _ := json.Marshal(snap)
	if string(b) == r.last {
		return
	}
	r.last = string(b)
	r.emit(map[string]interface{}{"e": "snap", "scen": r.scen, "peers": snap, "rest": false, "clean": false})
}

// wait until the fetcher's maps are empty (or the watchdog expires) and record what is left, counters included
// (completing entries whose bodies never come and queued blocks whose parent never comes have no time-out of their own: in a
// scenario that is not "clean" only the timed stages are waited for)
func (r *fvRec) rest(t *fetcherTester, clean bool) {
	deadline := time.Now().Add(3 * time.Minute)
	var snap []fvPeer
	for {
		got := make(chan []fvPeer, 1)
		prev := verifStepHook
		var once sync.Once
		verifStepHook = func(f *Fetcher) {
			prev(f)
			once.Do(func() { got <- fvSnapshot(f) })
		}
		// make the loop take a step
		select {
		case t.fetcher.done <- common.Hash{0xde, 0xad}:
		case <-time.After(time.Minute):
		}
		select {
		case t.fetcher.done <- common.Hash{0xde, 0xad}:
		case <-time.After(time.Minute):
		}
		select {
		case snap = <-got:
		case <-time.After(time.Minute):
		}
		verifStepHook = prev
		empty := true
		for _, p := range snap {
			if p.Stages[0] != 0 || p.Stages[1] != 0 || p.Stages[2] != 0 || (clean && (p.Live != 0 || p.QLive != 0)) { // else whatever the counters say now is final
				empty = false
			}
		}
		if empty || time.Now().After(deadline) {
			break
		}
		time.Sleep(100 * time.Millisecond)
	}
	if snap == nil {
		snap = []fvPeer{}
	}
	r.emit(map[string]interface{}{"e": "snap", "scen": r.scen, "peers": snap, "rest": true, "clean": clean})
}

func TestVerifFetcher(t *testing.T) {
	log.Root().SetHandler(log.DiscardHandler())
	seed, _ := strconv.ParseInt(os.Getenv("VERIF_SEED"), 10, 64)
	thorough := os.Getenv("VERIF_TIER") == "thorough"
	out := os.Getenv("VERIF_OUT")
	if out == "" {
		out = os.DevNull
	}
	fh, err := os.Create(out)
	if err != nil {
		t.Fatal(err)
	}
	defer fh.Close()
	rec := &fvRec{w: bufio.NewWriterSize(fh, 1<<20)}
	defer rec.w.Flush()
	rng := rand.New(rand.NewSource(seed))

	due := func() time.Time { return time.Now().Add(-arriveTimeout) }                                 // the fetch is due at once
	expiring := func() time.Time { return time.Now().Add(-fetchTimeout + 300*time.Millisecond) }      // due at once, times out 300 ms later
	scenario := func(name string, clean bool, body func(ft *fetcherTester)) {
		rec.scen, rec.last = name, ""
		rec.emit(map[string]interface{}{"e": "scenario", "scen": name, "peers": []fvPeer{}, "rest": false, "clean": false})
		verifStepHook = rec.hook
		ft := newTester()
		body(ft)
		rec.rest(ft, clean)
		ft.fetcher.Stop()
		verifStepHook = nil
	}
	waitImportedFor := func(ft *fetcherTester, n int, limit time.Duration) bool {
		deadline := time.Now().Add(limit)
		for time.Now().Before(deadline) {
			ft.lock.RLock()
			have := len(ft.hashes) - 1
			ft.lock.RUnlock()
			if have >= n {
				return true
			}
			time.Sleep(5 * time.Millisecond)
		}
		return false
	}
	waitImported := func(ft *fetcherTester, n int) { waitImportedFor(ft, n, 3*time.Minute) }
	settle := func(d time.Duration) { time.Sleep(d) }

	// 1. an honest peer announces a chain block by block: fetched, completed, imported; nothing is left
	for _, n := range []int{6, 24} {
		n := n
		scenario(fmt.Sprintf("honest-%d", n), true, func(ft *fetcherTester) {
			hashes, blocks := makeChain(n, 0, genesis)
			hf, bf := ft.makeHeaderFetcher("valid", blocks, -gatherSlack), ft.makeBodyFetcher("valid", blocks, 0)
			for i := len(hashes) - 2; i >= 0; i-- {
				ft.fetcher.Notify("valid", hashes[i], uint64(len(hashes)-i-1), due(), hf, bf)
				waitImported(ft, len(hashes)-1-i)
			}
		})
	}
	// 2. the same chain announced by three peers at once, in bursts
	scenario("three-announcers", true, func(ft *fetcherTester) {
		hashes, blocks := makeChain(12, 0, genesis)
		for i := len(hashes) - 2; i >= 0; i-- {
			for _, p := range []string{"a", "b", "c"} {
				ft.fetcher.Notify(p, hashes[i], uint64(len(hashes)-i-1), due(), ft.makeHeaderFetcher(p, blocks, -gatherSlack), ft.makeBodyFetcher(p, blocks, 0))
			}
			if i%3 == 0 {
				waitImported(ft, len(hashes)-1-i)
			}
		}
		waitImported(ft, len(hashes)-1)
	})
	// 3. a silent peer: announces, is asked for the headers, never answers; after the time-out it announces again, and again
	for _, n := range []int{3, 40} {
		n := n
		scenario(fmt.Sprintf("silent-%d", n), true, func(ft *fetcherTester) {
			hf, bf := ft.makeHeaderFetcher("silent", nil, -gatherSlack), ft.makeBodyFetcher("silent", nil, 0)
			for round := 0; round < 3; round++ {
				junk, _ := makeChain(n, byte(10+round), unknownBlock)
				for _, h := range junk[:n] {
					ft.fetcher.Notify("silent", h, 1, expiring(), hf, bf)
				}
				settle(900 * time.Millisecond)
			}
			// and now as many as the limit allows, and more
			junk, _ := makeChain(hashLimit+2*n+8, 99, unknownBlock)
			for _, h := range junk[:hashLimit+2*n+8] {
				ft.fetcher.Notify("silent", h, 1, time.Now(), hf, bf)
			}
			settle(200 * time.Millisecond)
		})
	}
	// 4. a peer that delivers headers but never bodies
	scenario("headers-only", false, func(ft *fetcherTester) {
		hashes, blocks := makeChain(9, 0, genesis)
		hf, bf := ft.makeHeaderFetcher("hdr", blocks, -gatherSlack), ft.makeBodyFetcher("hdr", nil, 0)
		for round := 0; round < 2; round++ {
			for i := len(hashes) - 2; i >= 0; i-- {
				ft.fetcher.Notify("hdr", hashes[i], uint64(len(hashes)-i-1), expiring(), hf, bf)
			}
			settle(1200 * time.Millisecond)
		}
	})
	// 5. a peer that repeats every announcement
	scenario("repeater", true, func(ft *fetcherTester) {
		hashes, blocks := makeChain(8, 0, genesis)
		hf, bf := ft.makeHeaderFetcher("rep", blocks, -gatherSlack), ft.makeBodyFetcher("rep", blocks, 0)
		for i := len(hashes) - 2; i >= 0; i-- {
			for k := 0; k < 3; k++ {
				ft.fetcher.Notify("rep", hashes[i], uint64(len(hashes)-i-1), due(), hf, bf)
			}
			waitImported(ft, len(hashes)-1-i)
		}
	})
	// 6. propagated blocks beyond the per-peer allowance, then the chain that makes them importable
	scenario("propagation-flood", false, func(ft *fetcherTester) {
		hashes, blocks := makeChain(blockLimit+20, 0, genesis)
		for i := 0; i < len(hashes)-2; i++ { // newest first: nothing can be imported yet
			ft.fetcher.Enqueue("flood", blocks[hashes[i]])
		}
		settle(100 * time.Millisecond)
		ft.fetcher.Enqueue("other", blocks[hashes[len(hashes)-2]])
		settle(500 * time.Millisecond)
	})
	// 7. seeded mixtures of all of the above
	mixes := 3
	if thorough {
		mixes = 20
	}
	for m := 0; m < mixes; m++ {
		scenario(fmt.Sprintf("mix-%d", m), false, func(ft *fetcherTester) {
			hashes, blocks := makeChain(10+rng.Intn(20), 0, genesis)
			junk, _ := makeChain(30, byte(50+m), unknownBlock)
			peers := []string{"p0", "p1", "p2"}
			hfs, bfs := map[string]headerRequesterFn{}, map[string]bodyRequesterFn{}
			for i, p := range peers {
				var hb, bb map[common.Hash]*types.Block
				if i != 1 { // p1 never answers
					hb = blocks
				}
				if i == 0 { // only p0 delivers bodies
					bb = blocks
				}
				hfs[p], bfs[p] = ft.makeHeaderFetcher(p, hb, -gatherSlack), ft.makeBodyFetcher(p, bb, 0)
			}
			next := len(hashes) - 2
			for step := 0; step < 60; step++ {
				p := peers[rng.Intn(len(peers))]
				switch rng.Intn(6) {
				case 0, 1:
					if next >= 0 {
						ft.fetcher.Notify(p, hashes[next], uint64(len(hashes)-next-1), due(), hfs[p], bfs[p])
						if p == "p0" && waitImportedFor(ft, len(hashes)-1-next, time.Second) { // else another peer was asked and keeps silent
							next--
						}
					}
				case 2:
					ft.fetcher.Notify(p, junk[rng.Intn(len(junk)-1)], 1, expiring(), hfs[p], bfs[p])
				case 3:
					if next >= 0 {
						ft.fetcher.Enqueue(p, blocks[hashes[rng.Intn(next+1)]])
					}
				case 4:
					settle(time.Duration(rng.Intn(400)) * time.Millisecond)
				case 5:
					if next >= 0 {
						ft.fetcher.Notify(p, hashes[next], uint64(len(hashes)-next-1), expiring(), hfs[p], bfs[p])
					}
				}
			}
		})
	}
	fmt.Printf("VERIF-STAT events=%d\n", rec.n)
}
