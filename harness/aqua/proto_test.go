//go:build verif

package aqua

// C17 driver (sub-protocol): a real ProtocolManager on a 16-block chain; for every message code a freshly handshaken
// peer sends one message - well-formed, empty, truncated, byte-flipped, malformed RLP, oversized, unknown code, or
// well-formed with hostile parameters (2^64-1 headers, 100 000 hashes) - followed by a harmless sentinel request.
// The message pipe is synchronous, so "the sentinel was consumed" means the hostile message was handled and the peer
// kept, and "handle returned" means the peer was dropped; no verdict depends on a timeout (a 10 min watchdog reports a
// wedge).  Replies are drained and measured.  ProtoTrace.tla judges.

import (
	"bufio"
	"bytes"
	"encoding/json"
	"fmt"
	"io"
	"math/big"
	"math/rand"
	"os"
	"runtime"
	"strconv"
	"sync"
	"testing"
	"time"

	"gitlab.com/aquachain/aquachain/aqua/downloader"
	"gitlab.com/aquachain/aquachain/common"
	"gitlab.com/aquachain/aquachain/common/log"
	"gitlab.com/aquachain/aquachain/core/types"
	"gitlab.com/aquachain/aquachain/p2p"
	"gitlab.com/aquachain/aquachain/p2p/discover"
	"gitlab.com/aquachain/aquachain/rlp"
)

type zeroReader struct{}

func (zeroReader) Read(p []byte) (int, error) {
	for i := range p {
		p[i] = 0
	}
	return len(p), nil
}

type protoCase struct {
	code   uint64
	class  string // valid | hostile-params | empty | trunc | flip | bad-rlp | oversize | unknown-code | status
	expect string // keep | drop | either
	body   []byte
	size   uint32 // announced size if different from len(body)
}

func runProtoCase(pm *ProtocolManager, c protoCase, idx int, emit func(interface{})) {
	app, net := p2p.MsgPipe()
	var id discover.NodeID
	rand.Read(id[:])
	peer := pm.newPeer(aqua65, p2p.NewPeer(id, fmt.Sprintf("verif-%d", idx), nil), net)
	type res struct {
		err   error
		panic string
	}
	errc := make(chan res, 1)
	go func() {
		var r res
		defer func() {
			if p := recover(); p != nil {
				r.panic = fmt.Sprint(p)
			}
			errc <- r
		}()
		select {
		case pm.newPeerCh <- peer:
			r.err = pm.handle(peer)
		case <-pm.quitSync:
			r.err = p2p.DiscQuitting
		}
	}()
	// handshake
	var (
		genesis = pm.blockchain.Genesis()
		head    = pm.blockchain.CurrentHeader()
		td      = pm.blockchain.GetTd(head.Hash(), head.Number.Uint64())
	)
	status := &statusData{ProtocolVersion: uint32(aqua65), ChainId: DefaultConfig.ChainId, TD: td, CurrentBlock: head.Hash(), GenesisBlock: genesis.Hash()}
	if err := p2p.ExpectMsg(app, StatusMsg, status); err != nil {
		panic("status recv: " + err.Error())
	}
	if err := p2p.Send(app, StatusMsg, status); err != nil {
		panic("status send: " + err.Error())
	}
	// drain replies
	var (
		mu         sync.Mutex
		replies    int
		replyBytes int
		replyMax   int
	)
	go func() {
		for {
			msg, err := app.ReadMsg()
			if err != nil {
				return
			}
			n, _ := io.Copy(io.Discard, msg.Payload)
			mu.Lock()
			replies++
			replyBytes += int(n)
			if int(n) > replyMax {
				replyMax = int(n)
			}
			mu.Unlock()
		}
	}()
	var ms1, ms2 runtime.MemStats
	runtime.ReadMemStats(&ms1)
	start := time.Now()
	size := c.size
	var payload io.Reader = bytes.NewReader(c.body)
	if size == 0 {
		size = uint32(len(c.body))
	} else {
		payload = io.LimitReader(zeroReader{}, int64(size))
	}
	sent := make(chan struct{})
	go func() {
		app.WriteMsg(p2p.Msg{Code: c.code, Size: size, Payload: payload})
		// sentinel: an empty receipts request; consumed only if the peer is still being served
		if p2p.Send(app, GetReceiptsMsg, []common.Hash{}) == nil {
			close(sent)
		}
	}()
	outcome, errs, pn := "", "", ""
	select {
	case r := <-errc:
		outcome = "dropped"
		if r.err != nil {
			errs = r.err.Error()
		}
		if r.panic != "" {
			outcome, pn = "panic", r.panic
		}
	case <-sent:
		outcome = "kept"
	case <-time.After(10 * time.Minute):
		outcome = "wedge"
	}
	el := time.Since(start)
	runtime.ReadMemStats(&ms2)
	app.Close()
	if outcome == "kept" {
		<-errc
	}
	mu.Lock()
	defer mu.Unlock()
	if len(errs) > 100 {
		errs = errs[:100]
	}
	emit(map[string]interface{}{"e": "proto", "code": c.code, "class": c.class, "expect": c.expect, "size": size, "outcome": outcome, "err": errs, "panic": pn,
		"replies": replies, "replyBytes": replyBytes, "replyMax": replyMax, "alloc": ms2.TotalAlloc - ms1.TotalAlloc, "ms": el.Milliseconds()})
}

func TestVerifProto(t *testing.T) {
	log.Root().SetHandler(log.DiscardHandler())
	seed, _ := strconv.ParseInt(os.Getenv("VERIF_SEED"), 10, 64)
	thorough := os.Getenv("VERIF_TIER") == "thorough"
	out := os.Getenv("VERIF_OUT")
	if out == "" {
		out = os.DevNull
	}
	f, err := os.Create(out)
	if err != nil {
		t.Fatal(err)
	}
	defer f.Close()
	w := bufio.NewWriterSize(f, 1<<20)
	defer w.Flush()
	nev := 0
	emit := func(e interface{}) {
		b, err := json.Marshal(e)
		if err != nil {
			panic(err)
		}
		w.Write(b)
		w.WriteByte('\n')
		nev++
	}
	rng := rand.New(rand.NewSource(seed))
	pm, _ := newTestProtocolManagerMust(t, downloader.FullSync, 16, nil, nil)
	defer pm.Stop()
	enc := func(v interface{}) []byte {
		b, err := rlp.EncodeToBytes(v)
		if err != nil {
			panic(err)
		}
		return b
	}
	bc := pm.blockchain
	blk := bc.GetBlockByNumber(7)
	hashes := func(n int, known bool) []common.Hash {
		hs := make([]common.Hash, n)
		for i := range hs {
			if known {
				hs[i] = bc.GetBlockByNumber(uint64(i % 17)).Hash()
			} else {
				rng.Read(hs[i][:])
			}
		}
		return hs
	}
	tx := newTestTransaction(testBankKey, 0, 10)
	valid := map[uint64][]byte{
		NewBlockHashesMsg:  enc(newBlockHashesData{{Hash: common.Hash{1}, Number: 100}}),
		TxMsg:              enc([]*types.Transaction{tx}),
		GetBlockHeadersMsg: enc(&getBlockHeadersData{Origin: hashOrNumber{Number: 3}, Amount: 5, Skip: 1}),
		BlockHeadersMsg:    enc([]*types.Header{blk.Header()}),
		GetBlockBodiesMsg:  enc(hashes(3, true)),
		BlockBodiesMsg:     enc(blockBodiesData{{Transactions: nil, Uncles: nil}}),
		NewBlockMsg:        enc(&newBlockData{Block: blk, TD: big.NewInt(1)}),
		GetNodeDataMsg:     enc(hashes(3, false)),
		NodeDataMsg:        enc([][]byte{{1, 2, 3}}),
		GetReceiptsMsg:     enc(hashes(3, true)),
		ReceiptsMsg:        enc([][]*types.Receipt{{}}),
	}
	max64 := ^uint64(0)
	cases := []protoCase{}
	add := func(c protoCase) { cases = append(cases, c) }
	for code, body := range valid {
		add(protoCase{code: code, class: "valid", expect: "keep", body: body})
		add(protoCase{code: code, class: "oversize", expect: "drop", size: ProtocolMaxMsgSize + 1})
		if code != TxMsg { // transactions are skipped without decoding while the node is not accepting them
			add(protoCase{code: code, class: "empty", expect: "drop", body: []byte{}})
			for _, bad := range [][]byte{{0xc1}, {0xf8}, {0xbf, 0xff, 0xff, 0xff, 0xff, 0xff, 0xff, 0xff, 0xff}, {0xfb, 0xff, 0xff, 0xff, 0xff}, {0x81, 0x01}, {0xc2, 0x81, 0x01}} {
				add(protoCase{code: code, class: "bad-rlp", expect: "drop", body: bad})
			}
		}
		step := 7
		if thorough {
			step = 1
		}
		for k := rng.Intn(step); k < len(body); k += step {
			add(protoCase{code: code, class: "trunc", expect: "either", body: body[:k]})
			m := append([]byte{}, body...)
			m[k] ^= byte(1 << uint(rng.Intn(8)))
			add(protoCase{code: code, class: "flip", expect: "either", body: m})
		}
		for i := 0; i < 6; i++ {
			b := make([]byte, rng.Intn(80))
			rng.Read(b)
			add(protoCase{code: code, class: "random", expect: "either", body: b})
		}
	}
	add(protoCase{code: StatusMsg, class: "status", expect: "drop", body: enc(&statusData{})})
	for _, code := range []uint64{8, 9, 0x0c, 0x11, 0x20, 1 << 40, max64} {
		add(protoCase{code: code, class: "unknown-code", expect: "drop", body: []byte{0xc0}})
	}
	// well-formed requests with hostile parameters: served within the protocol's limits
	h5 := bc.GetBlockByNumber(5).Hash()
	for _, q := range []*getBlockHeadersData{
		{Origin: hashOrNumber{Number: 0}, Amount: max64},
		{Origin: hashOrNumber{Number: 0}, Amount: max64, Skip: max64},
		{Origin: hashOrNumber{Number: 16}, Amount: max64, Skip: max64, Reverse: true},
		{Origin: hashOrNumber{Number: max64}, Amount: max64, Skip: 1},
		{Origin: hashOrNumber{Hash: h5}, Amount: max64, Skip: max64},
		{Origin: hashOrNumber{Hash: h5}, Amount: max64, Skip: max64 - 1},
		{Origin: hashOrNumber{Hash: h5}, Amount: max64, Skip: max64, Reverse: true},
		{Origin: hashOrNumber{Hash: h5}, Amount: max64, Skip: 3, Reverse: true},
		{Origin: hashOrNumber{Hash: common.Hash{9}}, Amount: max64},
	} {
		add(protoCase{code: GetBlockHeadersMsg, class: "hostile-params", expect: "keep", body: enc(q)})
	}
	big := 100000
	for _, code := range []uint64{GetBlockBodiesMsg, GetNodeDataMsg, GetReceiptsMsg} {
		add(protoCase{code: code, class: "hostile-params", expect: "keep", body: enc(hashes(big, true))})
		add(protoCase{code: code, class: "hostile-params", expect: "keep", body: enc(hashes(big, false))})
	}
	hd := make([]*types.Header, 5000)
	for i := range hd {
		hd[i] = blk.Header()
	}
	add(protoCase{code: BlockHeadersMsg, class: "hostile-params", expect: "keep", body: enc(hd)})
	add(protoCase{code: NodeDataMsg, class: "hostile-params", expect: "keep", body: enc([][]byte{make([]byte, 5<<20)})})
	add(protoCase{code: NewBlockHashesMsg, class: "hostile-params", expect: "keep", body: enc(func() newBlockHashesData {
		d := make(newBlockHashesData, 20000)
		for i := range d {
			rng.Read(d[i].Hash[:])
			d[i].Number = uint64(i)
		}
		return d
	}())})
	for i, c := range cases {
		runProtoCase(pm, c, i, emit)
	}
	fmt.Printf("VERIF-STAT events=%d\n", nev)
}
