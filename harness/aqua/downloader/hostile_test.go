//go:build verif

package downloader

// C17 driver (sync replies): a peer that advertises a heavier chain makes the node start a sync cycle; the node's first request
// of every cycle is for the peer's head header.  The peer answers it with an empty BlockHeaders message, with a header
// that is not the advertised head, or honestly; aqua/handler.go passes such lists straight to
// Downloader.DeliverHeaders, which is what the repository's test peer does.  Recorded: how the cycle ended (error text, panic,
// or no return within the watchdog).  DownloadTrace.tla judges: a hostile reply ends the cycle with an error, never a crash.

import (
	"bufio"
	"encoding/json"
	"fmt"
	"math/big"
	"os"
	"testing"
	"time"

	"gitlab.com/aquachain/aquachain/common"
	"gitlab.com/aquachain/aquachain/common/log"
	"gitlab.com/aquachain/aquachain/core/types"
)

func TestVerifDownloadHostile(t *testing.T) {
	log.Root().SetHandler(log.DiscardHandler())
	out := os.Getenv("VERIF_OUT")
	if out == "" {
		out = os.DevNull
	}
	f, err := os.Create(out)
	if err != nil {
		t.Fatal(err)
	}
	defer f.Close()
	w := bufio.NewWriterSize(f, 1<<20)
	defer w.Flush()
	nev := 0
	emit := func(e interface{}) {
		b, err := json.Marshal(e)
		if err != nil {
			panic(err)
		}
		w.Write(b)
		w.WriteByte('\n')
		w.Flush()
		nev++
	}
	for _, pm := range []struct {
		protocol int
		mode     SyncMode
	}{{64, FullSync}, {64, FastSync}, {65, FullSync}, {65, FastSync}} {
		for _, reply := range []string{"honest", "empty", "other"} {
			tester := newTester()
			hashes, headers, blocks, receipts := tester.makeChain(8, 0, tester.genesis, nil, false)
			head := hashes[0]
			switch reply {
			case "empty": // no header for the advertised head: the reply carries zero headers
				delete(headers, head)
			case "other": // the header of a different block under the head's hash
				hd := map[common.Hash]*types.Header{}
				for k, v := range headers {
					hd[k] = v
				}
				hd[head] = headers[hashes[3]]
				headers = hd
			}
			if err := tester.newPeer("peer", pm.protocol, hashes, headers, blocks, receipts); err != nil {
				t.Fatal(err)
			}
			type outcome struct {
				err      error
				panicked string
			}
			done := make(chan outcome, 1)
			go func() {
				var o outcome
				defer func() {
					if r := recover(); r != nil {
						o.panicked = fmt.Sprint(r)
					}
					done <- o
				}()
				o.err = tester.downloader.synchronise("peer", head, big.NewInt(1000000), pm.mode)
			}()
			ev := map[string]interface{}{"e": "sync", "protocol": pm.protocol, "mode": pm.mode.String(), "reply": reply, "err": "", "panic": "", "back": true}
			select {
			case o := <-done:
				if o.err != nil {
					ev["err"] = o.err.Error()
				}
				ev["panic"] = o.panicked
			case <-time.After(3 * time.Minute):
				ev["back"] = false
			}
			emit(ev)
			tester.terminate()
		}
	}
	fmt.Printf("VERIF-STAT events=%d\n", nev)
}
