//go:build verif

package core

// C04 driver (large commits): a block that creates 1500 accounts makes the trie database flush the state commit in several
// batches (aquadb.IdealBatchSize).  For every flush k of the import - in archive and in pruning mode, where the flushes happen at
// Stop - flush k is made to fail once.  Recorded: what the import reported and where the head stayed, whether the next import of
// the same block and Stop come back at all (3 min watchdog: "a disk write that fails is never followed by a deadlock"), and what
// the reopened database shows.  BigCommitTrace.tla judges.

import (
	"bufio"
	"context"
	"encoding/json"
	"errors"
	"fmt"
	"math/big"
	"os"
	"sync"
	"testing"
	"time"

	"gitlab.com/aquachain/aquachain/aquadb"
	"gitlab.com/aquachain/aquachain/common"
	"gitlab.com/aquachain/aquachain/common/log"
	"gitlab.com/aquachain/aquachain/consensus/aquahash"
	"gitlab.com/aquachain/aquachain/core/types"
	"gitlab.com/aquachain/aquachain/core/vm"
	"gitlab.com/aquachain/aquachain/crypto"
	"gitlab.com/aquachain/aquachain/params"
)

type bcFlakyDB struct {
	aquadb.Database
	mu      sync.Mutex
	failAt  int // the flush with this number (1-based, counted from arming) fails; 0 = none
	flushes int
	failed  int
}

var errBcDisk = errors.New("verif: injected batch write failure")

func (db *bcFlakyDB) NewBatch() aquadb.Batch { return &bcFlakyBatch{Batch: db.Database.NewBatch(), db: db} }

type bcFlakyBatch struct {
	aquadb.Batch
	db *bcFlakyDB
}

func (b *bcFlakyBatch) Write() error {
	b.db.mu.Lock()
	b.db.flushes++
	if b.db.failAt != 0 && b.db.flushes == b.db.failAt {
		b.db.failed++
		b.db.mu.Unlock()
		return errBcDisk
	}
	b.db.mu.Unlock()
	return b.Batch.Write()
}

func TestVerifBigCommit(t *testing.T) {
	log.Root().SetHandler(log.DiscardHandler())
	out := os.Getenv("VERIF_OUT")
	if out == "" {
		out = os.DevNull
	}
	f, err := os.Create(out)
	if err != nil {
		t.Fatal(err)
	}
	defer f.Close()
	w := bufio.NewWriterSize(f, 1<<20)
	defer w.Flush()
	nev := 0
	emit := func(e interface{}) {
		b, err := json.Marshal(e)
		if err != nil {
			panic(err)
		}
		w.Write(b)
		w.WriteByte('\n')
		w.Flush()
		nev++
	}
	const transfers = 1500
	var (
		gendb   = aquadb.NewMemDatabase()
		key, _  = crypto.HexToBtcec("b71c71a67e1177ad4e901695e1b4b9ee17ae16c6668d313eac2f96dbcda3f291")
		address = crypto.PubkeyToAddress(key.PubKey())
		gspec   = &Genesis{Config: params.TestChainConfig, GasLimit: 100000000,
			Alloc: GenesisAlloc{address: {Balance: new(big.Int).Mul(big.NewInt(1000000000), big.NewInt(1000000000))}}}
		genesis = gspec.MustCommit(gendb)
		signer  = types.NewEIP155Signer(gspec.Config.ChainId)
	)
	recipient := func(j int) common.Address { return common.BigToAddress(big.NewInt(int64(0x100000 + j))) }
	blocks, _ := GenerateChain(context.TODO(), gspec.Config, genesis, aquahash.NewFaker(), gendb, 2, func(i int, block *BlockGen) {
		block.SetCoinbase(common.Address{0x01})
		if i == 0 {
			for j := 0; j < transfers; j++ {
				tx, err := types.SignTx(types.NewTransaction(block.TxNonce(address), recipient(j), big.NewInt(1000), params.TxGas, nil, nil), signer, key)
				if err != nil {
					panic(err)
				}
				block.AddTx(tx)
			}
		}
	})
	idOf := func(b *types.Block) string {
		switch {
		case b == nil:
			return "-"
		case b.Hash() == genesis.Hash():
			return "g"
		case b.Hash() == blocks[0].Hash():
			return "b1"
		case b.Hash() == blocks[1].Hash():
			return "b2"
		}
		return "?"
	}
	timed := func(f func()) bool { // false = did not come back
		done := make(chan struct{})
		go func() { f(); close(done) }()
		select {
		case <-done:
			return true
		case <-time.After(3 * time.Minute):
			return false
		}
	}
	for _, mode := range []string{"archive", "pruning"} {
		cfg := &CacheConfig{Disabled: mode == "archive", TrieNodeLimit: 256 * 1024 * 1024, TrieTimeLimit: time.Hour}
		// a clean run counts the flushes of import and of Stop
		count := func() (int, int) {
			db := &bcFlakyDB{Database: aquadb.NewMemDatabase()}
			gspec.MustCommit(db)
			bc, err := NewBlockChain(context.TODO(), db, cfg, gspec.Config, aquahash.NewFaker(), vm.Config{})
			if err != nil {
				panic(err)
			}
			db.flushes = 0
			if _, err := bc.InsertChain(blocks); err != nil {
				panic(err)
			}
			a := db.flushes
			bc.Stop()
			return a, db.flushes
		}
		nImport, nAll := count()
		emit(map[string]interface{}{"e": "bigclean", "mode": mode, "flushesImport": nImport, "flushesAll": nAll})
		for k := 1; k <= nAll; k++ {
			db := &bcFlakyDB{Database: aquadb.NewMemDatabase()}
			gspec.MustCommit(db)
			bc, err := NewBlockChain(context.TODO(), db, cfg, gspec.Config, aquahash.NewFaker(), vm.Config{})
			if err != nil {
				panic(err)
			}
			db.mu.Lock()
			db.flushes, db.failAt = 0, k
			db.mu.Unlock()
			ev := map[string]interface{}{"e": "bigfail", "mode": mode, "k": k, "duringImport": k <= nImport}
			var err1 error
			back := timed(func() { _, err1 = bc.InsertChain(blocks) })
			ev["firstBack"], ev["firstErr"] = back, err1 != nil
			wedged := !back
			if back {
				ev["headAfterFirst"] = idOf(bc.CurrentBlock())
				var err2 error
				back2 := timed(func() { _, err2 = bc.InsertChain(blocks) })
				ev["secondBack"], ev["secondErr"] = back2, err2 != nil
				wedged = wedged || !back2
				if back2 {
					ev["headAfterSecond"] = idOf(bc.CurrentBlock())
				}
			}
			if !wedged {
				stopBack := timed(func() { bc.Stop() })
				ev["stopBack"] = stopBack
				wedged = !stopBack
			}
			ev["failed"] = db.failed
			if !wedged {
				db.mu.Lock()
				db.failAt = 0
				db.mu.Unlock()
				re, rerr := NewBlockChain(context.TODO(), db, cfg, gspec.Config, aquahash.NewFaker(), vm.Config{})
				ev["reopenErr"] = rerr != nil
				if rerr == nil {
					head := re.CurrentBlock()
					ev["reopenHead"] = idOf(head)
					ok := true
					if st, err := re.State(); err != nil {
						ok = false
					} else if head.NumberU64() >= 1 {
						for j := 0; j < transfers; j++ {
							if st.GetBalance(recipient(j)).Cmp(big.NewInt(1000)) != 0 {
								ok = false
							}
						}
						ok = ok && st.Error() == nil
					}
					ev["stateOK"] = ok
					// feeding the blocks again converges
					_, e3 := re.InsertChain(blocks)
					ev["reimportErr"], ev["reimportHead"] = e3 != nil, idOf(re.CurrentBlock())
					re.Stop()
				}
			}
			ev["wedged"] = wedged
			for _, k := range []string{"headAfterFirst", "headAfterSecond", "reopenHead", "reimportHead"} {
				if _, ok := ev[k]; !ok {
					ev[k] = "-"
				}
			}
			for _, k := range []string{"secondBack", "secondErr", "stopBack", "reopenErr", "stateOK", "reimportErr"} {
				if _, ok := ev[k]; !ok {
					ev[k] = false
				}
			}
			emit(ev)
			if wedged {
				fmt.Printf("VERIF-STAT events=%d wedged=1\n", nev)
				return // the wedged node keeps its goroutines and locks
			}
		}
	}
	fmt.Printf("VERIF-STAT events=%d wedged=0\n", nev)
}
