//go:build verif

package state

// C09 driver: seeded sequences of every StateDB mutator with nested snapshots, reverts to any live revision,
// Finalise / IntermediateRoot / Commit, Copy and reopen. Observations are read through a Copy (so that reading
// does not warm the caches of the state under test); at commit points the account trie, the storage tries and
// the code are dumped. TLC (StateTrace.tla) judges.

import (
	"bufio"
	"encoding/json"
	"fmt"
	"math/big"
	"math/rand"
	"os"
	"strconv"
	"testing"

	"gitlab.com/aquachain/aquachain/aquadb"
	"gitlab.com/aquachain/aquachain/common"
	"gitlab.com/aquachain/aquachain/core/types"
	"golang.org/x/crypto/sha3"
)

type svw struct {
	w *bufio.Writer
	n int
}

func (v *svw) emit(e interface{}) {
	b, err := json.Marshal(e)
	if err != nil {
		panic(err)
	}
	v.w.Write(b)
	v.w.WriteByte('\n')
	v.n++
}
func sints(b []byte) []int {
	o := make([]int, len(b))
	for i, x := range b {
		o[i] = int(x)
	}
	return o
}
func kecc(b []byte) []byte {
	h := sha3.NewLegacyKeccak256()
	h.Write(b)
	return h.Sum(nil)
}

var sAddrs = []common.Address{
	common.HexToAddress("0x00000000000000000000000000000000000000a1"),
	common.HexToAddress("0x00000000000000000000000000000000000000b2"),
	common.HexToAddress("0x0000000000000000000000000000000000000003"), // RIPEMD precompile (touch special case)
	common.HexToAddress("0x7777777777777777777777777777777777777777"),
	common.HexToAddress("0x00000000000000000000000000000000000e3b7e"),
}
var sSlots = []common.Hash{common.HexToHash("0x00"), common.HexToHash("0x01"), common.HexToHash("0xffffffffffffffffffffffffffffffffffffffffffffffffffffffffffffffff")}

func aid(i int) string { return fmt.Sprintf("a%d", i) }

// observation through getters only
func observe(st *StateDB) map[string]interface{} {
	accts := map[string]interface{}{}
	for i, a := range sAddrs {
		stor := map[string][]int{}
		for j, s := range sSlots {
			v := st.GetState(a, s)
			stor[fmt.Sprintf("s%d", j)] = sints(new(big.Int).SetBytes(v[:]).Bytes())
		}
		code := st.GetCode(a)
		accts[aid(i)] = map[string]interface{}{"exist": st.Exist(a), "empty": st.Empty(a), "bal": sints(st.GetBalance(a).Bytes()),
			"nonce": int(st.GetNonce(a)), "code": sints(code), "codeSize": st.GetCodeSize(a), "codeHash": sints(st.GetCodeHash(a).Bytes()),
			"storage": stor, "suicided": st.HasSuicided(a)}
	}
	return map[string]interface{}{"accts": accts, "refund": int(st.GetRefund()), "nlogs": len(st.Logs())}
}

func dumpNodes(disk *aquadb.MemDatabase) (out [][2][]int, ok bool) {
	ok = true
	out = [][2][]int{}
	for _, k := range disk.Keys() {
		if len(k) == 32 {
			v, _ := disk.Get(k)
			if string(kecc(v)) != string(k) {
				ok = false
			}
			out = append(out, [2][]int{sints(k), sints(v)})
		}
	}
	return
}

func TestVerifState(t *testing.T) {
	out := os.Getenv("VERIF_OUT")
	if out == "" {
		t.Skip("VERIF_OUT not set")
	}
	seed, _ := strconv.ParseInt(os.Getenv("VERIF_SEED"), 10, 64)
	nseq, _ := strconv.Atoi(os.Getenv("VERIF_SEQ"))
	if nseq == 0 {
		nseq = 40
	}
	f, err := os.Create(out)
	if err != nil {
		t.Fatal(err)
	}
	defer f.Close()
	w := &svw{w: bufio.NewWriterSize(f, 1<<20)}
	defer w.w.Flush()
	rng := rand.New(rand.NewSource(seed*69069 + 23))
	// hashes the specification needs but cannot compute
	kk := map[string]interface{}{}
	for i, a := range sAddrs {
		kk[aid(i)] = sints(kecc(a[:]))
	}
	for j, s := range sSlots {
		kk[fmt.Sprintf("s%d", j)] = sints(kecc(s[:]))
	}
	codes := [][]byte{{}, {0x60, 0x00}, {0x60, 0x01, 0x60, 0x02, 0x01, 0x00}, make([]byte, 40)}
	codeHashes := [][]int{}
	for _, c := range codes {
		codeHashes = append(codeHashes, sints(kecc(c)))
	}
	w.emit(map[string]interface{}{"e": "keccak", "keys": kk, "codes": func() [][]int {
		o := [][]int{}
		for _, c := range codes {
			o = append(o, sints(c))
		}
		return o
	}(), "codeHashes": codeHashes})
	for s := 0; s < nseq; s++ {
		disk := aquadb.NewMemDatabase()
		sdb := NewDatabase(disk)
		st, _ := New(common.Hash{}, sdb)
		w.emit(map[string]interface{}{"e": "newstate", "seq": s, "obs": observe(st.Copy())})
		// the shadow receives the same mutations, interleaved with reads of random accounts (balance, nonce, code, storage,
		// existence): reads are not part of the content, so its roots must be the same
		disk2 := aquadb.NewMemDatabase()
		shadow, _ := New(common.Hash{}, NewDatabase(disk2))
		snapMap := map[int]int{}
		peek := func() {
			for k := rng.Intn(3); k > 0; k-- {
				b := sAddrs[rng.Intn(len(sAddrs))]
				switch rng.Intn(7) {
				case 0:
					shadow.GetBalance(b)
				case 1:
					shadow.GetNonce(b)
				case 2:
					shadow.GetCode(b)
				case 3:
					shadow.GetCodeSize(b)
				case 4:
					shadow.GetState(b, sSlots[rng.Intn(len(sSlots))])
				case 5:
					shadow.Exist(b)
				default:
					shadow.Empty(b)
				}
			}
		}
		both := func(f func(x *StateDB)) {
			f(st)
			peek()
			f(shadow)
		}
		var live []int // live snapshot ids
		// one fork rule per sequence, as in block processing (EIP-158 on or off for the whole block)
		seqDel := s%2 == 0
		nops := 10 + rng.Intn(50)
		emitOp := func(name string, args map[string]interface{}) {
			ev := map[string]interface{}{"e": "op", "op": name, "obs": observe(st.Copy())}
			for k, v := range args {
				ev[k] = v
			}
			w.emit(ev)
		}
		commitPoint := func(kind string, del bool) {
			var root common.Hash
			if kind == "intermediate" {
				root = st.IntermediateRoot(del)
				// make the nodes available for the dump without disturbing the state under test
				cp := st.Copy()
				r2, _ := cp.Commit(del)
				sdb.TrieDB().Commit(r2, false)
			} else {
				root, _ = st.Commit(del)
				sdb.TrieDB().Commit(root, false)
			}
			var root2 common.Hash
			if kind == "intermediate" {
				root2 = shadow.IntermediateRoot(del)
			} else {
				root2, _ = shadow.Commit(del)
				shadow.db.TrieDB().Commit(root2, false)
			}
			// two states opened from the committed root through the SAME state database (its trie cache) are independent:
			// one is modified and hashed, the other must still read the committed content
			twinObs := map[string]interface{}{}
			twinRootSame := true
			if kind == "commit" {
				ta, ea := New(root, sdb)
				tb, eb := New(root, sdb)
				if ea == nil && eb == nil {
					for k := 0; k < 3; k++ {
						b := sAddrs[rng.Intn(len(sAddrs))]
						ta.AddBalance(b, big.NewInt(int64(1+rng.Intn(5))))
						ta.SetNonce(b, uint64(7+rng.Intn(3)))
						ta.SetState(b, sSlots[rng.Intn(len(sSlots))], common.BigToHash(big.NewInt(int64(1+rng.Intn(9)))))
					}
					ta.IntermediateRoot(del)
					twinObs = observe(tb)
					twinRootSame = tb.IntermediateRoot(del) == root
				}
			}
			live = nil
			dump, kok := dumpNodes(disk)
			direct := observe(st)
			re, err := New(root, NewDatabase(disk))
			reObs := map[string]interface{}{}
			reErr := ""
			if err != nil {
				reErr = err.Error()
			} else {
				reObs = observe(re)
			}
			w.emit(map[string]interface{}{"e": "root", "kind": kind, "del": del, "root": sints(root[:]), "dump": dump, "keccakOK": kok,
				"obs": direct, "copyObs": observe(st.Copy()), "reopenObs": reObs, "reopenErr": reErr,
				"shadowRoot": sints(root2[:]), "twinObs": twinObs, "twinRootSame": twinRootSame, "twin": kind == "commit" && len(twinObs) > 0})
			if kind == "commit" && re != nil { // a StateDB is not reused after Commit (block processing opens a new one per block)
				// ... a fresh instance that nobody has read from yet (cold caches)
				st, _ = New(root, NewDatabase(disk))
				sdb = st.db
				shadow, _ = New(root2, NewDatabase(disk2))
			}
		}
		if s == 0 {
			// the fork block that switches empty-account deletion on: accounts that are empty in the committed state (created before
			// the fork) are only READ afterwards - by the shadow, and by a twin - and must survive the first commit with deletion on
			both(func(x *StateDB) { x.SetBalance(sAddrs[4], big.NewInt(0)) })
			emitOp("setbalance", map[string]interface{}{"a": aid(4)})
			both(func(x *StateDB) { x.CreateAccount(sAddrs[3]) })
			emitOp("createaccount", map[string]interface{}{"a": aid(3)})
			commitPoint("commit", false)
			shadow.Exist(sAddrs[4])
			shadow.GetBalance(sAddrs[3])
			shadow.GetNonce(sAddrs[4])
			both(func(x *StateDB) { x.AddBalance(sAddrs[1], big.NewInt(3)) })
			emitOp("addbalance", map[string]interface{}{"a": aid(1), "v": 3})
			commitPoint("commit", true)
			// the same instance commits again with nothing pending
			st.Exist(sAddrs[4])
			commitPoint("intermediate", true)
		}
		if s == 1 {
			// the history of known finding D14, always exercised: an existing empty account, a zero-value touch inside a
			// snapshot, revert, then a real change
			both(func(x *StateDB) { x.SetBalance(sAddrs[4], big.NewInt(0)) })
			emitOp("setbalance", map[string]interface{}{"a": aid(4)})
			commitPoint("commit", seqDel)
			id := st.Snapshot()
			snapMap[id] = shadow.Snapshot()
			w.emit(map[string]interface{}{"e": "snapshot", "id": id, "obs": observe(st.Copy())})
			both(func(x *StateDB) { x.AddBalance(sAddrs[4], big.NewInt(0)) })
			emitOp("addbalance", map[string]interface{}{"a": aid(4), "v": 0})
			st.RevertToSnapshot(id)
			shadow.RevertToSnapshot(snapMap[id])
			w.emit(map[string]interface{}{"e": "revert", "id": id, "obs": observe(st.Copy())})
			both(func(x *StateDB) { x.SetNonce(sAddrs[4], 5) })
			emitOp("setnonce", map[string]interface{}{"a": aid(4)})
			commitPoint("commit", seqDel)
		}
		for i := 0; i < nops; i++ {
			ai := rng.Intn(len(sAddrs))
			a := sAddrs[ai]
			switch r := rng.Intn(22); {
			case r < 3:
				v := int64(rng.Intn(4)) // 0 = touch
				both(func(x *StateDB) { x.AddBalance(a, big.NewInt(v)) })
				emitOp("addbalance", map[string]interface{}{"a": aid(ai), "v": int(v)})
			case r < 4:
				v := new(big.Int).Set(st.GetBalance(a))
				if v.Sign() > 0 {
					v = big.NewInt(int64(rng.Intn(int(v.Int64() + 1))))
				}
				both(func(x *StateDB) { x.SubBalance(a, v) })
				emitOp("subbalance", map[string]interface{}{"a": aid(ai)})
			case r < 5:
				nb := big.NewInt(int64(rng.Intn(3)) * 1000000007)
				both(func(x *StateDB) { x.SetBalance(a, nb) })
				emitOp("setbalance", map[string]interface{}{"a": aid(ai)})
			case r < 7:
				nn := uint64(rng.Intn(3))
				both(func(x *StateDB) { x.SetNonce(a, nn) })
				emitOp("setnonce", map[string]interface{}{"a": aid(ai)})
			case r < 9:
				cd := codes[rng.Intn(len(codes))]
				both(func(x *StateDB) { x.SetCode(a, cd) })
				emitOp("setcode", map[string]interface{}{"a": aid(ai)})
			case r < 13:
				var v common.Hash
				switch rng.Intn(4) {
				case 0: // zero: deletes the slot
				case 1:
					v = common.BigToHash(big.NewInt(int64(1 + rng.Intn(200))))
				case 2:
					rng.Read(v[:])
				default:
					v[31], v[0] = 1, 0x80
				}
				sl := sSlots[rng.Intn(len(sSlots))]
				both(func(x *StateDB) { x.SetState(a, sl, v) })
				emitOp("setstate", map[string]interface{}{"a": aid(ai)})
			case r < 14:
				both(func(x *StateDB) { x.Suicide(a) })
				emitOp("suicide", map[string]interface{}{"a": aid(ai)})
			case r < 15:
				both(func(x *StateDB) { x.CreateAccount(a) })
				emitOp("createaccount", map[string]interface{}{"a": aid(ai)})
			case r < 16:
				rf := uint64(rng.Intn(3))
				both(func(x *StateDB) { x.AddLog(&types.Log{Address: a}); x.AddRefund(rf) })
				emitOp("addlog", map[string]interface{}{"a": aid(ai)})
			case r < 18:
				id := st.Snapshot()
				snapMap[id] = shadow.Snapshot()
				live = append(live, id)
				w.emit(map[string]interface{}{"e": "snapshot", "id": id, "obs": observe(st.Copy())})
			case r < 20:
				if len(live) > 0 {
					k := rng.Intn(len(live))
					id := live[k]
					live = live[:k] // later revisions die
					st.RevertToSnapshot(id)
					shadow.RevertToSnapshot(snapMap[id])
					w.emit(map[string]interface{}{"e": "revert", "id": id, "obs": observe(st.Copy())})
				}
			case r < 21:
				commitPoint("intermediate", seqDel)
			default:
				commitPoint("commit", seqDel)
			}
		}
		commitPoint("commit", seqDel)
	}
	fmt.Printf("VERIF-STAT sequences=%d events=%d\n", nseq, w.n)
}
