//go:build verif

package core

// Chain-family driver (C01, C02, C03): runs operation histories against the real core.BlockChain and
// records, after every operation, the full observation that ChainProps.tla talks about.
// The driver never judges; TLC (ChainTrace.tla) does.

import (
	"context"
	"fmt"
	"gitlab.com/aquachain/aquachain/core/state"
	"math/big"
	"math/rand"
	"os"
	"sort"
	"strings"
	"testing"
	"time"

	"gitlab.com/aquachain/aquachain/aquadb"
	"gitlab.com/aquachain/aquachain/common"
	"gitlab.com/aquachain/aquachain/consensus/aquahash"
	"gitlab.com/aquachain/aquachain/core/types"
	"gitlab.com/aquachain/aquachain/core/vm"
	"gitlab.com/aquachain/aquachain/crypto"
)

type vnode struct {
	t      *vtree
	db     aquadb.Database
	bc     *BlockChain
	mode   string
	w      *vwriter
	runLbl string
}

func (t *vtree) newNode(w *vwriter, mode, label string) *vnode {
	db := aquadb.NewMemDatabase()
	t.gspec.MustCommit(db)
	n := &vnode{t: t, db: db, mode: mode, w: w, runLbl: label}
	n.open()
	w.emit(map[string]interface{}{"e": "run", "mode": mode, "label": label, "obs": n.observe()})
	return n
}

func (n *vnode) cacheConfig() *CacheConfig {
	if n.mode == "archive" {
		return &CacheConfig{Disabled: true}
	}
	return &CacheConfig{TrieNodeLimit: 256, TrieTimeLimit: 5 * time.Minute}
}

func (n *vnode) open() {
	bc, err := NewBlockChain(context.TODO(), n.db, n.cacheConfig(), n.t.cfg, aquahash.NewFaker(), vm.Config{})
	if err != nil {
		panic(err)
	}
	n.bc = bc
}

func errClass(err error) string {
	if err == nil {
		return ""
	}
	s := err.Error()
	if strings.HasPrefix(s, "PANIC") {
		return "PANIC"
	}
	for _, k := range []string{"unknown ancestor", "pruned ancestor", "invalid merkle root", "invalid gas used", "invalid bloom",
		"invalid receipt root", "transaction root hash mismatch", "uncle root hash mismatch", "future block", "known block",
		"invalid difficulty", "nonce too", "insufficient", "gas limit reached", "uncle"} {
		if strings.Contains(s, k) {
			return k
		}
	}
	if len(s) > 40 {
		s = s[:40]
	}
	return s
}

// guard runs one API call; a panic is an outcome to be recorded (and judged by TLC), not a driver failure
func (n *vnode) guard(f func() (int, error)) (idx int, err error) {
	defer func() {
		if r := recover(); r != nil {
			idx, err = 0, fmt.Errorf("PANIC: %v", r)
			// the chain mutexes may be left locked by the panicking call: continue on a fresh instance
			n.open()
		}
	}()
	return f()
}

func (n *vnode) idOf(b *types.Block) string {
	if b == nil {
		return "-"
	}
	if v, ok := n.t.byHash[b.Hash()]; ok {
		return v.id
	}
	return "?" + b.Hash().Hex()[:10]
}
func (n *vnode) idOfH(h *types.Header) string {
	if h == nil {
		return "-"
	}
	if v, ok := n.t.byHash[h.Hash()]; ok {
		return v.id
	}
	return "?" + h.Hash().Hex()[:10]
}

// observe: everything ChainProps needs, through the public accessors of BlockChain / database_util
func (n *vnode) observe() map[string]interface{} {
	bc, t := n.bc, n.t
	maxn := int(t.maxNum) + 2
	canonB := make([]string, maxn+1)
	canonH := make([]string, maxn+1)
	for i := 0; i <= maxn; i++ {
		canonB[i] = n.idOf(bc.GetBlockByNumber(uint64(i)))
		canonH[i] = n.idOfH(bc.GetHeaderByNumber(uint64(i)))
	}
	td := map[string][]int{}
	hasH, hasB, hasR, hasS := []string{}, []string{}, []string{}, []string{}
	for _, v := range t.blocks {
		if !v.valid {
			if _, same := t.byHash[v.b.Hash()]; same {
				continue // same hash as its genuine twin: observed through the twin
			}
		}
		h, num := v.b.Hash(), v.b.NumberU64()
		if x := bc.GetTd(h, num); x != nil {
			td[v.id] = limbs(x)
		}
		if bc.GetHeader(h, num) != nil {
			hasH = append(hasH, v.id)
		}
		if bc.GetBody(h) != nil {
			hasB = append(hasB, v.id)
		}
		if GetBlockReceipts(n.db, h, num) != nil || (len(v.b.Transactions()) == 0 && hasRawReceipts(n.db, v.b)) {
			hasR = append(hasR, v.id)
		}
		if v.valid && bc.HasState(v.b.Root()) {
			hasS = append(hasS, v.id)
		}
	}
	lookup := map[string][]interface{}{}
	for i, tx := range t.txs {
		id := fmt.Sprintf("t%d", i+1)
		gtx, bh, _, idx := GetTransaction(n.db, tx.Hash())
		if gtx != nil {
			bid := "?"
			if v, ok := t.byHash[bh]; ok {
				bid = v.id
			}
			rc, rbh, _, ridx := GetReceipt(n.db, tx.Hash())
			rok := rc != nil && rbh == bh && ridx == idx && rc.TxHash == tx.Hash()
			lookup[id] = []interface{}{bid, int(idx) + 1, gtx.Hash() == tx.Hash(), rok}
		}
	}
	head := bc.CurrentBlock()
	return map[string]interface{}{
		"head": n.idOf(head), "hhead": n.idOfH(bc.CurrentHeader()), "fhead": n.idOf(bc.CurrentFastBlock()),
		"canonB": canonB, "canonH": canonH, "td": td,
		"hasHeader": hasH, "hasBody": hasB, "hasRcpt": hasR, "hasState": hasS, "lookup": lookup,
		"headState": ssigOf(head.Root(), bc.stateCache),
	}
}

func hasRawReceipts(db aquadb.Database, b *types.Block) bool {
	data, _ := db.Get(append(append(blockReceiptsPrefix, encodeBlockNumber(b.NumberU64())...), b.Hash().Bytes()...))
	return len(data) > 0
}

// signatures of what the node stored for the given blocks (C01 ImportFunctional)
func (n *vnode) importedSigs(vs []*vblk) []map[string]string {
	out := []map[string]string{}
	for _, v := range vs {
		h, num := v.b.Hash(), v.b.NumberU64()
		if !hasRawReceipts(n.db, v.b) {
			continue
		}
		rs := GetBlockReceipts(n.db, h, num)
		out = append(out, map[string]string{"id": n.t.byHash[h].id, "rsig": rsigOf(rs), "ssig": ssigOf(v.b.Root(), n.bc.stateCache)})
	}
	return out
}

func ids(vs []*vblk) []string {
	o := make([]string, len(vs))
	for i, v := range vs {
		o[i] = v.id
	}
	return o
}

func (n *vnode) insert(vs []*vblk) {
	blocks := make(types.Blocks, len(vs))
	for i, v := range vs {
		// hand the node its own copy: header version caching etc. must not leak between runs
		blocks[i] = types.NewBlockWithHeader(v.b.Header()).WithBody(v.b.Transactions(), v.b.Uncles())
	}
	idx, err := n.guard(func() (int, error) { return n.bc.InsertChain(blocks) })
	n.w.emit(map[string]interface{}{"e": "op", "op": "insert", "blocks": ids(vs), "idx": idx, "err": errClass(err),
		"imported": n.importedSigs(vs), "obs": n.observe()})
}

// two sibling blocks written concurrently the way the miner's worker writes a sealed block (WriteBlockWithState, without the
// import lock): both writers are started while the chain mutex is held, so that they queue up behind it, then released.
func (n *vnode) concurrentWrite(a, b *vblk) {
	type job struct {
		blk      *types.Block
		receipts types.Receipts
		st       *state.StateDB
	}
	mk := func(v *vblk) (job, error) {
		blk := types.NewBlockWithHeader(v.b.Header()).WithBody(v.b.Transactions(), v.b.Uncles())
		st, err := n.bc.StateAt(v.parent.b.Root())
		if err != nil {
			return job{}, err
		}
		receipts, _, _, err := n.bc.Processor().Process(blk, st, vm.Config{})
		return job{blk, receipts, st}, err
	}
	ja, erra := mk(a)
	jb, errb := mk(b)
	if erra != nil || errb != nil {
		return
	}
	errs := make(chan error, 2)
	_, err := n.guard(func() (int, error) {
		n.bc.mu.Lock()
		for _, j := range []job{ja, jb} {
			j := j
			go func() {
				defer func() {
					if r := recover(); r != nil {
						errs <- fmt.Errorf("PANIC %v", r)
					}
				}()
				_, e := n.bc.WriteBlockWithState(j.blk, j.receipts, j.st)
				errs <- e
			}()
			time.Sleep(15 * time.Millisecond)
		}
		time.Sleep(30 * time.Millisecond)
		n.bc.mu.Unlock()
		e1, e2 := <-errs, <-errs
		if e1 != nil {
			return 0, e1
		}
		return 0, e2
	})
	n.w.emit(map[string]interface{}{"e": "op", "op": "insert", "blocks": ids([]*vblk{a, b}), "idx": 0, "err": errClass(err),
		"imported": n.importedSigs([]*vblk{a, b}), "obs": n.observe(), "concurrent": true})
}

func (n *vnode) insertHeaders(vs []*vblk) {
	hs := make([]*types.Header, len(vs))
	for i, v := range vs {
		hs[i] = types.CopyHeader(v.b.Header())
	}
	idx, err := n.guard(func() (int, error) { return n.bc.InsertHeaderChain(hs, 1) })
	n.w.emit(map[string]interface{}{"e": "op", "op": "headers", "blocks": ids(vs), "idx": idx, "err": errClass(err),
		"imported": []string{}, "obs": n.observe()})
}

func (n *vnode) setHead(num uint64) {
	_, err := n.guard(func() (int, error) { return 0, n.bc.SetHead(num) })
	n.w.emit(map[string]interface{}{"e": "op", "op": "sethead", "n": int(num), "blocks": []string{}, "idx": 0, "err": errClass(err),
		"imported": []string{}, "obs": n.observe()})
}

func (n *vnode) restart() {
	_, err := n.guard(func() (int, error) {
		n.bc.Stop()
		n.open()
		return 0, nil
	})
	n.w.emit(map[string]interface{}{"e": "op", "op": "restart", "blocks": []string{}, "idx": 0, "err": errClass(err),
		"imported": []string{}, "obs": n.observe()})
}

func (n *vnode) stop() {
	_, err := n.guard(func() (int, error) { n.bc.Stop(); return 0, nil })
	if err != nil { // Stop crashed: that is an outcome (guard has reopened the database)
		n.w.emit(map[string]interface{}{"e": "op", "op": "stop", "blocks": []string{}, "idx": 0, "err": errClass(err),
			"imported": []string{}, "obs": n.observe()})
		n.guard(func() (int, error) { n.bc.Stop(); return 0, nil })
	}
}

// path from genesis (exclusive) to v (inclusive)
func pathTo(v *vblk) []*vblk {
	var p []*vblk
	for x := v; x.parent != nil; x = x.parent {
		p = append(p, x)
	}
	for i, j := 0, len(p)-1; i < j; i, j = i+1, j-1 {
		p[i], p[j] = p[j], p[i]
	}
	return p
}

// ---------------------------------------------------------------------------------------------
// scenarios

// buildRandomTree: a trunk plus side branches of different speed, forks of forks, shared transactions
func buildRandomTree(rng *rand.Rand, name, cfgName string, size int, ct vcontent) *vtree {
	t := newVTree(name, cfgName, rng)
	for len(t.blocks)-1 < size {
		// parent: prefer deep blocks
		var parent *vblk
		valid := []*vblk{}
		for _, v := range t.blocks {
			if v.valid {
				valid = append(valid, v)
			}
		}
		if rng.Intn(3) == 0 {
			parent = valid[rng.Intn(len(valid))]
		} else {
			a, b := valid[rng.Intn(len(valid))], valid[rng.Intn(len(valid))]
			parent = a
			if b.b.NumberU64() > a.b.NumberU64() {
				parent = b
			}
		}
		n := 1 + rng.Intn(4)
		if n > size-(len(t.blocks)-1) {
			n = size - (len(t.blocks) - 1)
		}
		var fo *int64
		if rng.Intn(2) == 0 {
			o := ct.offsets[rng.Intn(len(ct.offsets))]
			fo = &o
		}
		t.extend(rng, parent, n, ct, fo)
	}
	return t
}

// catalogue shapes that must always be present (DESIGN 3.4)
func buildShape(rng *rand.Rand, name, shape string) *vtree {
	t := newVTree(name, "steep", rng)
	fast, slow, norm := int64(-200), int64(1000), int64(0)
	switch shape {
	case "shorter-heavier": // 7 slow blocks, then 6 fast blocks from genesis that outweigh them
		t.extend(rng, t.genesis, 7, vRich, &slow)
		t.extend(rng, t.genesis, 6, vRich, &fast)
	case "longer-lighter":
		t.extend(rng, t.genesis, 5, vRich, &fast)
		t.extend(rng, t.genesis, 6, vRich, &slow)
	case "tie": // two branches of equal weight and equal length, and one tie at lower height
		a := t.extend(rng, t.genesis, 3, vLean, &norm)
		t.extend(rng, t.genesis, 3, vLean, &norm)
		t.extend(rng, a[0], 2, vLean, &norm)
	case "ghost": // two branches of empty blocks from the same parent: siblings with the same state root, the second branch longer
		t.oneCoinbase = true
		p := t.extend(rng, t.genesis, 1, vNone, &norm)
		t.extend(rng, p[0], 2, vNone, &norm)
		t.extend(rng, p[0], 3, vNone, &norm)
	case "late-overtake": // side branch becomes heaviest only after two more batches
		a := t.extend(rng, t.genesis, 4, vRich, &norm)
		b := t.extend(rng, a[0], 2, vRich, &norm)
		t.extend(rng, b[1], 3, vRich, &fast)
	case "long-light-overtake": // 10 fast blocks, then 15 slow ones whose late blocks re-mine the same transactions
		t.extend(rng, t.genesis, 10, vRich, &fast)
		b := t.extend(rng, t.genesis, 10, vNone, &slow)
		t.extend(rng, b[9], 5, vReplay, &slow)
	case "same-address-code": // two forks create different code at the SAME address, later blocks read EXTCODESIZE of it
		signer := types.NewEIP155Signer(t.cfg.ChainId)
		mk := func(tx *types.Transaction, k int) *types.Transaction {
			stx, err := types.SignTx(tx, signer, t.keys[k])
			if err != nil {
				panic(err)
			}
			return stx
		}
		caddr := crypto.CreateAddress(vaddr(t.keys[0]), 0)
		call := make([]byte, 64)
		call[0], call[31] = 1, 5
		copy(call[44:], caddr.Bytes())
		var tips []*vblk
		for v := 0; v < 3; v++ {
			t.forced = []*types.Transaction{mk(types.NewContractCreation(0, big.NewInt(0), 500000, big.NewInt(1e9), vInitCode(vStoreContractV(v*7), true)), 0)}
			a := t.extend(rng, t.genesis, 1, vNone, &norm)
			// the pre-existing genesis contract reads EXTCODESIZE(caddr): caddr's code is not loaded in that frame
			t.forced = []*types.Transaction{mk(types.NewTransaction(0, common.HexToAddress("0x00000000000000000000000000000000000c0de1"), big.NewInt(0), 300000, big.NewInt(1e9), call), 1)}
			b := t.extend(rng, a[0], 1, vNone, &norm)
			tips = append(tips, b[0])
		}
		t.forced = nil
		t.extend(rng, tips[1], 2, vRich, &fast)
	case "fork-of-fork":
		a := t.extend(rng, t.genesis, 5, vRich, &norm)
		b := t.extend(rng, a[1], 4, vRich, &fast)
		t.extend(rng, b[1], 4, vRich, &fast)
		t.extend(rng, a[3], 3, vRich, &slow)
	}
	return t
}

// random operation history over a tree; returns after stopping the node
func runRandomHistory(rng *rand.Rand, t *vtree, w *vwriter, mode, label string, nops int, allowRewind, headersOnly bool) {
	n := t.newNode(w, mode, label)
	defer n.stop()
	valid := []*vblk{}
	for _, v := range t.blocks {
		if v.valid && v.parent != nil {
			valid = append(valid, v)
		}
	}
	for op := 0; op < nops; op++ {
		r := rng.Intn(20)
		if rng.Intn(7) == 0 {
			// cold caches for the next operation (an observation in between would warm them again)
			n.guard(func() (int, error) { n.bc.Stop(); n.open(); return 0, nil })
		}
		switch {
		case r == 0 && allowRewind:
			cur := n.bc.CurrentHeader().Number.Uint64()
			if cur > 0 {
				n.setHead(uint64(rng.Intn(int(cur))))
				continue
			}
			fallthrough
		case r == 1:
			n.restart()
		default:
			// a contiguous segment of some branch; usually one whose parent is known
			v := valid[rng.Intn(len(valid))]
			p := pathTo(v)
			// start at the first block the node does not have yet (mostly), or anywhere (sometimes)
			start := 0
			if rng.Intn(6) != 0 {
				for start < len(p)-1 && n.bc.HasBlock(p[start].b.Hash(), p[start].b.NumberU64()) {
					start++
				}
				if headersOnly {
					start = 0
					for start < len(p)-1 && n.bc.HasHeader(p[start].b.Hash(), p[start].b.NumberU64()) {
						start++
					}
				}
			} else {
				start = rng.Intn(len(p))
			}
			end := start + 1 + rng.Intn(len(p)-start)
			if rng.Intn(3) == 0 {
				end = len(p)
			}
			seg := p[start:end]
			if headersOnly {
				n.insertHeaders(seg)
			} else {
				n.insert(seg)
			}
		}
	}
}

// import every valid block once, in a fixed parent-closed order, block by block (reference run)
func runReference(t *vtree, w *vwriter, mode, label string, batch bool) {
	runReferenceH(t, w, mode, label, batch, false)
}

func runReferenceH(t *vtree, w *vwriter, mode, label string, batch, headers bool) {
	n := t.newNode(w, mode, label)
	defer n.stop()
	done := map[*vblk]bool{}
	for _, v := range t.blocks {
		if !v.valid || v.parent == nil || done[v] {
			continue
		}
		if batch {
			// longest linear run starting at v
			seg := []*vblk{v}
			for x := v; len(x.children) > 0; {
				x = x.children[0]
				seg = append(seg, x)
			}
			for _, s := range seg {
				done[s] = true
			}
			if headers {
				n.insertHeaders(seg)
			} else {
				n.insert(seg)
			}
		} else {
			done[v] = true
			if headers {
				n.insertHeaders([]*vblk{v})
			} else {
				n.insert([]*vblk{v})
			}
		}
	}
}

// corruption sweep: each corrupted block alone, before and after its genuine twin; genuine must still import
func runCorruptions(rng *rand.Rand, t *vtree, w *vwriter, mode, label string, per int) {
	n := t.newNode(w, mode, label)
	defer n.stop()
	valid := []*vblk{}
	for _, v := range t.blocks {
		if v.valid && v.parent != nil {
			valid = append(valid, v)
		}
	}
	sort.SliceStable(valid, func(i, j int) bool { return valid[i].b.NumberU64() < valid[j].b.NumberU64() })
	for _, v := range valid {
		for k := 0; k < per; k++ {
			c := t.corrupt(rng, v)
			n.t = t
			n.insert([]*vblk{c})
		}
		n.insert([]*vblk{v})
		if rng.Intn(3) == 0 {
			c := t.corrupt(rng, v)
			n.insert([]*vblk{c})
		}
	}
}

// rewind then re-delivery: a branch is imported, rewound away with SetHead, a competing branch becomes canonical, and the
// rewound branch arrives again (now as a side branch): lookups must follow the canonical chain at every step
func runRewindRedeliver(rng *rand.Rand, t *vtree, w *vwriter) {
	var leaves []*vblk
	for _, v := range t.blocks {
		if v.valid && v.parent != nil && len(v.children) == 0 {
			leaves = append(leaves, v)
		}
	}
	done := 0
	for _, a := range leaves {
		for _, b := range leaves {
			if a == b || done >= 2 {
				continue
			}
			// fork point of a and b
			pa, pb := pathTo(a), pathTo(b)
			k := 0
			for k < len(pa) && k < len(pb) && pa[k] == pb[k] {
				k++
			}
			if k == len(pa) || k == len(pb) {
				continue
			}
			done++
			mode := "archive"
			if done%2 == 0 {
				mode = "pruning" // after a restart the state of the rewind target is gone: the block head falls back further
			}
			n := t.newNode(w, mode, fmt.Sprintf("rewind-redeliver-%d", done))
			n.insert(pa)
			if done%2 == 0 {
				// cold caches: the rewind has to find everything in the database (no observation in between: reading warms them)
				n.guard(func() (int, error) { n.bc.Stop(); n.open(); return 0, nil })
			}
			n.setHead(uint64(k)) // back to the fork point
			if done%2 == 0 && k > 0 {
				n.insert(pa[:1]) // a block that still is canonical at its number is executed again
			}
			n.insert(pb)
			n.insert(pa[k:])
			n.insert(pb[k:])
			n.stop()
		}
	}
}

// a known side block ABOVE the head (a long, light branch) is delivered again with an altered body under the same header: two
// transactions swapped, one dropped, an uncle added.  The node imports a known block above its head again - from what it is given
func runKnownTwin(rng *rand.Rand, t *vtree, w *vwriter) {
	var leaves []*vblk
	for _, v := range t.blocks {
		if v.valid && v.parent != nil && len(v.children) == 0 {
			leaves = append(leaves, v)
		}
	}
	done := 0
	for _, a := range leaves {
		for _, b := range leaves {
			pa, pb := pathTo(a), pathTo(b)
			if a == b || done >= 1 || len(pb) <= len(pa)+1 {
				continue
			}
			// the first block of b's branch that lies above a's height and carries at least two transactions
			var v *vblk
			for _, x := range pb[len(pa):] {
				if len(x.b.Transactions()) >= 2 && v == nil {
					v = x
				}
			}
			if v == nil {
				continue
			}
			done++
			for _, mode := range []string{"archive", "pruning"} {
				n := t.newNode(w, mode, "known-twin-"+mode)
				n.insert(pa)
				upto := pathTo(v)
				n.insert(upto)
				for _, kind := range []string{"swaptx", "droptx", "adduncle"} {
					n.insert([]*vblk{t.corruptKind(rng, v, kind)})
				}
				if rest := pb[len(upto):]; len(rest) > 0 {
					n.insert(rest)
				}
				n.stop()
			}
		}
	}
}

// ghost state (known finding D18): siblings a, b with the same state root; a pruning node imports a's branch and is restarted
// (the state of the common parent is gone), then receives b - stored without execution - and b's descendants, which outweigh
// a's branch
func runGhost(t *vtree, w *vwriter) {
	done := 0
	for _, p := range t.blocks {
		if !p.valid || p.parent == nil || done >= 1 {
			continue
		}
		for _, a := range p.children {
			for _, b := range p.children {
				if a == b || !a.valid || !b.valid || a.ssig != b.ssig || len(a.children) == 0 || len(b.children) == 0 || done >= 1 {
					continue
				}
				leaf := func(v *vblk) *vblk {
					for {
						var next *vblk
						for _, c := range v.children {
							if c.valid {
								next = c
							}
						}
						if next == nil {
							return v
						}
						v = next
					}
				}
				la, lb := leaf(a), leaf(b)
				if len(pathTo(lb)) <= len(pathTo(la)) {
					continue
				}
				done++
				n := t.newNode(w, "pruning", "ghost")
				n.insert(pathTo(la))
				n.guard(func() (int, error) { n.bc.Stop(); n.open(); return 0, nil })
				n.insert([]*vblk{b})
				if rest := pathTo(lb)[len(pathTo(b)):]; len(rest) > 0 {
					n.insert(rest)
				}
				n.stop()
			}
		}
	}
}

// header-first import of batches that overlap what the node already has and end in a header breaking a consensus rule: the
// batch must fail and the bad header must not be stored (one-by-one and batch verification agree)
func runHeaderCorruptions(rng *rand.Rand, t *vtree, w *vwriter) {
	var leaves []*vblk
	for _, v := range t.blocks {
		if v.valid && v.parent != nil && len(pathTo(v)) >= 3 {
			leaves = append(leaves, v)
		}
	}
	if len(leaves) == 0 {
		return
	}
	for k := 0; k < 3; k++ {
		v := leaves[rng.Intn(len(leaves))]
		path := pathTo(v) // genesis (exclusive) .. v
		n := t.newNode(w, "archive", fmt.Sprintf("hdr-corrupt-%d", k))
		cut := 1 + rng.Intn(len(path)-1) // the node first gets path[:cut]
		from := rng.Intn(cut)            // the second batch re-delivers path[from:] ...
		n.insertHeaders(path[:cut])
		bad := t.corruptHeader(rng, v) // ... with a bad header in place of the last one
		n.t = t
		batch := append(append([]*vblk{}, path[from:len(path)-1]...), bad)
		n.insertHeaders(batch)
		n.insertHeaders([]*vblk{v}) // the valid one is still accepted afterwards (if its parent chain got in)
		n.stop()
	}
}

func TestVerifChain(t *testing.T) {
	out := os.Getenv("VERIF_OUT")
	if out == "" {
		t.Skip("VERIF_OUT not set")
	}
	seed := int64(envInt("VERIF_SEED", 1))
	nTrees := envInt("VERIF_TREES", 6)
	nHist := envInt("VERIF_HIST", 6)
	long := envInt("VERIF_LONG", 1)
	w := newVWriter(out)
	defer w.close()
	rng := rand.New(rand.NewSource(seed*104729 + 7))
	ntree := 0
	defer recordGenFailure(w, func() { fmt.Printf("VERIF-STAT trees=%d events=%d\n", ntree, w.n) })
	emitTree := func(t *vtree) { w.emit(t.describe()) }

	// 1. catalogue shapes
	for _, shape := range []string{"shorter-heavier", "longer-lighter", "tie", "late-overtake", "long-light-overtake", "same-address-code", "fork-of-fork"} {
		tr := buildShape(rng, fmt.Sprintf("shape-%s-%d", shape, seed), shape)
		// corruptions are created lazily and appended to the tree, so describe the tree last:
		// runs are buffered per tree
		runTree(rng, tr, w, nHist, true, emitTree)
		ntree++
	}
	// 1b. ghost state (known finding D18): two empty siblings have the same state root; its own generator, so that the trees
	// that follow are what they were
	{
		grng := rand.New(rand.NewSource(seed*7919 + 3))
		tr := buildShape(grng, fmt.Sprintf("shape-ghost-%d", seed), "ghost")
		runTree(grng, tr, w, 2, true, emitTree)
		ntree++
	}
	// 2. random trees in both configs
	for i := 0; i < nTrees; i++ {
		cfg := []string{"steep", "test"}[i%2]
		size := 8 + rng.Intn(25)
		tr := buildRandomTree(rng, fmt.Sprintf("rand-%d-%d", seed, i), cfg, size, vRich)
		runTree(rng, tr, w, nHist, true, emitTree)
		ntree++
	}
	// 3. long chains crossing the pruning window (triesInMemory = 128)
	for i := 0; i < long; i++ {
		tr := newVTree(fmt.Sprintf("long-%d-%d", seed, i), "steep", rng)
		norm, fast := int64(0), int64(-200)
		trunk := tr.extend(rng, tr.genesis, 4, vLean, &norm)
		main := tr.extend(rng, trunk[3], 136+rng.Intn(8), vLean, &norm)
		_ = main
		// side branches hanging off a block that will be pruned
		s1 := tr.extend(rng, trunk[1], 1, vLean, &norm)
		tr.extend(rng, trunk[1], 3, vLean, &norm)
		tr.extend(rng, s1[0], 2, vLean, &fast)
		// a branch from deep below that eventually outweighs the main chain
		tr.extend(rng, trunk[2], 132+rng.Intn(4), vLean, &fast)
		runLong(rng, tr, w, emitTree)
		ntree++
	}
	fmt.Printf("VERIF-STAT trees=%d events=%d\n", ntree, w.n)
}

// events of one tree are buffered so that the tree header (which lists corrupted blocks created
// during the runs) can be written first
func runTree(rng *rand.Rand, tr *vtree, w *vwriter, nHist int, rewind bool, emitTree func(*vtree)) {
	buf := &bufWriter{}
	bw := newBufVWriter(buf)
	runReference(tr, bw, "archive", "ref-single", false)
	runReference(tr, bw, "pruning", "ref-batch", true)
	for h := 0; h < nHist; h++ {
		mode := []string{"archive", "pruning"}[h%2]
		runRandomHistory(rng, tr, bw, mode, fmt.Sprintf("hist-%d", h), 6+rng.Intn(10), rewind && h%3 == 2, false)
	}
	runConcurrentWriters(rng, tr, bw)
	runReferenceH(tr, bw, "archive", "headers-ref-single", false, true)
	runRandomHistory(rng, tr, bw, "archive", "headers", 6+rng.Intn(6), true, true)
	runCorruptions(rng, tr, bw, []string{"archive", "pruning"}[rng.Intn(2)], "corrupt", 1)
	runHeaderCorruptions(rng, tr, bw)
	runRewindRedeliver(rng, tr, bw)
	runGhost(tr, bw)
	runKnownTwin(rng, tr, bw)
	emitTree(tr)
	for _, e := range buf.evs {
		w.emit(e)
	}
}

// at every fork point with two valid children: import the path to the parent, then write the two children concurrently through
// the miner's write path, in both start orders
func runConcurrentWriters(rng *rand.Rand, tr *vtree, w *vwriter) {
	done := 0
	for _, p := range tr.blocks {
		var kids []*vblk
		for _, c := range p.children {
			if c.valid {
				kids = append(kids, c)
			}
		}
		if len(kids) < 2 || done >= 3 {
			continue
		}
		done++
		for order := 0; order < 2; order++ {
			n := tr.newNode(w, "archive", fmt.Sprintf("cwrite-%s-%d", p.id, order))
			if path := pathTo(p); len(path) > 0 {
				n.insert(path)
			}
			a, b := kids[0], kids[1]
			if order == 1 {
				a, b = b, a
			}
			n.concurrentWrite(a, b)
			n.stop()
		}
	}
}

// main chain first in one batch, then every side branch block by block (each overtaking block arrives alone)
func runDrip(tr *vtree, w *vwriter, mode, label string) {
	n := tr.newNode(w, mode, label)
	defer n.stop()
	var tip *vblk
	for _, v := range tr.blocks {
		if v.valid && (tip == nil || v.b.NumberU64() > tip.b.NumberU64()) {
			tip = v
		}
	}
	mainPath := pathTo(tip)
	on := map[*vblk]bool{}
	for _, v := range mainPath {
		on[v] = true
	}
	n.insert(mainPath)
	for _, v := range tr.blocks {
		if v.valid && v.parent != nil && !on[v] {
			n.insert([]*vblk{v})
		}
	}
}

func runLong(rng *rand.Rand, tr *vtree, w *vwriter, emitTree func(*vtree)) {
	buf := &bufWriter{}
	bw := newBufVWriter(buf)
	runReference(tr, bw, "pruning", "ref-batch", true)
	runDrip(tr, bw, "pruning", "drip")
	runRandomHistory(rng, tr, bw, "pruning", "hist-long", 14, false, false)
	emitTree(tr)
	for _, e := range buf.evs {
		w.emit(e)
	}
}
