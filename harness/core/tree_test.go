//go:build verif

package core

// Block-tree generator for the chain family (C01-C04): builds a random tree of VALID blocks with
// GenerateChain (the repository's own block builder), with mixed content, competing branches of
// different weight, shared transactions, uncles, plus single-field corruptions of valid blocks.

import (
	"context"
	"encoding/hex"
	"encoding/json"
	"fmt"
	"gitlab.com/aquachain/aquachain/core/vm"
	"math/big"
	"math/rand"

	"github.com/btcsuite/btcd/btcec/v2"
	"gitlab.com/aquachain/aquachain/aquadb"
	"gitlab.com/aquachain/aquachain/common"
	"gitlab.com/aquachain/aquachain/consensus/aquahash"
	"gitlab.com/aquachain/aquachain/core/state"
	"gitlab.com/aquachain/aquachain/core/types"
	"gitlab.com/aquachain/aquachain/crypto"
	"gitlab.com/aquachain/aquachain/params"
	"gitlab.com/aquachain/aquachain/rlp"
)

type vblk struct {
	id        string
	b         *types.Block
	parent    *vblk
	children  []*vblk
	rcpts     types.Receipts
	contracts []common.Address // contracts alive on this branch
	uncled    map[common.Hash]bool
	valid     bool
	rsig      string // expected receipts signature
	ssig      string // expected post-state signature
	corrupt   string // kind of corruption ("" for valid blocks)
}

type vtree struct {
	oneCoinbase bool
	name        string
	cfg         *params.ChainConfig
	cfgName     string
	gspec       *Genesis
	gendb       aquadb.Database
	genesis     *vblk
	blocks      []*vblk // genesis first, parents before children
	byHash      map[common.Hash]*vblk
	txid        map[common.Hash]string
	txs         []*types.Transaction
	keys        []*btcec.PrivateKey
	maxNum      uint64
	// scripted trees (replay of TLC-generated histories): keys[0], keys[1] are reserved for the shared
	// transactions "t1", "t2" of the model; forced lists what the next block must carry
	scripted bool
	forced   []*types.Transaction
	cc       *BlockChain // chain context of the generator (header lookups for BLOCKHASH)
}

// chain configs used by the drivers
func vConfigs() map[string]*params.ChainConfig {
	steep := &params.ChainConfig{ChainId: big.NewInt(4242), HomesteadBlock: big.NewInt(0), EIP150Block: big.NewInt(0),
		EIP155Block: big.NewInt(0), EIP158Block: big.NewInt(0), ByzantiumBlock: big.NewInt(0),
		Aquahash: new(params.AquahashConfig),
		HF:       params.ForkMap{2: big.NewInt(0), 5: big.NewInt(0), 7: big.NewInt(0)}}
	return map[string]*params.ChainConfig{
		"steep": steep,                  // +-parent/16 per block: short-heavy branches beat long-light ones
		"test":  params.TestChainConfig, // crosses HF1..HF7 at heights 1..7
	}
}

func rsigOf(rs types.Receipts) string {
	// consensus encoding (status/root, cumulative gas, bloom, logs{address, topics, data}) plus the
	// derived per-transaction fields a client reads back
	var buf []byte
	for _, r := range rs {
		b, err := rlp.EncodeToBytes(r)
		if err != nil {
			panic(err)
		}
		buf = append(buf, b...)
		buf = append(buf, r.TxHash.Bytes()...)
		buf = append(buf, r.ContractAddress.Bytes()...)
		buf = append(buf, []byte(fmt.Sprintf("|%d|", r.GasUsed))...)
	}
	return hex.EncodeToString(crypto.Keccak256(buf)[:8])
}

func ssigOf(root common.Hash, sdb state.Database) string {
	s, err := state.New(root, sdb)
	if err != nil {
		return "-"
	}
	d := s.RawDump()
	b, _ := json.Marshal(d)
	return hex.EncodeToString(crypto.Keccak256(b)[:8])
}

func newVTree(name, cfgName string, rng *rand.Rand) *vtree {
	cfg := vConfigs()[cfgName]
	t := &vtree{name: name, cfg: cfg, cfgName: cfgName, gendb: aquadb.NewMemDatabase(),
		byHash: map[common.Hash]*vblk{}, txid: map[common.Hash]string{}}
	alloc := GenesisAlloc{}
	for i := 0; i < 4; i++ {
		k := vkey(i)
		t.keys = append(t.keys, k)
		alloc[vaddr(k)] = GenesisAccount{Balance: new(big.Int).Mul(big.NewInt(1000000), big.NewInt(1e12))}
	}
	// a pre-existing empty account and a pre-existing contract with storage
	alloc[common.HexToAddress("0x00000000000000000000000000000000000e3b7e")] = GenesisAccount{Balance: new(big.Int)}
	alloc[common.HexToAddress("0x00000000000000000000000000000000000c0de1")] = GenesisAccount{Balance: big.NewInt(5),
		Code: vStoreContract(), Storage: map[common.Hash]common.Hash{common.HexToHash("0x01"): common.HexToHash("0x02")}}
	// an account on the HF4 de-allocation list (zeroed at the HF4 height)
	alloc[common.HexToAddress("0x962cd22a8edf1e4f4e55b4b15ddbfb5d9d541971")] = GenesisAccount{Balance: big.NewInt(123456789)}
	t.gspec = &Genesis{Config: cfg, GasLimit: 4712388, Difficulty: big.NewInt(131072), Alloc: alloc}
	g := t.gspec.MustCommit(t.gendb)
	t.genesis = &vblk{id: "g", b: g, valid: true, uncled: map[common.Hash]bool{},
		contracts: []common.Address{common.HexToAddress("0x00000000000000000000000000000000000c0de1")}}
	t.genesis.ssig = ssigOf(g.Root(), state.NewDatabase(t.gendb))
	t.genesis.rsig = rsigOf(nil)
	t.blocks = []*vblk{t.genesis}
	t.byHash[g.Hash()] = t.genesis
	_ = rng
	return t
}

func (t *vtree) isAncestor(a, b *vblk) bool { // a is b or an ancestor of b
	for x := b; x != nil; x = x.parent {
		if x == a {
			return true
		}
	}
	return false
}

func (t *vtree) ancestorAt(b *vblk, gen int) *vblk {
	x := b
	for i := 0; i < gen && x != nil; i++ {
		x = x.parent
	}
	return x
}

// content knobs
type vcontent struct {
	txProb    float64 // probability that a block carries transactions
	maxTx     int
	uncleProb float64
	offsets   []int64
	replay    float64 // probability that a transaction slot re-uses a transaction of another branch
	bulk      int     // this many plain transfers to fresh addresses per block (large trie commits)
}

var vRich = vcontent{txProb: 0.75, maxTx: 4, uncleProb: 0.25, offsets: []int64{-230, -200, -200, -100, 0, 0, 100, 1000}, replay: 0.35}
var vLean = vcontent{txProb: 0.08, maxTx: 1, uncleProb: 0.02, offsets: []int64{-230, -200, 0, 0, 0, 1000}, replay: 0.3}
var vNone = vcontent{txProb: 0, maxTx: 1}
var vReplay = vcontent{txProb: 1, maxTx: 3, replay: 0.95}

// extend grows a segment of n blocks on top of parent and returns the new blocks.
// fixedOffset, when non-nil, is used for every block of the segment (branch "speed").
func (t *vtree) extend(rng *rand.Rand, parent *vblk, n int, ct vcontent, fixedOffset *int64) []*vblk {
	signer := types.NewEIP155Signer(t.cfg.ChainId)
	out := make([]*vblk, 0, n)
	cur := parent
	type pend struct {
		contracts []common.Address
		uncled    map[common.Hash]bool
	}
	pends := make([]pend, n)
	var (
		blocks   []*types.Block
		receipts []types.Receipts
	)
	// the repository's own block builder (GenerateChain -> ApplyTransaction -> StateDB) crashing on a valid sequence of blocks is an
	// observation about the code, not about the driver: it is carried to the top of the test as a genFailure and recorded
	defer func() {
		if r := recover(); r != nil {
			if _, ok := r.(genFailure); ok {
				panic(r)
			}
			panic(genFailure{fmt.Sprint(r)})
		}
	}()
	blocks, receipts = GenerateChain(context.TODO(), t.cfg, parent.b, aquahash.NewFaker(), t.gendb, n, func(i int, bg *BlockGen) {
		// ancestry of the block being built
		par := cur
		if i > 0 {
			par = nil // blocks inside the segment are linear; handled via pends
		}
		_ = par
		contracts := append([]common.Address{}, parent.contracts...)
		uncled := map[common.Hash]bool{}
		for h := range parent.uncled {
			uncled[h] = true
		}
		if i > 0 {
			contracts = append([]common.Address{}, pends[i-1].contracts...)
			uncled = map[common.Hash]bool{}
			for h := range pends[i-1].uncled {
				uncled[h] = true
			}
		}
		cb := rng.Intn(3)
		if t.oneCoinbase { // sibling blocks with the same content then have the same state root
			cb = 0
		}
		bg.SetCoinbase(common.BigToAddress(big.NewInt(int64(0xc0ffee00 + cb))))
		bg.SetExtra([]byte(fmt.Sprintf("v%d.%d", len(t.blocks), i))) // no two generated blocks are identical
		if i == 0 {
			for _, ftx := range t.forced {
				t.addTx(bg, ftx)
			}
		}
		for j := 0; j < ct.bulk; j++ {
			k := t.keys[j%len(t.keys)]
			to := common.BigToAddress(new(big.Int).SetUint64(rng.Uint64() | 1<<40))
			stx, err := types.SignTx(types.NewTransaction(bg.TxNonce(vaddr(k)), to, big.NewInt(1+int64(j)), 21000, big.NewInt(1e9), nil), signer, k)
			if err != nil {
				panic(err)
			}
			t.addTx(bg, stx)
		}
		if rng.Float64() < ct.txProb {
			ntx := 1 + rng.Intn(ct.maxTx)
			for j := 0; j < ntx; j++ {
				// sometimes replay a transaction that already sits on another branch
				if !t.scripted && len(t.txs) > 0 && rng.Float64() < ct.replay {
					var cands []*types.Transaction
					for _, tx := range t.txs {
						from, _ := types.Sender(signer, tx)
						if tx.To() == nil || !bg.statedb.Exist(from) || bg.TxNonce(from) != tx.Nonce() ||
							bg.statedb.GetBalance(from).Cmp(tx.Cost()) < 0 {
							continue
						}
						cands = append(cands, tx)
					}
					if len(cands) > 0 {
						t.addTx(bg, cands[rng.Intn(len(cands))])
						continue
					}
				}
				k := t.keys[rng.Intn(len(t.keys))]
				if t.scripted {
					k = t.keys[2+rng.Intn(len(t.keys)-2)]
				}
				from := vaddr(k)
				nonce := bg.TxNonce(from)
				price := big.NewInt(int64(1+rng.Intn(3)) * 1e9)
				var tx *types.Transaction
				switch r := rng.Intn(10); {
				case r < 4: // plain transfer (to a key, a fresh address, the empty account or a contract)
					var to common.Address
					switch rng.Intn(4) {
					case 0:
						to = vaddr(t.keys[rng.Intn(len(t.keys))])
					case 1:
						to = common.BigToAddress(big.NewInt(int64(0xabc000 + rng.Intn(50))))
					case 2:
						to = common.HexToAddress("0x00000000000000000000000000000000000e3b7e")
					default:
						to = contracts[rng.Intn(len(contracts))]
					}
					gas := uint64(21000)
					if rng.Intn(2) == 0 {
						gas = 200000
					}
					tx = types.NewTransaction(nonce, to, big.NewInt(int64(rng.Intn(1000))), gas, price, nil)
				case r < 6: // contract creation
					tx = types.NewContractCreation(nonce, big.NewInt(int64(rng.Intn(3))), 500000, price, vInitCode(vStoreContractV(rng.Intn(3)*7), rng.Intn(2) == 0))
					contracts = append(contracts, crypto.CreateAddress(from, nonce))
				default: // contract call: storage writes, clears, logs, self-destruct
					to := contracts[rng.Intn(len(contracts))]
					var data []byte
					switch rng.Intn(6) {
					case 0:
						data = nil // x = 0: clears slot 0, writes 1..5
					case 1:
						data = append([]byte{0xff}, make([]byte, 31)...)
					default:
						data = make([]byte, 64)
						rng.Read(data[24:32])
						data[0] = byte(rng.Intn(0xf0))
						copy(data[44:], contracts[rng.Intn(len(contracts))].Bytes()) // EXTCODESIZE target
					}
					gasl := uint64(300000)
					if rng.Intn(5) == 0 {
						gasl = 30000 + uint64(rng.Intn(40000)) // may run out of gas: failed tx
					}
					tx = types.NewTransaction(nonce, to, big.NewInt(int64(rng.Intn(5))), gasl, price, data)
				}
				stx, err := types.SignTx(tx, signer, k)
				if err != nil {
					panic(err)
				}
				t.addTx(bg, stx)
			}
		}
		// uncles: a tree block whose parent is an ancestor of generation 2..7 of this block
		if rng.Float64() < ct.uncleProb {
			// ancestors: generation 1 = parent of the block being built
			var anc []*vblk
			if i == 0 {
				for x, g := parent, 1; x != nil && g <= 7; x, g = x.parent, g+1 {
					anc = append(anc, x)
				}
			}
			// only for the first block of a segment (its ancestry is entirely in the tree already)
			if len(anc) >= 2 {
				onPath := map[*vblk]bool{}
				for _, a := range anc {
					onPath[a] = true
				}
				var cands []*vblk
				for gi := 1; gi < len(anc); gi++ { // anc[gi] is generation gi+1 >= 2
					for _, c := range anc[gi].children {
						if !onPath[c] && c.valid && !uncled[c.b.Hash()] {
							cands = append(cands, c)
						}
					}
				}
				if len(cands) > 0 {
					u := cands[rng.Intn(len(cands))]
					bg.AddUncle(u.b.Header())
					uncled[u.b.Hash()] = true
				}
			}
		}
		if fixedOffset != nil {
			if *fixedOffset != 0 {
				bg.OffsetTime(*fixedOffset)
			}
		} else if off := ct.offsets[rng.Intn(len(ct.offsets))]; off != 0 {
			bg.OffsetTime(off)
		}
		pends[i] = pend{contracts: contracts, uncled: uncled}
	})
	sdb := state.NewDatabase(t.gendb)
	for i, b := range blocks {
		vb := &vblk{id: fmt.Sprintf("b%d", len(t.blocks)), b: b, parent: cur, rcpts: receipts[i], valid: true,
			contracts: pends[i].contracts, uncled: pends[i].uncled}
		vb.rsig = rsigOf(receipts[i])
		vb.ssig = ssigOf(b.Root(), sdb)
		cur.children = append(cur.children, vb)
		t.blocks = append(t.blocks, vb)
		t.byHash[b.Hash()] = vb
		WriteHeader(t.gendb, b.Header()) // for the generator's BLOCKHASH lookups (see addTx)
		if b.NumberU64() > t.maxNum {
			t.maxNum = b.NumberU64()
		}
		for _, tx := range b.Transactions() {
			if _, ok := t.txid[tx.Hash()]; !ok {
				t.txid[tx.Hash()] = fmt.Sprintf("t%d", len(t.txid)+1)
				t.txs = append(t.txs, tx)
			}
		}
		out = append(out, vb)
		cur = vb
	}
	return out
}

// corrupt makes an invalid sibling of a valid block by altering exactly one commitment or body element
func (t *vtree) corrupt(rng *rand.Rand, v *vblk) *vblk { return t.corruptKind(rng, v, "") }

// corruptKind: the same with the kind of alteration chosen by the caller ("" = any)
func (t *vtree) corruptKind(rng *rand.Rand, v *vblk, want string) *vblk {
	h := types.CopyHeader(v.b.Header())
	txs := v.b.Transactions()
	uncles := v.b.Uncles()
	kinds := []string{"root", "receipthash", "bloom", "gasused+", "gasused-", "txhash", "unclehash"}
	if len(txs) > 0 {
		kinds = append(kinds, "droptx", "droptx")
	}
	if len(txs) > 1 {
		kinds = append(kinds, "swaptx", "swaptx")
	}
	kinds = append(kinds, "adduncle")
	kind := kinds[rng.Intn(len(kinds))]
	if want != "" {
		kind = want
	}
	flip := func(x common.Hash) common.Hash { x[rng.Intn(32)] ^= byte(1 << uint(rng.Intn(8))); return x }
	switch kind {
	case "root":
		h.Root = flip(h.Root)
	case "receipthash":
		h.ReceiptHash = flip(h.ReceiptHash)
	case "txhash":
		h.TxHash = flip(h.TxHash)
	case "unclehash":
		h.UncleHash = flip(h.UncleHash)
	case "bloom":
		h.Bloom[rng.Intn(len(h.Bloom))] ^= byte(1 << uint(rng.Intn(8)))
	case "gasused+":
		h.GasUsed++
	case "gasused-":
		if h.GasUsed == 0 {
			h.GasUsed = 1
		} else {
			h.GasUsed--
		}
	case "droptx":
		i := rng.Intn(len(txs))
		n := append(types.Transactions{}, txs[:i]...)
		txs = append(n, txs[i+1:]...)
	case "swaptx":
		n := append(types.Transactions{}, txs...)
		i := rng.Intn(len(n) - 1)
		n[i], n[i+1] = n[i+1], n[i]
		txs = n
	case "adduncle":
		uncles = append(append([]*types.Header{}, uncles...), types.CopyHeader(v.parent.b.Header()))
	}
	nb := types.NewBlockWithHeader(h).WithBody(txs, uncles)
	if nb.Hash() == v.b.Hash() {
		// body-only edits keep the header (and the hash): import must still refuse the altered body
	}
	c := &vblk{id: fmt.Sprintf("x%d", len(t.blocks)), b: nb, parent: v.parent, valid: false, corrupt: kind, rsig: "-", ssig: "-"}
	t.blocks = append(t.blocks, c)
	return c
}

// corruptHeader: a copy of v whose HEADER breaks one consensus rule relative to its parent (difficulty, timestamp, extra-data
// length, gas limit step); the body is untouched
func (t *vtree) corruptHeader(rng *rand.Rand, v *vblk) *vblk {
	h := types.CopyHeader(v.b.Header())
	kind := []string{"h-difficulty", "h-time", "h-extra", "h-gaslimit", "h-gasused"}[rng.Intn(5)]
	switch kind {
	case "h-difficulty":
		h.Difficulty = new(big.Int).Add(h.Difficulty, big.NewInt(1))
	case "h-time":
		h.Time = new(big.Int).Set(v.parent.b.Time())
	case "h-extra":
		h.Extra = make([]byte, 33)
	case "h-gaslimit":
		pl := v.parent.b.GasLimit()
		h.GasLimit = pl + pl/1024
	case "h-gasused":
		h.GasUsed = h.GasLimit + 1
	}
	nb := types.NewBlockWithHeader(h).WithBody(v.b.Transactions(), v.b.Uncles())
	c := &vblk{id: fmt.Sprintf("x%d", len(t.blocks)), b: nb, parent: v.parent, valid: false, corrupt: kind, rsig: "-", ssig: "-"}
	t.blocks = append(t.blocks, c)
	return c
}

// JSON description of the tree for the trace header
type vblkJSON struct {
	ID      string   `json:"id"`
	Parent  string   `json:"parent"`
	Num     int      `json:"num"`
	Diff    []int    `json:"diff"`
	Txs     []string `json:"txs"`
	Valid   bool     `json:"valid"`
	Rsig    string   `json:"rsig"`
	Ssig    string   `json:"ssig"`
	Corrupt string   `json:"corrupt,omitempty"`
	Uncles  int      `json:"uncles"`
	SameAs  string   `json:"sameas,omitempty"` // corrupted body with the hash of this valid block
}

func (t *vtree) describe() map[string]interface{} {
	var bl []vblkJSON
	for _, v := range t.blocks {
		j := vblkJSON{ID: v.id, Parent: "-", Num: int(v.b.NumberU64()), Diff: limbs(v.b.Difficulty()), Valid: v.valid,
			Rsig: v.rsig, Ssig: v.ssig, Corrupt: v.corrupt, Uncles: len(v.b.Uncles()), Txs: []string{}}
		if v.parent != nil {
			j.Parent = v.parent.id
		}
		for _, tx := range v.b.Transactions() {
			j.Txs = append(j.Txs, t.txid[tx.Hash()])
		}
		if !v.valid {
			if o, ok := t.byHash[v.b.Hash()]; ok {
				j.SameAs = o.id
			}
		}
		bl = append(bl, j)
	}
	all := []string{}
	for i := range t.txs {
		all = append(all, fmt.Sprintf("t%d", i+1))
	}
	return map[string]interface{}{"e": "tree", "name": t.name, "cfg": t.cfgName, "blocks": bl, "alltx": all, "maxn": int(t.maxNum) + 2}
}

// BlockGen.AddTx hands the EVM a nil chain, so BLOCKHASH cannot be used in generated blocks; this is AddTx with a chain whose
// header store (the generator's database) holds the headers of the tree built so far and of the segment being generated.
func (t *vtree) chainCtx() *BlockChain {
	if t.cc == nil {
		hc, err := NewHeaderChain(context.TODO(), t.gendb, t.cfg, aquahash.NewFaker(), func() bool { return false })
		if err != nil {
			panic(err)
		}
		t.cc = &BlockChain{hc: hc, engine: aquahash.NewFaker()}
	}
	return t.cc
}

func (t *vtree) addTx(b *BlockGen, tx *types.Transaction) {
	if b.gasPool == nil {
		b.SetCoinbase(common.Address{})
	}
	if b.parent != nil {
		WriteHeader(t.gendb, b.parent.Header())
	}
	for _, blk := range b.chain {
		if blk != nil {
			WriteHeader(t.gendb, blk.Header())
		}
	}
	b.statedb.Prepare(tx.Hash(), common.Hash{}, len(b.txs))
	receipt, _, err := ApplyTransaction(b.config, t.chainCtx(), &b.header.Coinbase, b.gasPool, b.statedb, b.header, tx, &b.header.GasUsed, vm.Config{})
	if err != nil {
		panic(err)
	}
	b.txs = append(b.txs, tx)
	b.receipts = append(b.receipts, receipt)
}

type genFailure struct{ err string }

// recordGenFailure is deferred by the chain-family tests: a crash of the block builder becomes a "genfail" trace line
func recordGenFailure(w *vwriter, stat func()) {
	if r := recover(); r != nil {
		g, ok := r.(genFailure)
		if !ok {
			panic(r)
		}
		e := g.err
		if len(e) > 200 {
			e = e[:200]
		}
		w.emit(map[string]interface{}{"e": "genfail", "err": e})
		stat()
	}
}
