//go:build verif

package core

// Direction A: replay of TLC-generated histories (ChainGen.tla) on the real core.BlockChain.
// The abstract tree (parents, weight class, shared transactions) is realised with real blocks; the
// abstract operations are mapped 1:1 to API calls. Observations are recorded exactly as in the random
// driver and judged by ChainTrace.tla from the REAL difficulties, never from the model's prediction.

import (
	"bufio"
	"encoding/json"
	"fmt"
	"math/big"
	"math/rand"
	"os"
	"testing"

	"gitlab.com/aquachain/aquachain/core/types"
)

type vscriptBlock struct {
	ID     string   `json:"id"`
	Parent string   `json:"parent"`
	W      int      `json:"w"`
	Txs    []string `json:"txs"`
}
type vscriptOp struct {
	Op string `json:"op"`
	B  string `json:"b"`
	N  int    `json:"n"`
}
type vscript struct {
	Blocks []vscriptBlock `json:"blocks"`
	Ops    []vscriptOp    `json:"ops"`
	Mode   string         `json:"mode"`
}

func (t *vtree) sharedTx(name string) *types.Transaction {
	ki := map[string]int{"t1": 0, "t2": 1}[name]
	signer := types.NewEIP155Signer(t.cfg.ChainId)
	tx, err := types.SignTx(types.NewTransaction(0, vaddr(t.keys[2]), big.NewInt(777), 21000, big.NewInt(1e9), nil), signer, t.keys[ki])
	if err != nil {
		panic(err)
	}
	return tx
}

func realise(rng *rand.Rand, name string, sc *vscript) (*vtree, map[string]*vblk) {
	t := newVTree(name, "steep", rng)
	t.scripted = true
	by := map[string]*vblk{"g": t.genesis}
	ct := vcontent{txProb: 0.5, maxTx: 2, uncleProb: 0.2}
	for _, b := range sc.Blocks {
		t.forced = nil
		for _, tx := range b.Txs {
			t.forced = append(t.forced, t.sharedTx(tx))
		}
		off := int64(0)
		if b.W >= 2 {
			off = -200
		}
		nb := t.extend(rng, by[b.Parent], 1, ct, &off)
		by[b.ID] = nb[0]
	}
	t.forced = nil
	return t, by
}

func TestVerifChainScript(t *testing.T) {
	out, in := os.Getenv("VERIF_OUT"), os.Getenv("VERIF_SCRIPT")
	if out == "" || in == "" {
		t.Skip("VERIF_OUT / VERIF_SCRIPT not set")
	}
	seed := int64(envInt("VERIF_SEED", 1))
	f, err := os.Open(in)
	if err != nil {
		t.Fatal(err)
	}
	defer f.Close()
	w := newVWriter(out)
	defer w.close()
	rng := rand.New(rand.NewSource(seed*31 + 5))
	nscripts := 0
	ngroups := 0
	defer recordGenFailure(w, func() { fmt.Printf("VERIF-STAT trees=%d scripts=%d events=%d\n", ngroups, nscripts, w.n) })
	// group scripts by tree
	type group struct {
		key string
		scs []*vscript
	}
	var groups []*group
	idx := map[string]*group{}
	r := bufio.NewReaderSize(f, 1<<20)
	dec := json.NewDecoder(r)
	for dec.More() {
		var sc vscript
		if err := dec.Decode(&sc); err != nil {
			t.Fatal(err)
		}
		kb, _ := json.Marshal(sc.Blocks)
		g := idx[string(kb)]
		if g == nil {
			g = &group{key: string(kb)}
			idx[string(kb)] = g
			groups = append(groups, g)
		}
		g.scs = append(g.scs, &sc)
	}
	ngroups = len(groups)
	for gi, g := range groups {
		tr, by := realise(rng, fmt.Sprintf("script-%d", gi), g.scs[0])
		w.emit(tr.describe())
		for si, sc := range g.scs {
			mode := []string{"archive", "pruning"}[(gi+si)%2]
			n := tr.newNode(w, mode, fmt.Sprintf("script-%d-%d", gi, si))
			for _, op := range sc.Ops {
				switch op.Op {
				case "insert":
					n.insert([]*vblk{by[op.B]})
				case "headers":
					n.insertHeaders([]*vblk{by[op.B]})
				case "sethead":
					n.setHead(uint64(op.N))
				}
			}
			n.stop()
			nscripts++
		}
	}
	fmt.Printf("VERIF-STAT trees=%d scripts=%d events=%d\n", len(groups), nscripts, w.n)
}
