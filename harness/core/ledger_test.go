//go:build verif

package core

// C05 / C06 driver: every block of seeded random trees is re-executed transaction by transaction through
// core.ApplyTransaction (with a vm.Tracer) and engine.Finalize on the real StateDB; balances, nonces, gas
// and supply are recorded as limb numbers. Hand-made blocks with one offending transaction are offered to
// StateProcessor.Process / InsertChain. TLC (LedgerTrace.tla) judges.

import (
	"context"
	"fmt"
	"math/big"
	"math/rand"
	"os"
	"sort"
	"testing"
	"time"

	"gitlab.com/aquachain/aquachain/aquadb"
	"gitlab.com/aquachain/aquachain/common"
	"gitlab.com/aquachain/aquachain/consensus/aquahash"
	"gitlab.com/aquachain/aquachain/consensus/misc"
	"gitlab.com/aquachain/aquachain/core/state"
	"gitlab.com/aquachain/aquachain/core/types"
	"gitlab.com/aquachain/aquachain/core/vm"
	"gitlab.com/aquachain/aquachain/crypto"
)

// ledgerTracer: read-only observer of one transaction
type ledgerTracer struct {
	st        *state.StateDB
	execGas   uint64 // gas used by the EVM run (excludes intrinsic gas)
	refund    uint64 // refund counter at the end of the run (before refundGas)
	suicides  int
	valueCall int // CALL / CALLCODE / CREATE with non-zero value seen
	ended     bool
}

func (t *ledgerTracer) CaptureStart(from, to common.Address, call bool, input []byte, gas uint64, value *big.Int) error {
	return nil
}
func (t *ledgerTracer) CaptureState(env *vm.EVM, pc uint64, op vm.OpCode, gas, cost uint64, memory *vm.Memory, stack *vm.Stack, contract *vm.Contract, depth int, err error) error {
	switch op {
	case vm.SELFDESTRUCT:
		t.suicides++
	case vm.CALL, vm.CALLCODE:
		if len(stack.Data()) >= 3 && stack.Back(2).Sign() != 0 {
			t.valueCall++
		}
	case vm.CREATE:
		if len(stack.Data()) >= 1 && stack.Back(0).Sign() != 0 {
			t.valueCall++
		}
	}
	return nil
}
func (t *ledgerTracer) CaptureFault(env *vm.EVM, pc uint64, op vm.OpCode, gas, cost uint64, memory *vm.Memory, stack *vm.Stack, contract *vm.Contract, depth int, err error) error {
	return nil
}
func (t *ledgerTracer) CaptureEnd(output []byte, gasUsed uint64, tm time.Duration, err error) error {
	t.execGas = gasUsed
	t.refund = t.st.GetRefund()
	t.ended = true
	return nil
}

// every address that exists before or after the block (from the committed dumps)
func universeOf(sdb state.Database, roots ...common.Hash) []common.Address {
	set := map[common.Address]bool{}
	for _, r := range roots {
		st, err := state.New(r, sdb)
		if err != nil {
			panic(err)
		}
		for a := range st.RawDump().Accounts {
			set[common.HexToAddress(a)] = true
		}
	}
	var out []common.Address
	for a := range set {
		out = append(out, a)
	}
	sort.Slice(out, func(i, j int) bool { return out[i].Hex() < out[j].Hex() })
	return out
}

func supplyOf(st *state.StateDB, uni []common.Address) *big.Int {
	s := new(big.Int)
	for _, a := range uni {
		s.Add(s, st.GetBalance(a))
	}
	return s
}

// digest of everything except the given addresses: balance, nonce, code hash, storage slots 0..9
func restDigest(st *state.StateDB, uni []common.Address, skip ...common.Address) string {
	var buf []byte
	for _, a := range uni {
		sk := false
		for _, s := range skip {
			if s == a {
				sk = true
			}
		}
		if sk {
			continue
		}
		buf = append(buf, a.Bytes()...)
		buf = append(buf, st.GetBalance(a).Bytes()...)
		buf = append(buf, byte(st.GetNonce(a)), byte(st.GetNonce(a)>>8))
		ch := st.GetCodeHash(a) // an absent account and an account without code read the same
		if ch == emptyCodeHashV {
			ch = common.Hash{}
		}
		buf = append(buf, ch.Bytes()...)
		for i := 0; i < 10; i++ {
			buf = append(buf, st.GetState(a, common.BigToHash(big.NewInt(int64(i)))).Bytes()...)
		}
	}
	return fmt.Sprintf("%x", crypto.Keccak256(buf)[:8])
}

func countData(d []byte) (z, nz int) {
	for _, b := range d {
		if b == 0 {
			z++
		} else {
			nz++
		}
	}
	return
}

// replay one block transaction by transaction and emit ledger events
func ledgerBlock(t *vtree, v *vblk, w *vwriter) {
	sdb := state.NewDatabase(t.gendb)
	st, err := state.New(v.parent.b.Root(), sdb)
	if err != nil {
		panic(err)
	}
	header := types.CopyHeader(v.b.Header())
	uni := universeOf(sdb, v.parent.b.Root(), v.b.Root())
	num := header.Number
	{ // plus every address the block names: an account may be created and destroyed inside the block
		seen := map[common.Address]bool{}
		for _, a := range uni {
			seen[a] = true
		}
		add := func(a common.Address) {
			if !seen[a] {
				seen[a] = true
				uni = append(uni, a)
			}
		}
		sg := types.MakeSigner(t.cfg, num)
		add(header.Coinbase)
		for _, u := range v.b.Uncles() {
			add(u.Coinbase)
		}
		for _, tx := range v.b.Transactions() {
			f, _ := types.Sender(sg, tx)
			add(f)
			if tx.To() != nil {
				add(*tx.To())
			} else {
				add(crypto.CreateAddress(f, tx.Nonce()))
			}
		}
	}
	hf4 := false
	if h := t.cfg.GetHF(4); h != nil && h.Cmp(num) == 0 {
		hf4 = true
	}
	supply0 := supplyOf(st, uni)
	if hf4 {
		misc.ApplyHardFork4(st)
	}
	if h := t.cfg.GetHF(5); h != nil && h.Cmp(num) == 0 {
		misc.ApplyHardFork5(st)
	}
	supplyAfterHF := supplyOf(st, uni)
	gp := new(GasPool).AddGas(header.GasLimit)
	usedGas := uint64(0)
	signer := types.MakeSigner(t.cfg, num)
	totalSuicides := 0
	var receipts types.Receipts
	sumReceiptGas := uint64(0)
	bc, _ := NewBlockChain(context.TODO(), t.gendb, nil, t.cfg, aquahash.NewFaker(), vm.Config{})
	defer bc.Stop()
	for i, tx := range v.b.Transactions() {
		from, _ := types.Sender(signer, tx)
		cb := header.Coinbase
		var to common.Address
		create := tx.To() == nil
		if !create {
			to = *tx.To()
		} else {
			to = crypto.CreateAddress(from, tx.Nonce())
		}
		tr := &ledgerTracer{st: st}
		pre := map[string]interface{}{"sbal": limbs(st.GetBalance(from)), "cbal": limbs(st.GetBalance(cb)), "tbal": limbs(st.GetBalance(to)),
			"nonce": int(st.GetNonce(from))}
		sup0 := supplyOf(st, uni)
		rest0 := restDigest(st, uni, from, cb)
		dbgPre := map[common.Address]string{}
		if os.Getenv("VERIF_DEBUG") != "" {
			for _, a := range uni {
				dbgPre[a] = restDigest(st, []common.Address{a})
			}
		}
		poolBefore := gp.Gas()
		refundStart := st.GetRefund()
		st.Prepare(tx.Hash(), common.Hash{}, i)
		rcpt, gas, err := ApplyTransaction(t.cfg, bc, nil, gp, st, header, tx, &usedGas, vm.Config{Tracer: tr, Debug: true})
		if err != nil {
			w.emit(map[string]interface{}{"e": "txerr", "blk": v.id, "i": i, "err": errClass(err)})
			return
		}
		receipts = append(receipts, rcpt)
		sumReceiptGas += rcpt.GasUsed
		z, nz := countData(tx.Data())
		codeAfter := len(st.GetCode(to))
		if os.Getenv("VERIF_DEBUG") != "" && rcpt.Status == types.ReceiptStatusFailed && rest0 != restDigest(st, uni, from, cb) {
			for _, a := range uni {
				if a == from || a == cb {
					continue
				}
				if dbgPre[a] != restDigest(st, []common.Address{a}) {
					fmt.Printf("DBG %s tx%d addr %x changed: bal %v nonce %d code %x\n", v.id, i, a, st.GetBalance(a), st.GetNonce(a), st.GetCodeHash(a))
				}
			}
		}
		totalSuicides += tr.suicides
		w.emit(map[string]interface{}{"e": "tx", "blk": v.id, "i": i, "cfg": t.cfgName, "num": int(num.Int64()),
			"create": create, "sameSC": from == cb, "sameST": from == to, "sameCT": cb == to,
			"pre": pre,
			"post": map[string]interface{}{"sbal": limbs(st.GetBalance(from)), "cbal": limbs(st.GetBalance(cb)), "tbal": limbs(st.GetBalance(to)),
				"nonce": int(st.GetNonce(from))},
			"gasLimit": int(tx.Gas()), "price": limbs(tx.GasPrice()), "value": limbs(tx.Value()), "zeros": z, "nonzeros": nz,
			"gasUsed": int(gas), "rcptGas": int(rcpt.GasUsed), "cumGas": int(rcpt.CumulativeGasUsed), "sumGas": int(sumReceiptGas),
			"failed": rcpt.Status == types.ReceiptStatusFailed, "hasStatus": len(rcpt.PostState) == 0,
			"execGas": int(tr.execGas), "refund": int(tr.refund) - int(refundStart), "refundStart": int(refundStart), "ended": tr.ended,
			"suicides": tr.suicides, "valueCalls": tr.valueCall, "nlogs": len(rcpt.Logs),
			"codeAfter": codeAfter, "restSame": rest0 == restDigest(st, uni, from, cb),
			"supplyBefore": limbs(sup0), "supplyAfter": limbs(supplyOf(st, uni)),
			"poolBefore": int(poolBefore), "poolAfter": int(gp.Gas()), "blockGasLimit": int(header.GasLimit),
			"homestead": t.cfg.IsHomestead(num)})
	}
	// block reward
	supTx := supplyOf(st, uni)
	engine := aquahash.NewFaker()
	engine.Finalize(bc, header, st, v.b.Transactions(), v.b.Uncles(), receipts)
	supEnd := supplyOf(st, uni)
	uh := []int{}
	for _, u := range v.b.Uncles() {
		uh = append(uh, int(u.Number.Int64()))
	}
	// the committed post-state of the block as the generator/importer produced it
	stFinal, _ := state.New(v.b.Root(), sdb)
	w.emit(map[string]interface{}{"e": "block", "blk": v.id, "cfg": t.cfgName, "num": int(num.Int64()), "uncles": uh,
		"supply0": limbs(supply0), "supplyAfterHF": limbs(supplyAfterHF), "supplyTx": limbs(supTx), "supplyEnd": limbs(supEnd),
		"supplyCommitted": limbs(supplyOf(stFinal, uni)), "suicides": totalSuicides, "hf4": hf4,
		"headerGasUsed": int(v.b.GasUsed()), "sumGas": int(sumReceiptGas), "blockGasLimit": int(header.GasLimit)})
}

// blocks with exactly one offending transaction must be refused
func ledgerBadBlocks(rng *rand.Rand, t *vtree, w *vwriter) {
	signer := types.NewEIP155Signer(t.cfg.ChainId)
	parent := t.blocks[len(t.blocks)-1]
	for parent != nil && !parent.valid {
		parent = parent.parent
	}
	sdb := state.NewDatabase(t.gendb)
	pst, _ := state.New(parent.b.Root(), sdb)
	k := t.keys[3]
	from := vaddr(k)
	nonce := pst.GetNonce(from)
	bal := pst.GetBalance(from)
	price := big.NewInt(1e9)
	mk := func(n uint64, value *big.Int, gas uint64, p *big.Int, data []byte) *types.Transaction {
		tx, err := types.SignTx(types.NewTransaction(n, common.HexToAddress("0xdead"), value, gas, p, data), signer, k)
		if err != nil {
			panic(err)
		}
		return tx
	}
	gasCost := new(big.Int).Mul(big.NewInt(21000), price)
	cases := []struct {
		kind string
		txs  []*types.Transaction
	}{
		{"ok", []*types.Transaction{mk(nonce, big.NewInt(1), 21000, price, nil)}},
		{"nonce+1", []*types.Transaction{mk(nonce+1, big.NewInt(1), 21000, price, nil)}},
		{"cannot-prepay-gas", []*types.Transaction{mk(nonce, big.NewInt(0), 21000, new(big.Int).Add(new(big.Int).Div(bal, big.NewInt(21000)), big.NewInt(1)), nil)}},
		{"cannot-pay-value", []*types.Transaction{mk(nonce, new(big.Int).Add(new(big.Int).Sub(bal, gasCost), big.NewInt(1)), 21000, price, nil)}},
		{"value-exactly-affordable", []*types.Transaction{mk(nonce, new(big.Int).Sub(bal, gasCost), 21000, price, nil)}},
		{"gas-below-intrinsic", []*types.Transaction{mk(nonce, big.NewInt(1), 21000+68*3-1, price, []byte{1, 2, 3})}},
		{"gas-exactly-intrinsic", []*types.Transaction{mk(nonce, big.NewInt(1), 21000+68*3, price, []byte{1, 2, 3})}},
		{"gas-above-block-left", []*types.Transaction{mk(nonce, big.NewInt(1), parent.b.GasLimit()+100000, price, nil)}},
	}
	if nonce > 0 {
		cases = append(cases, struct {
			kind string
			txs  []*types.Transaction
		}{"nonce-1", []*types.Transaction{mk(nonce-1, big.NewInt(1), 21000, price, nil)}})
	}
	for _, c := range cases {
		// a block assembled around the transaction: header fields as the generator would set them
		blocks, _ := GenerateChain(context.TODO(), t.cfg, parent.b, aquahash.NewFaker(), t.gendb, 1, nil)
		h := types.CopyHeader(blocks[0].Header())
		blk := types.NewBlock(h, c.txs, nil, nil)
		st, _ := state.New(parent.b.Root(), sdb)
		bc, _ := NewBlockChain(context.TODO(), t.gendb, nil, t.cfg, aquahash.NewFaker(), vm.Config{})
		_, _, _, err := bc.Processor().Process(blk, st, vm.Config{})
		bc.Stop()
		w.emit(map[string]interface{}{"e": "badblock", "kind": c.kind, "expectError": c.kind != "ok" && c.kind != "value-exactly-affordable" && c.kind != "gas-exactly-intrinsic",
			"err": errClass(err)})
	}
}

// contracts for value-flow corner cases
func asmSuicideTo(b common.Address) []byte { return newAsm().pushN(b.Bytes()).op(0xff).bytes() }
func asmRevert() []byte                  { return newAsm().push1(0).push1(0).op(0xfd).bytes() }
func asmCalls(target common.Address, values []byte) []byte {
	a := newAsm()
	for _, v := range values {
		a.push1(0).push1(0).push1(0).push1(0).push1(v).pushN(target.Bytes()).pushN([]byte{0x01, 0x86, 0xa0}).op(0xf1).op(0x50)
	}
	return a.op(0x00).bytes()
}

// a tree whose blocks exercise: repeated SELFDESTRUCT of one contract inside one transaction with value sent in
// between, self-destruct to self / to the sender / to the coinbase, value calls into a reverting callee, a value-bearing
// creation whose init code reverts
func buildLedgerSpecial(rng *rand.Rand, name, cfgName string) *vtree {
	t := newVTree(name, cfgName, rng)
	signer := types.NewEIP155Signer(t.cfg.ChainId)
	norm := int64(0)
	nonces := map[int]uint64{}
	sign := func(k int, tx *types.Transaction) *types.Transaction {
		stx, err := types.SignTx(tx, signer, t.keys[k])
		if err != nil {
			panic(err)
		}
		nonces[k]++
		return stx
	}
	create := func(k int, code []byte, value int64) (*types.Transaction, common.Address) {
		addr := crypto.CreateAddress(vaddr(t.keys[k]), nonces[k])
		return sign(k, types.NewContractCreation(nonces[k], big.NewInt(value), 400000, big.NewInt(2e9), vInitCode(code, false))), addr
	}
	call := func(k int, to common.Address, value int64, gas uint64) *types.Transaction {
		return sign(k, types.NewTransaction(nonces[k], to, big.NewInt(value), gas, big.NewInt(3e9), nil))
	}
	ben := common.HexToAddress("0x00000000000000000000000000000000000be9ef")
	cur := t.genesis
	// pad the chain so that the special blocks sit after the fork heights of the "test" schedule too
	pad := t.extend(rng, cur, 7, vNone, &norm)
	cur = pad[len(pad)-1]
	var txs []*types.Transaction
	tk, kAddr := create(0, asmSuicideTo(ben), 0)
	tself, selfAddr := create(0, nil, 0)
	_ = tself
	nonces[0]-- // tself not used
	td, dAddr := create(1, asmCalls(kAddr, []byte{0, 100, 0}), 0)
	trev, revAddr := create(2, asmRevert(), 0)
	td2, d2Addr := create(3, asmCalls(revAddr, []byte{7, 0}), 0)
	_ = selfAddr
	txs = []*types.Transaction{tk, td, trev, td2}
	t.forced = txs
	b1 := t.extend(rng, cur, 1, vNone, &norm)
	// block 2: drive them
	toSender, toSenderAddr := create(0, asmSuicideTo(vaddr(t.keys[2])), 5)
	toCoinbase, toCbAddr := create(1, asmSuicideTo(common.BigToAddress(big.NewInt(0xc0ffee00))), 5)
	failCreate := sign(3, types.NewContractCreation(nonces[3], big.NewInt(9), 200000, big.NewInt(2e9), asmRevert()))
	// a creation whose init code writes storage, logs, and then returns one byte more than the code size limit: the execution
	// fails after it has run to completion
	oversize := sign(3, types.NewContractCreation(nonces[3], big.NewInt(7), 400000, big.NewInt(2e9),
		[]byte{0x60, 0x01, 0x60, 0x00, 0x55, 0x60, 0x00, 0x60, 0x00, 0xa0, 0x62, 0x00, 0x60, 0x01, 0x60, 0x00, 0xf3}))
	t.forced = []*types.Transaction{call(2, dAddr, 200, 600000), call(2, d2Addr, 50, 600000), toSender, toCoinbase, failCreate, oversize}
	b2 := t.extend(rng, b1[0], 1, vNone, &norm)
	t.forced = []*types.Transaction{call(2, toSenderAddr, 3, 100000), call(2, toCbAddr, 4, 100000), call(2, kAddr, 1, 100000)}
	t.extend(rng, b2[0], 1, vNone, &norm)
	t.forced = nil
	return t
}

func TestVerifLedger(t *testing.T) {
	out := os.Getenv("VERIF_OUT")
	if out == "" {
		t.Skip("VERIF_OUT not set")
	}
	seed := int64(envInt("VERIF_SEED", 1))
	nTrees := envInt("VERIF_TREES", 6)
	w := newVWriter(out)
	defer w.close()
	rng := rand.New(rand.NewSource(seed*32452843 + 13))
	nblocks := 0
	defer recordGenFailure(w, func() { fmt.Printf("VERIF-STAT trees=%d blocks=%d events=%d\n", nTrees, nblocks, w.n) })
	rich := vcontent{txProb: 0.95, maxTx: 6, uncleProb: 0.35, offsets: []int64{-200, 0, 0, 100}, replay: 0.1}
	for _, cfg := range []string{"steep", "test"} {
		tr := buildLedgerSpecial(rng, "ledger-special-"+cfg, cfg)
		for _, v := range tr.blocks {
			if v.valid && v.parent != nil {
				ledgerBlock(tr, v, w)
				nblocks++
			}
		}
	}
	for i := 0; i < nTrees; i++ {
		cfg := []string{"test", "steep"}[i%2]
		tr := buildRandomTree(rng, fmt.Sprintf("ledger-%d-%d", seed, i), cfg, 10+rng.Intn(14), rich)
		for _, v := range tr.blocks {
			if v.valid && v.parent != nil {
				ledgerBlock(tr, v, w)
				nblocks++
			}
		}
		ledgerBadBlocks(rng, tr, w)
	}
	// the reward schedule around the end of issuance, on synthetic headers
	for _, num := range []int64{1, 41999999, 42000000, 42000001} {
		for _, uh := range [][]int64{{}, {num - 1}, {num - 1, num - 6}, {num - 7}} {
			sdb := state.NewDatabase(aquadb.NewMemDatabase())
			st, _ := state.New(common.Hash{}, sdb)
			h := &types.Header{Number: big.NewInt(num), Coinbase: common.HexToAddress("0xc0"), Difficulty: big.NewInt(1), Time: big.NewInt(1), Version: 2}
			var uncles []*types.Header
			uj := []int{}
			for k, u := range uh {
				uncles = append(uncles, &types.Header{Number: big.NewInt(u), Coinbase: common.BigToAddress(big.NewInt(int64(0xd0 + k))), Difficulty: big.NewInt(1), Time: big.NewInt(1), Version: 2})
				uj = append(uj, int(u))
			}
			cfg := vConfigs()["steep"]
			bc, _ := NewBlockChain(context.TODO(), func() aquadb.Database { d := aquadb.NewMemDatabase(); (&Genesis{Config: cfg, GasLimit: 4712388, Difficulty: big.NewInt(131072)}).MustCommit(d); return d }(), nil, cfg, aquahash.NewFaker(), vm.Config{})
			aquahash.NewFaker().Finalize(bc, h, st, nil, uncles, nil)
			bc.Stop()
			total := new(big.Int)
			for a := range st.RawDump().Accounts {
				total.Add(total, st.GetBalance(common.HexToAddress(a)))
			}
			w.emit(map[string]interface{}{"e": "reward", "num": int(num), "uncles": uj, "delta": limbs(total)})
		}
	}
	fmt.Printf("VERIF-STAT trees=%d blocks=%d events=%d\n", nTrees, nblocks, w.n)
}
