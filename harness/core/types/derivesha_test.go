//go:build verif

package types

// C10 driver (list commitments): DeriveSha - the transaction / receipt root of a block - must be the Merkle-Patricia root of
// {rlp(i) -> item i}.  For list lengths around every key-encoding boundary (0, 1, 127, 128, 129, 255, 256, 257, ...) the root
// is compared with the root of a trie.Trie built from the same content with keys from rlp.EncodeToBytes (the trie itself is
// judged against the canonical construction by TrieTrace), and changing any single item must change the root.

import (
	"bufio"
	"encoding/json"
	"fmt"
	"math/rand"
	"os"
	"strconv"
	"testing"

	"gitlab.com/aquachain/aquachain/rlp"
	"gitlab.com/aquachain/aquachain/trie"
)

type rawList [][]byte

func (l rawList) Len() int            { return len(l) }
func (l rawList) GetRlp(i int) []byte { return l[i] }

func TestVerifDeriveSha(t *testing.T) {
	seed, _ := strconv.ParseInt(os.Getenv("VERIF_SEED"), 10, 64)
	out := os.Getenv("VERIF_DERIVE_OUT")
	if out == "" {
		out = os.DevNull
	}
	f, err := os.Create(out)
	if err != nil {
		t.Fatal(err)
	}
	defer f.Close()
	w := bufio.NewWriter(f)
	defer w.Flush()
	rng := rand.New(rand.NewSource(seed*7 + 3))
	n := 0
	for _, size := range []int{0, 1, 2, 3, 16, 17, 55, 56, 126, 127, 128, 129, 130, 200, 254, 255, 256, 257, 258, 300, 511, 512, 513, 1000} {
		items := make(rawList, size)
		for i := range items {
			b := make([]byte, 1+rng.Intn(60))
			rng.Read(b)
			items[i], _ = rlp.EncodeToBytes(b)
		}
		ref := new(trie.Trie)
		for i, it := range items {
			k, _ := rlp.EncodeToBytes(uint(i))
			ref.Update(k, it)
		}
		derived := DeriveSha(items)
		// every single-item change must show in the root (checked for the boundary indices and a few random ones)
		blind := []int{}
		idx := map[int]bool{0: true, 1: true, 127: true, 128: true, 129: true, 255: true, 256: true, size - 1: true}
		for k := 0; k < 4 && size > 0; k++ {
			idx[rng.Intn(size)] = true
		}
		for i := range idx {
			if i < 0 || i >= size {
				continue
			}
			alt := append(rawList{}, items...)
			alt[i], _ = rlp.EncodeToBytes([]byte("changed item"))
			if DeriveSha(alt) == derived {
				blind = append(blind, i)
			}
		}
		if blind == nil {
			blind = []int{}
		}
		b, _ := json.Marshal(map[string]interface{}{"e": "derive", "n": size, "derived": fmt.Sprintf("%x", derived), "reference": fmt.Sprintf("%x", ref.Hash()), "blind": blind})
		w.Write(b)
		w.WriteByte('\n')
		n++
	}
	fmt.Printf("VERIF-STAT derive lists=%d\n", n)
}
