//go:build verif

package types

// C12 driver: every case of the TxSig.tla table is concretised with real keys (signer kind x how the transaction was
// signed x alteration), plus sender-cache sequences across signers and RLP / JSON re-encodings. The driver records the
// observed outcome class; TLC (TxSigTrace.tla) judges with TxSig!Allowed.

import (
	"bufio"
	"bytes"
	"encoding/json"
	"fmt"
	"math/big"
	"math/rand"
	"os"
	"strconv"
	"testing"

	"gitlab.com/aquachain/aquachain/common"
	"gitlab.com/aquachain/aquachain/crypto"
	"gitlab.com/aquachain/aquachain/rlp"
)

type sgw struct {
	w *bufio.Writer
	n int
}

func (v *sgw) emit(e interface{}) {
	b, err := json.Marshal(e)
	if err != nil {
		panic(err)
	}
	v.w.Write(b)
	v.w.WriteByte('\n')
	v.n++
}

var secpN, _ = new(big.Int).SetString("fffffffffffffffffffffffffffffffebaaedce6af48a03bbfd25e8cd0364141", 16)

func mkSigner(kind string, chain int64) Signer {
	switch kind {
	case "F":
		return FrontierSigner{}
	case "H":
		return HomesteadSigner{}
	}
	return NewEIP155Signer(big.NewInt(chain))
}

func clone(tx *Transaction) *Transaction {
	d := tx.data
	d.Price, d.Amount = new(big.Int).Set(d.Price), new(big.Int).Set(d.Amount)
	d.V, d.R, d.S = new(big.Int).Set(d.V), new(big.Int).Set(d.R), new(big.Int).Set(d.S)
	d.Payload = common.CopyBytes(d.Payload)
	if d.Recipient != nil {
		r := *d.Recipient
		d.Recipient = &r
	}
	d.Hash = nil
	return &Transaction{data: d}
}

func outcome(signer Signer, tx *Transaction, want common.Address) (string, string) {
	pn := ""
	var addr common.Address
	var err error
	func() {
		defer func() {
			if r := recover(); r != nil {
				pn = fmt.Sprint(r)
			}
		}()
		addr, err = Sender(signer, tx)
	}()
	switch {
	case pn != "":
		return "panic", pn
	case err != nil:
		return "error", ""
	case addr == want:
		return "same", ""
	}
	return "other", ""
}

func mutate(rng *rand.Rand, tx *Transaction, mut string, c, d int64) {
	t := &tx.data
	one := big.NewInt(1)
	protected := tx.Protected()
	switch mut {
	case "nonce":
		t.AccountNonce++
	case "price":
		t.Price.Add(t.Price, one)
	case "gas":
		t.GasLimit++
	case "to":
		if t.Recipient == nil {
			a := common.HexToAddress("0x01")
			t.Recipient = &a
		} else {
			t.Recipient[rng.Intn(20)] ^= 1
		}
	case "value":
		t.Amount.Add(t.Amount, one)
	case "data":
		t.Payload = append(t.Payload, 0)
	case "chainid": // re-label the signature for another chain (or give an unprotected one a chain id)
		par := new(big.Int).Set(t.V)
		if protected {
			par.Sub(par, big.NewInt(35)).Mod(par, big.NewInt(2))
		} else {
			par.Sub(par, big.NewInt(27))
		}
		t.V = new(big.Int).Add(big.NewInt(35+2*d), par)
	case "r+1":
		t.R.Add(t.R, one)
	case "s+1":
		t.S.Add(t.S, one)
	case "vflip":
		if protected {
			base := new(big.Int).Sub(t.V, big.NewInt(35))
			if base.Bit(0) == 0 {
				t.V.Add(t.V, one)
			} else {
				t.V.Sub(t.V, one)
			}
		} else if t.V.Int64() == 27 {
			t.V.SetInt64(28)
		} else {
			t.V.SetInt64(27)
		}
	case "highS":
		t.S.Sub(secpN, t.S)
		mutate(rng, tx, "vflip", c, d)
	case "r=0":
		t.R.SetInt64(0)
	case "s=0":
		t.S.SetInt64(0)
	case "r=N":
		t.R.Set(secpN)
	case "s=N":
		t.S.Set(secpN)
	case "s=max":
		t.S.Sub(new(big.Int).Lsh(one, 256), one)
	case "vbig":
		t.V.Lsh(one, uint(9+rng.Intn(80)))
	case "v+256k": // the same low byte, one or more higher bits set
		t.V.Add(t.V, new(big.Int).Lsh(big.NewInt(int64(1+rng.Intn(255))), uint(8*(1+rng.Intn(7)))))
	case "s-wide": // 33 bytes whose low 32 bytes are the original s and whose top byte is the low byte of r
		t.S.Add(t.S, new(big.Int).Lsh(new(big.Int).And(t.R, big.NewInt(0xff)), 256))
		if t.S.BitLen() <= 256 {
			t.S.Add(t.S, new(big.Int).Lsh(one, 256))
		}
	case "highS-wide": // the high-S twin, hidden below a 33rd byte
		mutate(rng, tx, "highS", c, d)
		t.S.Add(t.S, new(big.Int).Lsh(new(big.Int).And(t.R, big.NewInt(0xff)), 256))
		if t.S.BitLen() <= 256 {
			t.S.Add(t.S, new(big.Int).Lsh(one, 256))
		}
	case "r-wide":
		t.R.Add(t.R, new(big.Int).Lsh(big.NewInt(int64(1+rng.Intn(255))), 256))
	}
}

func TestVerifTxSig(t *testing.T) {
	out := os.Getenv("VERIF_OUT")
	if out == "" {
		t.Skip("VERIF_OUT not set")
	}
	seed, _ := strconv.ParseInt(os.Getenv("VERIF_SEED"), 10, 64)
	reps, _ := strconv.Atoi(os.Getenv("VERIF_REPS"))
	if reps == 0 {
		reps = 3
	}
	f, err := os.Create(out)
	if err != nil {
		t.Fatal(err)
	}
	defer f.Close()
	w := &sgw{w: bufio.NewWriterSize(f, 1<<20)}
	defer w.w.Flush()
	rng := rand.New(rand.NewSource(seed*279470273 + 37))
	muts := []string{"none", "chainid", "nonce", "price", "gas", "to", "value", "data", "r+1", "s+1", "vflip", "highS", "r=0", "s=0", "r=N", "s=N", "s=max", "vbig", "v+256k", "s-wide", "highS-wide", "r-wide"}
	for rep := 0; rep < reps; rep++ {
		key, _ := crypto.GenerateKey()
		want := crypto.PubkeyToAddress(key.PubKey())
		c, d := int64(1+rng.Intn(100000)), int64(100001+rng.Intn(1000000))
		if rep%3 == 2 {
			c, d = 61717561, 617175611 // mainnet / testnet ids
		}
		mkTx := func() *Transaction {
			data := make([]byte, rng.Intn(40))
			rng.Read(data)
			if rng.Intn(4) == 0 {
				return NewContractCreation(uint64(rng.Intn(1000)), big.NewInt(rng.Int63()), uint64(21000+rng.Intn(100000)), big.NewInt(rng.Int63()), data)
			}
			var to common.Address
			rng.Read(to[:])
			return NewTransaction(uint64(rng.Intn(1000)), to, big.NewInt(rng.Int63()), uint64(21000+rng.Intn(100000)), big.NewInt(rng.Int63()), data)
		}
		for _, signed := range []string{"U", "Pc", "Pd"} {
			var ssigner Signer
			switch signed {
			case "U":
				ssigner = HomesteadSigner{}
			case "Pc":
				ssigner = NewEIP155Signer(big.NewInt(c))
			default:
				ssigner = NewEIP155Signer(big.NewInt(d))
			}
			for _, mut := range muts {
				base, err := SignTx(mkTx(), ssigner, key)
				if err != nil {
					t.Fatal(err)
				}
				mtx := clone(base)
				mutate(rng, mtx, mut, c, d)
				for _, sk := range []string{"F", "H", "E"} {
					// a fresh object per query: no cache involved
					oc, pn := outcome(mkSigner(sk, c), clone(mtx), want)
					w.emit(map[string]interface{}{"e": "case", "signer": sk, "signed": signed, "mut": mut, "outcome": oc, "panic": pn})
				}
				// cache sequences: the same object queried under different signers, in a random order, twice
				obj := clone(mtx)
				order := []string{"F", "H", "E", "E", "H", "F"}
				rng.Shuffle(len(order), func(i, j int) { order[i], order[j] = order[j], order[i] })
				seq := []map[string]string{}
				for _, sk := range order {
					oc, _ := outcome(mkSigner(sk, c), obj, want)
					seq = append(seq, map[string]string{"signer": sk, "outcome": oc})
				}
				w.emit(map[string]interface{}{"e": "cacheseq", "signed": signed, "mut": mut, "seq": seq})
				// AsMessage uses the same path
				if mut == "none" && signed != "Pd" {
					msg, err := clone(base).AsMessage(mkSigner("E", c))
					w.emit(map[string]interface{}{"e": "asmessage", "signed": signed, "ok": err == nil && msg.From() == want})
				}
			}
			// re-encodings: hash and sender survive RLP and JSON round trips
			base, _ := SignTx(mkTx(), ssigner, key)
			enc, _ := rlp.EncodeToBytes(base)
			var viaRLP Transaction
			e1 := rlp.DecodeBytes(enc, &viaRLP)
			js, _ := json.Marshal(base)
			var viaJSON Transaction
			e2 := json.Unmarshal(js, &viaJSON)
			enc2, _ := rlp.EncodeToBytes(&viaJSON)
			s0, _ := Sender(ssigner, clone(base))
			s1, _ := Sender(ssigner, &viaRLP)
			s2, _ := Sender(ssigner, &viaJSON)
			w.emit(map[string]interface{}{"e": "reencode", "signed": signed, "rlpOK": e1 == nil, "jsonOK": e2 == nil,
				"hashRLP": viaRLP.Hash() == base.Hash(), "hashJSON": viaJSON.Hash() == base.Hash(), "bytesSame": bytes.Equal(enc, enc2),
				"senderRLP": s1 == s0 && s0 == want, "senderJSON": s2 == s0})
			// a JSON document whose content was altered: the hash of what was decoded is the hash of its content
			var doc map[string]interface{}
			json.Unmarshal(js, &doc)
			for _, field := range []string{"value", "nonce", "gasPrice", "input"} {
				alt := map[string]interface{}{}
				for k, v := range doc {
					alt[k] = v
				}
				switch field {
				case "input":
					alt[field] = "0x" + fmt.Sprintf("%x", append(base.Data(), 0x01))
				default:
					alt[field] = fmt.Sprintf("0x%x", rng.Int63()|1)
				}
				js2, _ := json.Marshal(alt)
				var altTx Transaction
				if err := json.Unmarshal(js2, &altTx); err != nil {
					w.emit(map[string]interface{}{"e": "jsonalt", "field": field, "decoded": false, "hashIsContentHash": true, "differsFromOriginal": true})
					continue
				}
				reenc, _ := rlp.EncodeToBytes(&altTx)
				var again Transaction
				rlp.DecodeBytes(reenc, &again)
				w.emit(map[string]interface{}{"e": "jsonalt", "field": field, "decoded": true,
					"hashIsContentHash": altTx.Hash() == again.Hash(), "differsFromOriginal": altTx.Hash() != base.Hash()})
			}
		}
	}
	fmt.Printf("VERIF-STAT events=%d\n", w.n)
}
