//go:build verif

package core

// Shared helpers of the /verif in-package drivers (package core): ndjson writer, limb numbers,
// a tiny EVM assembler, deterministic keys.

import (
	"bufio"
	"encoding/json"
	"fmt"
	"math/big"
	"os"
	"strconv"

	"github.com/btcsuite/btcd/btcec/v2"
	"gitlab.com/aquachain/aquachain/common"
	"gitlab.com/aquachain/aquachain/crypto"
)

type vwriter struct {
	f    *os.File
	w    *bufio.Writer
	n    int
	sink func(interface{})
}

type bufWriter struct{ evs []interface{} }

func newBufVWriter(b *bufWriter) *vwriter {
	return &vwriter{sink: func(e interface{}) { b.evs = append(b.evs, e) }}
}

func newVWriter(path string) *vwriter {
	f, err := os.Create(path)
	if err != nil {
		panic(err)
	}
	return &vwriter{f: f, w: bufio.NewWriterSize(f, 1<<20)}
}

func (v *vwriter) emit(ev interface{}) {
	if v.sink != nil {
		v.sink(ev)
		return
	}
	b, err := json.Marshal(ev)
	if err != nil {
		panic(err)
	}
	v.w.Write(b)
	v.w.WriteByte('\n')
	v.n++
}

func (v *vwriter) close() {
	v.w.Flush()
	v.f.Close()
}

func envInt(name string, def int) int {
	if s := os.Getenv(name); s != "" {
		if n, err := strconv.Atoi(s); err == nil {
			return n
		}
	}
	return def
}

// limbs: little-endian base-10000 limbs of a non-negative big.Int (BigNat.tla representation)
func limbs(x *big.Int) []int {
	out := []int{}
	if x == nil || x.Sign() <= 0 {
		return out
	}
	v := new(big.Int).Set(x)
	base := big.NewInt(10000)
	m := new(big.Int)
	for v.Sign() > 0 {
		v.DivMod(v, base, m)
		out = append(out, int(m.Int64()))
	}
	return out
}

func limbsU(x uint64) []int { return limbs(new(big.Int).SetUint64(x)) }

// deterministic test keys
func vkey(i int) *btcec.PrivateKey {
	h := crypto.Keccak256([]byte(fmt.Sprintf("verif-key-%d", i)))
	k, err := crypto.BytesToKey(h)
	if err != nil {
		panic(err)
	}
	return k
}

func vaddr(k *btcec.PrivateKey) common.Address { return crypto.PubkeyToAddress(k.PubKey()) }

// ---- micro assembler -------------------------------------------------------
type vasm struct {
	code   []byte
	labels map[string]int
	fix    map[int]string
}

func newAsm() *vasm { return &vasm{labels: map[string]int{}, fix: map[int]string{}} }
func (a *vasm) op(b ...byte) *vasm {
	a.code = append(a.code, b...)
	return a
}
func (a *vasm) push1(v byte) *vasm { return a.op(0x60, v) }
func (a *vasm) pushN(b []byte) *vasm {
	if len(b) == 0 || len(b) > 32 {
		panic("pushN")
	}
	a.op(byte(0x60 + len(b) - 1))
	return a.op(b...)
}
func (a *vasm) pushLabel(l string) *vasm { // PUSH2 <label>
	a.op(0x61)
	a.fix[len(a.code)] = l
	return a.op(0, 0)
}
func (a *vasm) label(l string) *vasm { // JUMPDEST
	a.labels[l] = len(a.code)
	return a.op(0x5b)
}
func (a *vasm) bytes() []byte {
	for pos, l := range a.fix {
		t, ok := a.labels[l]
		if !ok {
			panic("label " + l)
		}
		a.code[pos] = byte(t >> 8)
		a.code[pos+1] = byte(t)
	}
	return a.code
}

// wrap runtime code into init code that optionally stores a value and returns the runtime
func vInitCode(runtime []byte, ctorStore bool) []byte {
	a := newAsm()
	if ctorStore {
		a.op(0x43).push1(9).op(0x55) // SSTORE(9, NUMBER)
	}
	// PUSH2 len DUP1 PUSH2 off PUSH1 0 CODECOPY PUSH1 0 RETURN
	a.op(0x61, byte(len(runtime)>>8), byte(len(runtime)))
	a.op(0x80)
	a.pushLabel("rt")
	a.push1(0).op(0x39).push1(0).op(0xf3)
	a.labels["rt"] = len(a.code)
	a.code = append(a.code, runtime...)
	return a.bytes()
}

// vStoreContract: calldata word x drives behaviour
//
//	x == 0xff..ff (first byte 0xff): SELFDESTRUCT(CALLER)
//	otherwise: SSTORE(i, x+i) for i in 0..5 (x = 0 clears slot 0), SSTORE(7, NUMBER), LOG2(caller; x, NUMBER)
func vStoreContract() []byte { return vStoreContractV(0) }

// vStoreContractV: the same contract followed by `pad` unreachable bytes, so that forks can deploy code of
// different length at the same address; SSTORE(8, EXTCODESIZE(calldata word 1)) observes such differences;
// slots 9 and 10 record BLOCKHASH of the parent and of the third ancestor
func vStoreContractV(pad int) []byte {
	a := newAsm()
	a.push1(32).op(0x35).op(0x3b).push1(8).op(0x55) // SSTORE(8, EXTCODESIZE(CALLDATALOAD(32)))
	a.push1(1).op(0x30).op(0x31).op(0x01).op(0x50)           // BALANCE(ADDRESS)+1, dropped: arithmetic on a value read from the state
	a.push1(3).op(0x33).op(0x31).op(0x02).op(0x50)           // BALANCE(CALLER)*3, dropped
	a.push1(1).op(0x43).op(0x03).op(0x40).push1(9).op(0x55)  // SSTORE(9, BLOCKHASH(NUMBER-1)): the block's OWN ancestry, also on a side fork
	a.push1(3).op(0x43).op(0x03).op(0x40).push1(10).op(0x55) // SSTORE(10, BLOCKHASH(NUMBER-3))
	a.push1(0).op(0x35)                // x = CALLDATALOAD(0)
	a.op(0x80).push1(0).op(0x1a)       // DUP1; BYTE(0, x)
	a.push1(0xff).op(0x14)             // EQ
	a.pushLabel("kill").op(0x57)       // JUMPI
	for i := 0; i < 6; i++ {
		a.op(0x80).push1(byte(i)).op(0x01) // DUP1 PUSH i ADD
		a.push1(byte(i)).op(0x55)          // SSTORE(i, x+i)
	}
	a.op(0x43).push1(7).op(0x55)       // SSTORE(7, NUMBER)
	a.op(0x33).push1(0).op(0x52)       // MSTORE(0, CALLER)
	a.op(0x43).op(0x81)                // NUMBER, DUP2 (x)
	a.push1(32).push1(0).op(0xa2)      // LOG2(0, 32, x, NUMBER)
	a.op(0x50).op(0x00)                // POP STOP
	a.label("kill").op(0x33).op(0xff)  // CALLER SELFDESTRUCT
	code := a.bytes()
	for i := 0; i < pad; i++ {
		code = append(code, 0xfe)
	}
	return code
}
