//go:build verif

package core

// C04 driver: a recording aquadb.Database logs every write of a crash-free run (a batch = one atomic
// entry, as in LevelDB). Every prefix of that log is materialised as a database image and reopened with
// core.NewBlockChain; what the reopened node shows is recorded and judged by TLC (ChainCrashTrace.tla).
// Failing batch writes are injected in-process as well.

import (
	"context"
	"errors"
	"fmt"
	"math/rand"
	"os"
	"sync"
	"testing"
	"time"

	"gitlab.com/aquachain/aquachain/aquadb"
	"gitlab.com/aquachain/aquachain/common"
	"gitlab.com/aquachain/aquachain/consensus/aquahash"
	"gitlab.com/aquachain/aquachain/core/state"
	"gitlab.com/aquachain/aquachain/core/types"
	"gitlab.com/aquachain/aquachain/core/vm"
	"gitlab.com/aquachain/aquachain/trie"
)

type wop struct {
	key, val []byte
	del      bool
}
type wentry struct{ ops []wop }

type recDB struct {
	mu      sync.Mutex
	mem     *aquadb.MemDatabase
	log     []wentry
	batches int   // number of batch writes seen
	failAt  int   // fail the failAt-th batch write once (1-based), 0 = never
	failed  bool
	opMark  []int // log length after each driver operation
}

var errInjected = errors.New("injected disk write failure")

func newRecDB() *recDB { return &recDB{mem: aquadb.NewMemDatabase()} }

func (d *recDB) Put(k, v []byte) error {
	d.mu.Lock()
	d.log = append(d.log, wentry{[]wop{{key: common.CopyBytes(k), val: common.CopyBytes(v)}}})
	d.mu.Unlock()
	return d.mem.Put(k, v)
}
func (d *recDB) Delete(k []byte) error {
	d.mu.Lock()
	d.log = append(d.log, wentry{[]wop{{key: common.CopyBytes(k), del: true}}})
	d.mu.Unlock()
	return d.mem.Delete(k)
}
func (d *recDB) Get(k []byte) ([]byte, error) { return d.mem.Get(k) }
func (d *recDB) Has(k []byte) (bool, error)   { return d.mem.Has(k) }
func (d *recDB) Close()                       {}
func (d *recDB) NewBatch() aquadb.Batch       { return &recBatch{db: d} }

type recBatch struct {
	db   *recDB
	ops  []wop
	size int
}

func (b *recBatch) Put(k, v []byte) error {
	b.ops = append(b.ops, wop{key: common.CopyBytes(k), val: common.CopyBytes(v)})
	b.size += len(v)
	return nil
}
func (b *recBatch) Delete(k []byte) error {
	b.ops = append(b.ops, wop{key: common.CopyBytes(k), del: true})
	b.size++
	return nil
}
func (b *recBatch) ValueSize() int { return b.size }
func (b *recBatch) Reset()         { b.ops, b.size = nil, 0 }
func (b *recBatch) Write() error {
	d := b.db
	d.mu.Lock()
	d.batches++
	if d.failAt != 0 && d.batches == d.failAt && !d.failed {
		d.failed = true
		// a failing write of the head-pointer batch ends in log.Crit -> os.Exit(1): observationally a crash
		// before that write, which the prefix sweep already covers; every other batch failure is injected
		headBatch := false
		for _, o := range b.ops {
			if keyClass(o.key) == "LastBlock" {
				headBatch = true
			}
		}
		if !headBatch {
			d.mu.Unlock()
			return errInjected
		}
	}
	if len(b.ops) > 0 {
		d.log = append(d.log, wentry{append([]wop{}, b.ops...)})
	}
	d.mu.Unlock()
	for _, o := range b.ops {
		if o.del {
			d.mem.Delete(o.key)
		} else {
			d.mem.Put(o.key, o.val)
		}
	}
	return nil
}

func applyEntry(m *aquadb.MemDatabase, e wentry) {
	for _, o := range e.ops {
		if o.del {
			m.Delete(o.key)
		} else {
			m.Put(o.key, o.val)
		}
	}
}

func copyMem(m *aquadb.MemDatabase) *aquadb.MemDatabase {
	c := aquadb.NewMemDatabase()
	for _, k := range m.Keys() {
		v, _ := m.Get(k)
		c.Put(k, v)
	}
	return c
}

func keyClass(k []byte) string {
	s := string(k)
	switch {
	case s == "LastBlock":
		return "LastBlock"
	case s == "LastHeader":
		return "LastHeader"
	case s == "LastFast":
		return "LastFast"
	case len(k) == 32:
		return "node"
	case len(k) > 0 && k[0] == 'h' && len(k) == 10 && k[9] == 'n':
		return "canon"
	case len(k) > 0 && k[0] == 'h' && len(k) == 42 && k[41] == 't':
		return "td"
	case len(k) > 0 && k[0] == 'h' && len(k) == 41:
		return "header"
	case len(k) > 0 && k[0] == 'H':
		return "hashnum"
	case len(k) > 0 && k[0] == 'b' && len(k) == 41:
		return "body"
	case len(k) > 0 && k[0] == 'r' && len(k) == 41:
		return "receipts"
	case len(k) > 0 && k[0] == 'l' && len(k) == 33:
		return "lookup"
	case len(k) > 11 && string(k[:11]) == "secure-key-":
		return "preimage"
	}
	return "other"
}

func entryClass(e wentry) string {
	if len(e.ops) == 1 {
		c := keyClass(e.ops[0].key)
		if e.ops[0].del {
			return "del-" + c
		}
		return c
	}
	seen := map[string]bool{}
	out := "batch"
	for _, o := range e.ops {
		c := keyClass(o.key)
		if !seen[c] {
			seen[c] = true
			out += "+" + c
		}
	}
	return out
}

// complete readability of the state below root, straight from the given disk image (no memory layer)
func fullStateOnDisk(db aquadb.Database, root common.Hash) bool {
	ok := true
	func() {
		defer func() {
			if r := recover(); r != nil {
				ok = false
			}
		}()
		sdb := state.NewDatabase(db)
		st, err := state.New(root, sdb)
		if err != nil {
			ok = false
			return
		}
		tr, err := sdb.OpenTrie(root)
		if err != nil {
			ok = false
			return
		}
		it := trie.NewIterator(tr.NodeIterator(nil))
		for it.Next() {
			addr := common.BytesToAddress(tr.GetKey(it.Key))
			obj := st.GetOrNewStateObject(addr)
			_ = obj
			// code
			if ch := st.GetCodeHash(addr); ch != (common.Hash{}) && ch != emptyCodeHashV {
				if code := st.GetCode(addr); len(code) == 0 {
					ok = false
					return
				}
			}
			// storage
			stt := st.StorageTrie(addr)
			if stt != nil {
				sit := trie.NewIterator(stt.NodeIterator(nil))
				for sit.Next() {
				}
				if sit.Err != nil {
					ok = false
					return
				}
			}
		}
		if it.Err != nil {
			ok = false
		}
	}()
	return ok
}

var emptyCodeHashV = common.BytesToHash(common.FromHex("c5d2460186f7233c927e7db2dcc703c0e500b653ca82273b7bfad8045d85a470"))

type crashScenario struct {
	name string
	tr   *vtree
	mode string
	ops  [][]*vblk // batches, in order; a nil batch = Stop+reopen
}

type crashRec map[string]interface{}

// inspect a disk image: reopen, observe, re-import
func (sc *crashScenario) inspect(img *aquadb.MemDatabase, final *vblk) crashRec {
	t := sc.tr
	rec := crashRec{}
	idOfHash := func(h common.Hash) string {
		if v, ok := t.byHash[h]; ok {
			return v.id
		}
		if h == (common.Hash{}) {
			return "-"
		}
		return "?"
	}
	rec["lastBlock"] = idOfHash(GetHeadBlockHash(img))
	rec["lastHeader"] = idOfHash(GetHeadHeaderHash(img))
	// which block states / block data are on disk in this image (before anything is reopened)
	onDisk, rootOnly, blockData := []string{}, []string{}, []string{}
	for _, v := range t.blocks {
		if !v.valid {
			continue
		}
		if has, _ := img.Has(v.b.Root().Bytes()); has {
			rootOnly = append(rootOnly, v.id)
			if fullStateOnDisk(img, v.b.Root()) {
				onDisk = append(onDisk, v.id)
			}
		}
		if GetBlockNoVersion(img, v.b.Hash(), v.b.NumberU64()) != nil && hasRawReceipts(img, v.b) {
			blockData = append(blockData, v.id)
		}
	}
	rec["rootOnDisk"], rec["stateOnDisk"], rec["blockOnDisk"] = rootOnly, onDisk, blockData

	db := copyMem(img)
	var bc *BlockChain
	var err error
	done := make(chan string, 1)
	go func() {
		defer func() {
			if r := recover(); r != nil {
				done <- fmt.Sprintf("panic: %v", r)
			}
		}()
		cc := &CacheConfig{Disabled: true}
		if sc.mode == "pruning" {
			cc = &CacheConfig{TrieNodeLimit: 256, TrieTimeLimit: 5 * time.Minute}
		}
		bc, err = NewBlockChain(context.TODO(), db, cc, t.cfg, aquahash.NewFaker(), vm.Config{})
		if err != nil {
			done <- "error: " + errClass(err)
			return
		}
		done <- "ok"
	}()
	select {
	case r := <-done:
		rec["reopen"] = r
	case <-time.After(5 * time.Minute):
		rec["reopen"] = "hang"
	}
	if rec["reopen"] != "ok" {
		if s := rec["reopen"].(string); len(s) > 60 {
			rec["reopen"] = s[:60]
		}
		rec["head"], rec["hhead"], rec["stateOK"], rec["indexOK"], rec["reHead"], rec["reErr"] = "-", "-", false, false, "-", "not reopened"
		return rec
	}
	head := bc.CurrentBlock()
	rec["head"] = idOfHash(head.Hash())
	rec["hhead"] = idOfHash(bc.CurrentHeader().Hash())
	// complete state at the head, read from the reopened database
	rec["stateOK"] = fullStateOnDisk(db, head.Root())
	// number index agrees with the head's ancestry back to genesis, blocks retrievable
	indexOK := true
	for b := head; ; {
		if GetCanonicalHash(db, b.NumberU64()) != b.Hash() || bc.GetBlockByNumber(b.NumberU64()) == nil ||
			bc.GetBlockByNumber(b.NumberU64()).Hash() != b.Hash() || bc.GetTd(b.Hash(), b.NumberU64()) == nil {
			indexOK = false
			break
		}
		if b.NumberU64() == 0 {
			break
		}
		p := bc.GetBlock(b.ParentHash(), b.NumberU64()-1)
		if p == nil {
			indexOK = false
			break
		}
		b = p
	}
	rec["indexOK"] = indexOK
	// feeding the original blocks again converges
	reErr := ""
	func() {
		defer func() {
			if r := recover(); r != nil {
				reErr = fmt.Sprintf("PANIC: %v", r)
			}
		}()
		for _, batch := range sc.ops {
			if batch == nil {
				continue
			}
			blocks := make(types.Blocks, len(batch))
			for i, v := range batch {
				blocks[i] = types.NewBlockWithHeader(v.b.Header()).WithBody(v.b.Transactions(), v.b.Uncles())
			}
			if _, err := bc.InsertChain(blocks); err != nil && reErr == "" {
				reErr = errClass(err)
			}
		}
	}()
	if len(reErr) > 60 {
		reErr = reErr[:60]
	}
	rec["reErr"] = reErr
	rec["reHead"] = idOfHash(bc.CurrentBlock().Hash())
	rec["reIndexOK"] = GetCanonicalHash(db, bc.CurrentBlock().NumberU64()) == bc.CurrentBlock().Hash()
	bc.Stop()
	return rec
}

// run the scenario crash-free on a recording database; returns the log and the final head
func (sc *crashScenario) record(failAt int, w *vwriter) (*recDB, *aquadb.MemDatabase, *vblk, string) {
	t := sc.tr
	base := aquadb.NewMemDatabase()
	t.gspec.MustCommit(base)
	rdb := newRecDB()
	rdb.mem = copyMem(base)
	rdb.failAt = failAt
	cc := &CacheConfig{Disabled: true}
	if sc.mode == "pruning" {
		cc = &CacheConfig{TrieNodeLimit: 256, TrieTimeLimit: 5 * time.Minute}
	}
	open := func() *BlockChain {
		bc, err := NewBlockChain(context.TODO(), rdb, cc, t.cfg, aquahash.NewFaker(), vm.Config{})
		if err != nil {
			panic(err)
		}
		return bc
	}
	wedged := ""
	var note string
	safeStop := func(bc *BlockChain) {
		defer func() {
			if r := recover(); r != nil {
				note = fmt.Sprintf("stop-panic: %v", r)
			}
		}()
		bc.Stop()
	}
	finished := make(chan *BlockChain, 1)
	go func() {
		bc := open()
		for _, batch := range sc.ops {
			if batch == nil {
				safeStop(bc)
				func() {
					defer func() {
						if r := recover(); r != nil {
							note = fmt.Sprintf("reopen-panic: %v", r)
						}
					}()
					bc = open()
				}()
				rdb.opMark = append(rdb.opMark, len(rdb.log))
				continue
			}
			blocks := make(types.Blocks, len(batch))
			for i, v := range batch {
				blocks[i] = types.NewBlockWithHeader(v.b.Header()).WithBody(v.b.Transactions(), v.b.Uncles())
			}
			func() {
				defer func() {
					if r := recover(); r != nil {
						note = fmt.Sprintf("insert-panic: %v", r)
					}
				}()
				bc.InsertChain(blocks)
			}()
			rdb.opMark = append(rdb.opMark, len(rdb.log))
		}
		safeStop(bc)
		finished <- bc
	}()
	var bc *BlockChain
	select {
	case bc = <-finished:
		wedged = note
	case <-time.After(5 * time.Minute):
		wedged = "wedged (no progress for 5 min after a failed write)"
	}
	var final *vblk
	if bc != nil {
		final = t.byHash[bc.CurrentBlock().Hash()]
	}
	if len(wedged) > 70 {
		wedged = wedged[:70]
	}
	return rdb, base, final, wedged
}

func (sc *crashScenario) run(w *vwriter, rng *rand.Rand, maxPoints int, inject bool) (points int) {
	t := sc.tr
	rdb, base, final, _ := sc.record(0, w)
	w.emit(t.describe())
	opsJ := [][]string{}
	for _, b := range sc.ops {
		if b == nil {
			opsJ = append(opsJ, []string{"restart"})
		} else {
			opsJ = append(opsJ, ids(b))
		}
	}
	W := len(rdb.log)
	w.emit(map[string]interface{}{"e": "scenario", "name": sc.name, "mode": sc.mode, "ops": opsJ, "writes": W,
		"final": final.id, "batches": rdb.batches})
	// choose crash points: all of them, or a sample that always contains every non-node write
	pick := map[int]bool{}
	if W+1 <= maxPoints {
		for k := 0; k <= W; k++ {
			pick[k] = true
		}
	} else {
		var nodeOnly []int
		for k := 0; k <= W; k++ {
			if k < W && entryClass(rdb.log[k]) == "node" && k > 0 && entryClass(rdb.log[k-1]) == "node" {
				nodeOnly = append(nodeOnly, k)
			} else {
				pick[k] = true
			}
		}
		rng.Shuffle(len(nodeOnly), func(i, j int) { nodeOnly[i], nodeOnly[j] = nodeOnly[j], nodeOnly[i] })
		for _, k := range nodeOnly {
			if len(pick) >= maxPoints {
				break
			}
			pick[k] = true
		}
	}
	img := copyMem(base)
	for k := 0; k <= W; k++ {
		if pick[k] {
			rec := sc.inspect(img, final)
			rec["e"], rec["k"] = "crash", k
			if k < W {
				rec["next"] = entryClass(rdb.log[k])
			} else {
				rec["next"] = "end"
			}
			w.emit(rec)
			points++
		}
		if k < W {
			applyEntry(img, rdb.log[k])
		}
	}
	if inject {
		// a failing batch write, once, at every batch position; the run continues in-process
		for j := 1; j <= rdb.batches; j++ {
			r2, _, _, wedged := sc.record(j, w)
			rec := crashRec{}
			if wedged == "" || wedged[:3] != "wed" {
				rec = sc.inspect(r2.mem, final)
			} else {
				rec["reopen"], rec["head"], rec["hhead"], rec["stateOK"], rec["indexOK"], rec["reHead"], rec["reErr"] = "wedged", "-", "-", false, false, "-", "wedged"
				rec["lastBlock"], rec["lastHeader"] = "-", "-"
				rec["rootOnDisk"], rec["stateOnDisk"], rec["blockOnDisk"] = []string{}, []string{}, []string{}
			}
			rec["e"], rec["j"], rec["wedged"], rec["k"], rec["next"] = "fail", j, wedged, -1, "fail"
			w.emit(rec)
			points++
		}
	}
	return points
}

func TestVerifCrash(t *testing.T) {
	out := os.Getenv("VERIF_OUT")
	if out == "" {
		t.Skip("VERIF_OUT not set")
	}
	seed := int64(envInt("VERIF_SEED", 1))
	nRand := envInt("VERIF_TREES", 2)
	long := envInt("VERIF_LONG", 0)
	maxPts := envInt("VERIF_MAXPTS", 400)
	w := newVWriter(out)
	defer w.close()
	rng := rand.New(rand.NewSource(seed*7907 + 3))
	total, nsc := 0, 0
	single := func(vs []*vblk) [][]*vblk {
		var o [][]*vblk
		for _, v := range vs {
			o = append(o, []*vblk{v})
		}
		return o
	}
	fast, slow, norm := int64(-200), int64(1000), int64(0)
	for _, mode := range []string{"archive", "pruning"} {
		// reorg to a shorter, heavier branch
		tr := newVTree(fmt.Sprintf("crash-sh-%s-%d", mode, seed), "steep", rng)
		a := tr.extend(rng, tr.genesis, 7, vRich, &slow)
		b := tr.extend(rng, tr.genesis, 6, vRich, &fast)
		sc := &crashScenario{name: "shorter-heavier", tr: tr, mode: mode, ops: [][]*vblk{a[:3], a[3:], b[:2], b[2:]}}
		total += sc.run(w, rng, maxPts, true)
		nsc++
		// reorg to a longer branch, block by block, with a restart in the middle
		tr = newVTree(fmt.Sprintf("crash-lg-%s-%d", mode, seed), "steep", rng)
		a = tr.extend(rng, tr.genesis, 3, vRich, &norm)
		b = tr.extend(rng, a[0], 4, vRich, &norm)
		ops := append(single(a), nil)
		ops = append(ops, single(b)...)
		sc = &crashScenario{name: "longer", tr: tr, mode: mode, ops: ops}
		total += sc.run(w, rng, maxPts, true)
		nsc++
	}
	// blocks that touch hundreds of accounts: one trie commit spans several batch flushes
	for _, mode := range []string{"archive", "pruning"} {
		tr := newVTree(fmt.Sprintf("crash-bulk-%s-%d", mode, seed), "steep", rng)
		bulk := vcontent{bulk: 220, maxTx: 1}
		m := tr.extend(rng, tr.genesis, 3, bulk, &norm)
		sc := &crashScenario{name: "bulk", tr: tr, mode: mode, ops: single(m)}
		total += sc.run(w, rng, maxPts, true)
		nsc++
	}
	for i := 0; i < nRand; i++ {
		tr := buildRandomTree(rng, fmt.Sprintf("crash-rand-%d-%d", seed, i), []string{"steep", "test"}[i%2], 8+rng.Intn(8), vRich)
		var ops [][]*vblk
		done := map[*vblk]bool{}
		for _, v := range tr.blocks {
			if !v.valid || v.parent == nil || done[v] {
				continue
			}
			seg := []*vblk{v}
			for x := v; len(x.children) > 0 && rng.Intn(3) != 0; {
				x = x.children[0]
				seg = append(seg, x)
			}
			for _, s := range seg {
				done[s] = true
			}
			ops = append(ops, seg)
			if rng.Intn(6) == 0 {
				ops = append(ops, nil)
			}
		}
		sc := &crashScenario{name: "random", tr: tr, mode: []string{"archive", "pruning"}[i%2], ops: ops}
		total += sc.run(w, rng, maxPts, i%2 == 0)
		nsc++
	}
	for i := 0; i < long; i++ {
		// pruning node crossing the 128-block window, shutdown flushes HEAD, HEAD-1, HEAD-127
		tr := newVTree(fmt.Sprintf("crash-long-%d-%d", seed, i), "steep", rng)
		rich := vcontent{txProb: 0.9, maxTx: 6, offsets: []int64{0}}
		m := tr.extend(rng, tr.genesis, 132+rng.Intn(6), rich, &norm)
		sc := &crashScenario{name: "long-pruning", tr: tr, mode: "pruning", ops: [][]*vblk{m[:60], m[60:]}}
		total += sc.run(w, rng, maxPts, false)
		nsc++
	}
	fmt.Printf("VERIF-STAT scenarios=%d points=%d events=%d\n", nsc, total, w.n)
}
