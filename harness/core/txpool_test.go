//go:build verif

package core

// C15 driver: seeded random histories (adds, replacements around the price bump, gas price changes,
// head advances, reorganisations) and concurrent submissions against the real core.TxPool over a fake
// block tree with real state; after every operation the pool is projected under pool.mu.

import (
	"fmt"
	"math/big"
	"math/rand"
	"os"
	"sort"
	"sync"
	"testing"
	"time"

	"gitlab.com/aquachain/aquachain/aqua/event"
	"gitlab.com/aquachain/aquachain/aquadb"
	"gitlab.com/aquachain/aquachain/common"
	"gitlab.com/aquachain/aquachain/core/state"
	"gitlab.com/aquachain/aquachain/core/types"
	"gitlab.com/aquachain/aquachain/params"
)

type vpblock struct {
	b      *types.Block
	parent *vpblock
}

type vpchain struct {
	mu     sync.Mutex
	sdb    state.Database
	blocks map[common.Hash]*vpblock
	cur    *vpblock
	feed   event.Feed
	ctr    int
}

func (c *vpchain) CurrentBlock() *types.Block {
	c.mu.Lock()
	defer c.mu.Unlock()
	return c.cur.b
}
func (c *vpchain) GetBlock(h common.Hash, n uint64) *types.Block {
	c.mu.Lock()
	defer c.mu.Unlock()
	if b, ok := c.blocks[h]; ok {
		return b.b
	}
	return nil
}
func (c *vpchain) StateAt(root common.Hash) (*state.StateDB, error) { return state.New(root, c.sdb) }
func (c *vpchain) SubscribeChainHeadEvent(ch chan<- ChainHeadEvent) event.Subscription {
	return c.feed.Subscribe(ch)
}

// newBlock builds a child of parent whose state is the parent's state changed by mutate
func (c *vpchain) newBlock(parent *vpblock, gasLimit uint64, txs types.Transactions, mutate func(*state.StateDB)) *vpblock {
	var st *state.StateDB
	var num uint64
	var ph common.Hash
	if parent == nil {
		st, _ = state.New(common.Hash{}, c.sdb)
	} else {
		st, _ = state.New(parent.b.Root(), c.sdb)
		num = parent.b.NumberU64() + 1
		ph = parent.b.Hash()
	}
	mutate(st)
	root, err := st.Commit(false)
	if err != nil {
		panic(err)
	}
	c.sdb.TrieDB().Commit(root, false)
	c.ctr++
	h := &types.Header{ParentHash: ph, Number: new(big.Int).SetUint64(num), GasLimit: gasLimit, Root: root,
		Difficulty: big.NewInt(1), Time: big.NewInt(int64(c.ctr)), Extra: []byte(fmt.Sprintf("vp%d", c.ctr)), Version: 1}
	b := types.NewBlock(h, txs, nil, nil)
	vb := &vpblock{b: b, parent: parent}
	c.mu.Lock()
	c.blocks[b.Hash()] = vb
	c.mu.Unlock()
	return vb
}

type vptx struct {
	id string
	tx *types.Transaction
	s  int
}

type vpool struct {
	rng    *rand.Rand
	w      *vwriter
	chain  *vpchain
	pool   *TxPool
	signer types.Signer
	nkeys  int
	txs    map[common.Hash]*vptx
	ntx    int
	roomy  bool
}

func (v *vpool) sid(a common.Address) string {
	for i := 0; i < v.nkeys; i++ {
		if vaddr(vkey(i)) == a {
			return fmt.Sprintf("s%d", i)
		}
	}
	return "s?"
}

func (v *vpool) txJSON(t *vptx) map[string]interface{} {
	return map[string]interface{}{"id": t.id, "nonce": int(t.tx.Nonce()), "price": int(t.tx.GasPrice().Int64()),
		"cost": int(t.tx.Cost().Int64()), "gas": int(t.tx.Gas()), "fresh": true}
}

func (v *vpool) listJSON(txs types.Transactions) []map[string]interface{} {
	out := []map[string]interface{}{}
	for _, tx := range txs {
		id := "?"
		if t, ok := v.txs[tx.Hash()]; ok {
			id = t.id
		}
		out = append(out, map[string]interface{}{"id": id, "nonce": int(tx.Nonce()), "price": int(tx.GasPrice().Int64()),
			"cost": int(tx.Cost().Int64()), "gas": int(tx.Gas())})
	}
	return out
}

// project reads the pool's own structures under pool.mu (in-package)
func (v *vpool) project() map[string]interface{} {
	p := v.pool
	p.mu.Lock()
	defer p.mu.Unlock()
	senders, locals := []string{}, []string{}
	nonce, balance, pnonce := map[string]int{}, map[string]int{}, map[string]int{}
	pending, queue := map[string]interface{}{}, map[string]interface{}{}
	for i := 0; i < v.nkeys; i++ {
		a := vaddr(vkey(i))
		s := fmt.Sprintf("s%d", i)
		senders = append(senders, s)
		nonce[s] = int(p.currentState.GetNonce(a))
		bal := p.currentState.GetBalance(a)
		if bal.BitLen() > 30 {
			bal = big.NewInt(1 << 30)
		}
		balance[s] = int(bal.Int64())
		pnonce[s] = int(p.pendingState.GetNonce(a))
		if l := p.pending[a]; l != nil {
			pending[s] = v.listJSON(l.Flatten())
		} else {
			pending[s] = []int{}
		}
		if l := p.queue[a]; l != nil {
			queue[s] = v.listJSON(l.Flatten())
		} else {
			queue[s] = []int{}
		}
		if p.locals.contains(a) {
			locals = append(locals, s)
		}
	}
	orphans := []string{}
	listed := map[common.Hash]bool{}
	for _, l := range p.pending {
		for _, tx := range l.Flatten() {
			listed[tx.Hash()] = true
		}
	}
	for _, l := range p.queue {
		for _, tx := range l.Flatten() {
			listed[tx.Hash()] = true
		}
	}
	for h := range p.all {
		if !listed[h] {
			id := "?"
			if t, ok := v.txs[h]; ok {
				id = fmt.Sprintf("%s(s%d,n%d)", t.id, t.s, t.tx.Nonce())
			}
			orphans = append(orphans, id)
		}
	}
	sort.Strings(orphans)
	return map[string]interface{}{"orphans": orphans, "senders": senders, "nonce": nonce, "balance": balance, "pnonce": pnonce,
		"gasLimit": int(p.currentMaxGas), "gasPrice": int(p.gasPrice.Int64()), "pending": pending, "queue": queue,
		"locals": locals, "all": len(p.all)}
}

func (v *vpool) mkTx(s int, nonce uint64, price int64, gas uint64, value int64) *vptx {
	tx, err := types.SignTx(types.NewTransaction(nonce, common.BigToAddress(big.NewInt(0xbeef)), big.NewInt(value), gas, big.NewInt(price), nil), v.signer, vkey(s))
	if err != nil {
		panic(err)
	}
	v.ntx++
	t := &vptx{id: fmt.Sprintf("x%d", v.ntx), tx: tx, s: s}
	v.txs[tx.Hash()] = t
	return t
}

func (v *vpool) emitOp(op, s string, tx map[string]interface{}, err error, dropped []map[string]interface{}, depth int) {
	e := ""
	if err != nil {
		e = err.Error()
		if len(e) > 40 {
			e = e[:40]
		}
	}
	if tx == nil {
		tx = map[string]interface{}{"id": "-", "nonce": 0, "price": 0, "cost": 0, "gas": 0, "fresh": false}
	}
	if dropped == nil {
		dropped = []map[string]interface{}{}
	}
	v.w.emit(map[string]interface{}{"e": "op", "op": op, "s": s, "tx": tx, "err": e, "dropped": dropped, "depth": depth, "proj": v.project()})
}

var vpFair bool // next pool: AccountSlots 1, GlobalSlots 9

func newVPool(rng *rand.Rand, w *vwriter, roomy bool) *vpool {
	v := &vpool{rng: rng, w: w, nkeys: 5, txs: map[common.Hash]*vptx{}, roomy: roomy,
		signer: types.NewEIP155Signer(params.TestChainConfig.ChainId)}
	v.chain = &vpchain{sdb: state.NewDatabase(aquadb.NewMemDatabase()), blocks: map[common.Hash]*vpblock{}}
	g := v.chain.newBlock(nil, 1000000, nil, func(st *state.StateDB) {
		for i := 0; i < v.nkeys; i++ {
			st.AddBalance(vaddr(vkey(i)), big.NewInt(int64(200000000+rng.Intn(100000000))))
		}
	})
	v.chain.cur = g
	cfg := TxPoolConfig{NoLocals: false, Journal: "", Rejournal: time.Hour, PriceLimit: 2, PriceBump: 10,
		AccountSlots: 2, GlobalSlots: 5, AccountQueue: 3, GlobalQueue: 6, Lifetime: 3 * time.Hour}
	if roomy {
		cfg.AccountSlots, cfg.GlobalSlots, cfg.AccountQueue, cfg.GlobalQueue = 16, 4096, 64, 1024
	}
	if vpFair {
		// the pool-wide limit can be met by equalising the senders alone (no second trimming phase)
		cfg.AccountSlots, cfg.GlobalSlots, cfg.AccountQueue, cfg.GlobalQueue = 1, 9, 3, 8
	}
	v.pool = NewTxPool(cfg, params.TestChainConfig, v.chain)
	w.emit(map[string]interface{}{"e": "cfg", "cfg": map[string]interface{}{"priceLimit": int(cfg.PriceLimit), "bump": int(cfg.PriceBump),
		"accountSlots": int(cfg.AccountSlots), "globalSlots": int(cfg.GlobalSlots), "accountQueue": int(cfg.AccountQueue),
		"globalQueue": int(cfg.GlobalQueue), "roomy": roomy}, "proj": v.project()})
	return v
}

// a transaction for sender s shaped by the pool's current view
func (v *vpool) randomTx(s int) *vptx {
	rng, p := v.rng, v.pool
	a := vaddr(vkey(s))
	p.mu.Lock()
	stNonce := p.currentState.GetNonce(a)
	plen := uint64(0)
	if l := p.pending[a]; l != nil {
		plen = uint64(l.Len())
	}
	var same *types.Transaction
	nonce := stNonce + plen
	switch r := rng.Intn(10); {
	case r < 5: // next executable nonce
	case r < 7: // a gap
		nonce += uint64(1 + rng.Intn(3))
	case r < 9 && plen > 0: // an occupied nonce -> replacement
		nonce = stNonce + uint64(rng.Intn(int(plen)))
		same = p.pending[a].txs.Get(nonce)
	default:
		if stNonce > 0 {
			nonce = stNonce - 1 // stale
		}
	}
	if same == nil {
		if l := p.queue[a]; l != nil {
			same = l.txs.Get(nonce)
		}
	}
	p.mu.Unlock()
	price := int64(1 + rng.Intn(40))
	if same != nil && rng.Intn(4) != 0 {
		// around the bump threshold: old*(100+10)/100 -1, exact, +1; and old, old+1
		old := same.GasPrice().Int64()
		thr := old * 110 / 100
		price = []int64{thr - 1, thr, thr + 1, old, old + 1, thr + 5}[rng.Intn(6)]
		if price < 1 {
			price = 1
		}
	}
	gas := uint64(21000)
	switch rng.Intn(12) {
	case 0:
		gas = 50000
	case 1:
		gas = 2000000 // above the block gas limit
	case 2:
		gas = 20999 // below intrinsic
	}
	value := int64(rng.Intn(1000))
	if rng.Intn(15) == 0 {
		value = 900000000 // unaffordable
	}
	return v.mkTx(s, nonce, price, gas, value)
}

func (v *vpool) opAdd() {
	s := v.rng.Intn(v.nkeys)
	t := v.randomTx(s)
	var err error
	local := s == 0 && v.rng.Intn(2) == 0
	if local {
		err = v.pool.AddLocal(t.tx)
	} else {
		err = v.pool.AddRemote(t.tx)
	}
	v.emitOp("add", fmt.Sprintf("s%d", s), v.txJSON(t), err, nil, 0)
	if v.rng.Intn(10) == 0 { // the same transaction again: must be refused as known, nothing changes
		err = v.pool.AddRemote(t.tx)
		j := v.txJSON(t)
		j["fresh"] = false
		v.emitOp("add", fmt.Sprintf("s%d", s), j, err, nil, 0)
	}
}

func (v *vpool) opBatch() {
	var txs []*types.Transaction
	for i := 0; i < 2+v.rng.Intn(4); i++ {
		txs = append(txs, v.randomTx(v.rng.Intn(v.nkeys)).tx)
	}
	v.pool.AddRemotes(txs)
	v.emitOp("batch", "-", nil, nil, nil, 0)
}

// pending transactions of the pool, per sender in nonce order
func (v *vpool) pendingOf() map[common.Address]types.Transactions {
	p, _ := v.pool.Pending()
	return p
}

// build a block on parent that includes the first k pending transactions of some senders
func (v *vpool) mine(parent *vpblock, fromPool bool) *vpblock {
	rng := v.rng
	var txs types.Transactions
	if fromPool {
		pend := v.pendingOf()
		addrs := make([]common.Address, 0, len(pend))
		for a := range pend {
			addrs = append(addrs, a)
		}
		sort.Slice(addrs, func(i, j int) bool { return addrs[i].Hex() < addrs[j].Hex() })
		pst, _ := v.chain.StateAt(parent.b.Root())
		for _, a := range addrs {
			if rng.Intn(3) == 0 {
				continue
			}
			k := 1 + rng.Intn(len(pend[a]))
			n := pst.GetNonce(a)
			for _, tx := range pend[a][:k] {
				if tx.Nonce() != n { // only what is executable on this parent
					break
				}
				txs = append(txs, tx)
				n++
			}
		}
	}
	gl := uint64(1000000)
	if rng.Intn(6) == 0 {
		gl = 40000 // the block gas limit drops: 50000-gas transactions become unexecutable
	}
	pendAll, queueAll := v.pool.Content()
	return v.chain.newBlock(parent, gl, txs, func(st *state.StateDB) {
		for _, tx := range txs {
			from, _ := types.Sender(v.signer, tx)
			st.SetNonce(from, tx.Nonce()+1)
			if st.GetBalance(from).Cmp(tx.Cost()) >= 0 {
				st.SubBalance(from, tx.Cost())
			} else {
				st.SetBalance(from, new(big.Int))
			}
		}
		for i := 0; i < v.nkeys; i++ {
			a := vaddr(vkey(i))
			switch rng.Intn(8) {
			case 0: // drained
				st.SetBalance(a, big.NewInt(int64(rng.Intn(300000))))
			case 1: // funded
				st.AddBalance(a, big.NewInt(int64(rng.Intn(5000000))))
			case 2: // one wei short of (or exactly) the most expensive pooled transaction of this sender
				var max *big.Int
				for _, tx := range append(append(types.Transactions{}, pendAll[a]...), queueAll[a]...) {
					if max == nil || tx.Cost().Cmp(max) > 0 {
						max = tx.Cost()
					}
				}
				if max != nil && max.Sign() > 0 {
					st.SetBalance(a, new(big.Int).Sub(max, big.NewInt(int64(rng.Intn(2)))))
				}
			}
			if st.GetBalance(a).BitLen() > 29 {
				st.SetBalance(a, big.NewInt(400000000))
			}
		}
	})
}

func (v *vpool) opHead() {
	old := v.chain.cur
	nb := v.mine(old, true)
	v.chain.mu.Lock()
	v.chain.cur = nb
	v.chain.mu.Unlock()
	v.pool.lockedReset(old.b.Header(), nb.b.Header())
	v.emitOp("head", "-", nil, nil, nil, 0)
}

func (v *vpool) opReorg() {
	old := v.chain.cur
	depth := 1 + v.rng.Intn(3)
	anc := old
	for i := 0; i < depth && anc.parent != nil; i++ {
		anc = anc.parent
	}
	if anc == old {
		return
	}
	// new branch: sometimes shorter, equal or longer than the abandoned one
	n := 1 + v.rng.Intn(depth+1)
	tip := anc
	for i := 0; i < n; i++ {
		tip = v.mine(tip, v.rng.Intn(2) == 0)
	}
	// dropped = transactions of the abandoned branch that the new branch does not contain
	inNew := map[common.Hash]bool{}
	for b := tip; b != anc; b = b.parent {
		for _, tx := range b.b.Transactions() {
			inNew[tx.Hash()] = true
		}
	}
	var dropped []map[string]interface{}
	for b := old; b != anc; b = b.parent {
		for _, tx := range b.b.Transactions() {
			if !inNew[tx.Hash()] {
				t := v.txs[tx.Hash()]
				j := v.txJSON(t)
				j["s"] = fmt.Sprintf("s%d", t.s)
				dropped = append(dropped, j)
			}
		}
	}
	v.chain.mu.Lock()
	v.chain.cur = tip
	v.chain.mu.Unlock()
	v.pool.lockedReset(old.b.Header(), tip.b.Header())
	d := int(old.b.NumberU64()) - int(tip.b.NumberU64())
	if d < 0 {
		d = -d
	}
	v.emitOp("reset", "-", nil, nil, dropped, d)
}

// senders with UNEVEN numbers of executable transactions overflow the pool-wide slot limit in one batch (the equalisation
// phase of the limit enforcement), then each of them submits the nonce one above what it was left with: a gap, to be queued
func (v *vpool) directedUneven() {
	var txs []*types.Transaction
	counts := []int{0, 3 + v.rng.Intn(4), 3 + v.rng.Intn(2), 1 + v.rng.Intn(3), 3} // sender 0 (possibly local) stays out
	for s, n := range counts {
		for k := 0; k < n; k++ {
			txs = append(txs, v.mkTx(s, uint64(k), int64(3+v.rng.Intn(5)), 21000, 1).tx)
		}
	}
	v.rng.Shuffle(len(txs), func(i, j int) { txs[i], txs[j] = txs[j], txs[i] })
	v.pool.AddRemotes(txs)
	v.emitOp("batch", "-", nil, nil, nil, 0)
	pend := v.pendingOf()
	for s := 1; s < len(counts); s++ {
		left := uint64(len(pend[vaddr(vkey(s))]))
		for _, nonce := range []uint64{uint64(counts[s]), left + 1} { // the nonce after what was submitted / after a one-nonce hole
			if nonce <= left {
				continue
			}
			t := v.mkTx(s, nonce, 9, 21000, 1)
			err := v.pool.AddRemote(t.tx)
			v.emitOp("add", fmt.Sprintf("s%d", s), v.txJSON(t), err, nil, 0)
		}
	}
}

// equalisation only: two senders with 4 executable transactions and one with 2 against a pool-wide limit of 9; the trimmed
// senders then submit the nonce after the one they lost
func (v *vpool) directedEqualise() {
	add := func(s, n int) {
		var txs []*types.Transaction
		for k := 0; k < n; k++ {
			txs = append(txs, v.mkTx(s, uint64(k), 5, 21000, 1).tx)
		}
		v.pool.AddRemotes(txs)
		v.emitOp("batch", "-", nil, nil, nil, 0)
	}
	a, c, b := 1+v.rng.Intn(2), 3, 4
	add(a, 4)
	add(c, 4)
	add(b, 2)
	for _, s := range []int{a, c} {
		t := v.mkTx(s, 4, 7, 21000, 1)
		err := v.pool.AddRemote(t.tx)
		v.emitOp("add", fmt.Sprintf("s%d", s), v.txJSON(t), err, nil, 0)
	}
}

// a full pool whose cheapest transaction is a LOCAL one; the sender of the cheapest remote transaction then submits the same
// nonce again at the same price and at a price below the bump: neither may take the place of the pooled one (through the
// eviction of "the cheapest remote transaction" it used to)
func (v *vpool) directedEvictReplace() {
	add := func(s int, nonce uint64, price int64, value int64, local bool) {
		t := v.mkTx(s, nonce, price, 21000, value)
		var err error
		if local {
			err = v.pool.AddLocal(t.tx)
		} else {
			err = v.pool.AddRemote(t.tx)
		}
		v.emitOp("add", fmt.Sprintf("s%d", s), v.txJSON(t), err, nil, 0)
	}
	limit := int(v.pool.config.GlobalSlots + v.pool.config.GlobalQueue)
	size := func() int {
		v.pool.mu.RLock()
		defer v.pool.mu.RUnlock()
		return len(v.pool.all)
	}
	add(0, 0, 13, 1, true)
	add(1, 0, 40, 1, false)
	// executable transactions of three other senders, then their queued ones, until the pool is full
	next := map[int]uint64{}
	for k := 0; size() < limit && k < 4*limit; k++ {
		s := 2 + k%3
		add(s, next[s], 50+int64(k), 1, false)
		next[s]++
	}
	for k := 0; size() < limit && k < 4*limit; k++ {
		s := 2 + k%3
		add(s, next[s]+2+uint64(k/3), 70+int64(k), 1, false)
	}
	add(1, 0, 40, 2, false) // same nonce, same price
	add(1, 0, 42, 3, false) // same nonce, 5 % more
	add(1, 0, 44, 4, false) // same nonce, 10 % more: a replacement
}

func (v *vpool) history(nops int) {
	if vpFair {
		v.directedEqualise()
	} else if !v.roomy {
		if v.rng.Intn(2) == 0 {
			v.directedEvictReplace()
		} else {
			v.directedUneven()
		}
	}
	for i := 0; i < nops; i++ {
		switch r := v.rng.Intn(20); {
		case r < 11:
			v.opAdd()
		case r < 13:
			v.opBatch()
		case r < 14:
			v.pool.SetGasPrice(big.NewInt(int64(1 + v.rng.Intn(12))))
			v.emitOp("gasprice", "-", nil, nil, nil, 0)
		case r < 17:
			v.opHead()
		default:
			v.opReorg()
		}
	}
	v.pool.Stop()
}

// concurrent submissions while the head advances through the chain head feed; a sampler projects
func (v *vpool) concurrent(dur time.Duration) {
	var wg sync.WaitGroup
	stop := make(chan struct{})
	var mu sync.Mutex // serialises the driver's rng and tx table only
	for g := 0; g < 4; g++ {
		wg.Add(1)
		go func(g int) {
			defer wg.Done()
			for {
				select {
				case <-stop:
					return
				default:
				}
				mu.Lock()
				t := v.randomTx(v.rng.Intn(v.nkeys))
				mu.Unlock()
				v.pool.AddRemote(t.tx)
			}
		}(g)
	}
	wg.Add(1)
	go func() {
		defer wg.Done()
		for {
			select {
			case <-stop:
				return
			case <-time.After(2 * time.Millisecond):
			}
			mu.Lock()
			old := v.chain.cur
			nb := v.mine(old, true)
			v.chain.mu.Lock()
			v.chain.cur = nb
			v.chain.mu.Unlock()
			mu.Unlock()
			v.chain.feed.Send(ChainHeadEvent{nb.b})
		}
	}()
	deadline := time.After(dur)
loop:
	for {
		select {
		case <-deadline:
			break loop
		case <-time.After(500 * time.Microsecond):
			mu.Lock()
			v.w.emit(map[string]interface{}{"e": "sample", "proj": v.project()})
			mu.Unlock()
		}
	}
	close(stop)
	wg.Wait()
	time.Sleep(20 * time.Millisecond)
	v.w.emit(map[string]interface{}{"e": "sample", "proj": v.project()})
	v.pool.Stop()
}

func vpFairHistory(v *vpool, nops int) {
	vpFair = true
	v.history(nops)
	vpFair = false
}

func TestVerifTxPool(t *testing.T) {
	out := os.Getenv("VERIF_OUT")
	if out == "" {
		t.Skip("VERIF_OUT not set")
	}
	seed := int64(envInt("VERIF_SEED", 1))
	nh := envInt("VERIF_HIST", 20)
	nops := envInt("VERIF_OPS", 60)
	conc := envInt("VERIF_CONC_MS", 300)
	w := newVWriter(out)
	defer w.close()
	rng := rand.New(rand.NewSource(seed*15485863 + 11))
	for h := 0; h < nh; h++ {
		v := newVPool(rng, w, h%2 == 1)
		v.history(nops)
	}
	for h := 0; h < 2; h++ {
		vpFair = true
		v := newVPool(rng, w, false)
		vpFair = false
		vpFairHistory(v, nops/2)
	}
	for c := 0; c < 2 && conc > 0; c++ {
		v := newVPool(rng, w, c == 1)
		v.concurrent(time.Duration(conc) * time.Millisecond)
	}
	fmt.Printf("VERIF-STAT histories=%d events=%d\n", nh, w.n)
}
