//go:build verif

package vm

// C08 driver: boundary-lattice operand vectors for every computational opcode and seeded random programs
// (arithmetic, stack, memory, control flow, call-data / code access, SHA3) are executed by the real interpreter
// in three fork epochs with a step tracer; TLC (EVMTrace.tla) re-executes every program with the TLA+ reference
// EVM.tla / Word256.tla and compares step by step.

import (
	"bufio"
	"encoding/json"
	"fmt"
	"math/big"
	"math/rand"
	"os"
	"strconv"
	"testing"
	"time"

	"gitlab.com/aquachain/aquachain/aquadb"
	"gitlab.com/aquachain/aquachain/common"
	"gitlab.com/aquachain/aquachain/core/state"
	"gitlab.com/aquachain/aquachain/crypto"
	"gitlab.com/aquachain/aquachain/params"
)

type evw struct {
	w *bufio.Writer
	n int
}

func (v *evw) emit(e interface{}) {
	b, err := json.Marshal(e)
	if err != nil {
		panic(err)
	}
	v.w.Write(b)
	v.w.WriteByte('\n')
	v.n++
}
func eints(b []byte) []int {
	o := make([]int, len(b))
	for i, x := range b {
		o[i] = int(x)
	}
	return o
}

// little-endian bytes without trailing zeros: the Nat256 representation
func wordLE(x *big.Int) []int {
	be := x.Bytes()
	o := make([]int, len(be))
	for i := range be {
		o[i] = int(be[len(be)-1-i])
	}
	return o
}

type stepTracer struct {
	steps [][4]int
	sha3  [][]int
}

func (t *stepTracer) CaptureStart(from, to common.Address, call bool, input []byte, gas uint64, value *big.Int) error {
	return nil
}
func (t *stepTracer) CaptureState(env *EVM, pc uint64, op OpCode, gas, cost uint64, memory *Memory, stack *Stack, contract *Contract, depth int, err error) error {
	c := int(cost)
	if err != nil {
		c = -1
	}
	t.steps = append(t.steps, [4]int{int(pc), int(op), int(gas), c})
	if op == SHA3 && err == nil && stack.len() >= 2 {
		off, l := stack.Back(0), stack.Back(1)
		if off.IsUint64() && l.IsUint64() && l.Uint64() < 1<<21 && off.Uint64() < 1<<21 {
			data := memory.Get(int64(off.Uint64()), int64(l.Uint64()))
			t.sha3 = append(t.sha3, wordLE(new(big.Int).SetBytes(crypto.Keccak256(data))))
		}
	}
	return nil
}
func (t *stepTracer) CaptureFault(env *EVM, pc uint64, op OpCode, gas, cost uint64, memory *Memory, stack *Stack, contract *Contract, depth int, err error) error {
	return nil
}
func (t *stepTracer) CaptureEnd(output []byte, gasUsed uint64, tm time.Duration, err error) error {
	return nil
}

type epoch struct {
	name    string
	cfg     *params.ChainConfig
	num     int64
	expByte int
}

func epochs() []epoch {
	big0 := big.NewInt(0)
	home := &params.ChainConfig{ChainId: big.NewInt(1), HomesteadBlock: big0, EIP150Block: big0, Aquahash: new(params.AquahashConfig), HF: params.ForkMap{}}
	byz := &params.ChainConfig{ChainId: big.NewInt(1), HomesteadBlock: big0, EIP150Block: big0, EIP155Block: big0, EIP158Block: big0, ByzantiumBlock: big0,
		Aquahash: new(params.AquahashConfig), HF: params.ForkMap{1: big0}}
	return []epoch{
		{"homestead", home, 10, 10},                  // no HF1: EXP byte cost 10, no REVERT, no shifts
		{"byzantium", byz, 10, 50},                   // HF1 gas table, REVERT valid, shifts invalid
		{"spring", params.TestChainConfig, 8, 50},    // HF5 active at height 8: Constantinople/spring table
		{"byzantium", params.TestChainConfig, 0, 10}, // the test schedule before HF1: Byzantium table, Homestead gas table
	}
}

var lattice = func() []*big.Int {
	p := func(n uint) *big.Int { return new(big.Int).Lsh(big.NewInt(1), n) }
	sub := func(a *big.Int, k int64) *big.Int { return new(big.Int).Sub(a, big.NewInt(k)) }
	add := func(a *big.Int, k int64) *big.Int { return new(big.Int).Add(a, big.NewInt(k)) }
	return []*big.Int{big.NewInt(0), big.NewInt(1), big.NewInt(2), big.NewInt(7), big.NewInt(31), big.NewInt(32), big.NewInt(255), big.NewInt(256), big.NewInt(257),
		sub(p(64), 1), p(64), sub(p(255), 1), p(255), add(p(255), 1), sub(p(256), 2), sub(p(256), 1)}
}()

func push32(x *big.Int) []byte {
	return append([]byte{0x7f}, common.LeftPadBytes(x.Bytes(), 32)...)
}

var retTail = []byte{0x60, 0x00, 0x52, 0x60, 0x20, 0x60, 0x00, 0xf3} // PUSH1 0 MSTORE PUSH1 32 PUSH1 0 RETURN

func runProgram(w *evw, ep epoch, code, data []byte, gas uint64, src string) {
	db := state.NewDatabase(aquadb.NewMemDatabase())
	st, _ := state.New(common.Hash{}, db)
	addr := common.HexToAddress("0xc0de")
	st.SetCode(addr, code)
	tr := &stepTracer{sha3: [][]int{}, steps: [][4]int{}}
	ctx := Context{CanTransfer: func(StateDB, common.Address, *big.Int) bool { return true }, Transfer: func(StateDB, common.Address, common.Address, *big.Int) {},
		GetHash: func(uint64) common.Hash { return common.Hash{} }, Origin: common.HexToAddress("0x5e"), Coinbase: common.Address{}, BlockNumber: big.NewInt(ep.num),
		Time: big.NewInt(1), Difficulty: big.NewInt(1), GasLimit: 10000000, GasPrice: big.NewInt(1)}
	evm := NewEVM(ctx, st, ep.cfg, Config{Debug: true, Tracer: tr})
	var ret []byte
	var left uint64
	var err error
	pn := ""
	func() {
		defer func() {
			if r := recover(); r != nil {
				pn = fmt.Sprint(r)
			}
		}()
		ret, left, err = evm.Call(AccountRef(common.HexToAddress("0x5e")), addr, data, gas, new(big.Int))
	}()
	status := "ok"
	switch {
	case pn != "":
		status = "panic"
	case err == errExecutionReverted:
		status = "revert"
	case err != nil:
		status = "error"
	}
	w.emit(map[string]interface{}{"e": "run", "src": src, "epoch": ep.name, "expByte": ep.expByte, "code": eints(code), "data": eints(data), "gas": int(gas),
		"steps": tr.steps, "sha3": tr.sha3, "status": status, "ret": eints(ret), "gasLeft": int(left), "err": fmt.Sprint(err), "panic": pn})
}

func TestVerifEVM(t *testing.T) {
	out := os.Getenv("VERIF_OUT")
	if out == "" {
		t.Skip("VERIF_OUT not set")
	}
	seed, _ := strconv.ParseInt(os.Getenv("VERIF_SEED"), 10, 64)
	nvec, _ := strconv.Atoi(os.Getenv("VERIF_VEC")) // operand pairs per opcode (0 = the whole lattice)
	nprog, _ := strconv.Atoi(os.Getenv("VERIF_PROG"))
	if nprog == 0 {
		nprog = 150
	}
	f, err := os.Create(out)
	if err != nil {
		t.Fatal(err)
	}
	defer f.Close()
	w := &evw{w: bufio.NewWriterSize(f, 1<<20)}
	defer w.w.Flush()
	rng := rand.New(rand.NewSource(seed*48271 + 29))
	eps := epochs()
	spring := eps[2]
	// (a) operand lattice
	binops := []byte{0x01, 0x02, 0x03, 0x04, 0x05, 0x06, 0x07, 0x0a, 0x0b, 0x10, 0x11, 0x12, 0x13, 0x14, 0x16, 0x17, 0x18, 0x1a, 0x1b, 0x1c, 0x1d}
	heavy := map[byte]bool{0x04: true, 0x05: true, 0x06: true, 0x07: true, 0x0a: true}
	for _, op := range binops {
		var pairs [][2]*big.Int
		for _, a := range lattice {
			for _, b := range lattice {
				pairs = append(pairs, [2]*big.Int{a, b})
			}
		}
		rng.Shuffle(len(pairs), func(i, j int) { pairs[i], pairs[j] = pairs[j], pairs[i] })
		n := nvec
		if heavy[op] && n > 0 {
			n = n / 3
		}
		if n > 0 && n < len(pairs) {
			pairs = pairs[:n]
		}
		for _, p := range pairs {
			code := append(append(append(push32(p[1]), push32(p[0])...), op), retTail...)
			ep := spring
			if op == 0x0a { // EXP: both byte prices
				ep = eps[rng.Intn(len(eps))]
			}
			runProgram(w, ep, code, nil, 200000, "lattice")
		}
	}
	// unary and ternary
	for _, a := range lattice {
		for _, op := range []byte{0x15, 0x19} {
			runProgram(w, spring, append(append(push32(a), op), retTail...), nil, 100000, "lattice")
		}
	}
	tern := []*big.Int{lattice[0], lattice[1], lattice[3], lattice[7], lattice[9], lattice[12], lattice[15]}
	for _, op := range []byte{0x08, 0x09} {
		cnt := 0
		for _, a := range tern {
			for _, b := range tern {
				for _, n := range tern {
					if nvec > 0 && rng.Intn(343) >= nvec {
						continue
					}
					code := append(append(append(append(push32(n), push32(b)...), push32(a)...), op), retTail...)
					runProgram(w, spring, code, nil, 100000, "lattice")
					cnt++
				}
			}
		}
	}
	// call-data / code access with source offsets across the whole 256-bit range (beyond the data, beyond 2^64 with low bits
	// inside the data): CALLDATALOAD, CALLDATACOPY, CODECOPY
	{
		p2 := func(n uint) *big.Int { return new(big.Int).Lsh(big.NewInt(1), n) }
		offs := append([]*big.Int{}, lattice...)
		for _, o := range []*big.Int{p2(128), new(big.Int).Add(p2(64), big.NewInt(5)), new(big.Int).Add(p2(255), big.NewInt(7)), new(big.Int).Add(p2(192), big.NewInt(33)), big.NewInt(33), big.NewInt(39), big.NewInt(40)} {
			offs = append(offs, o)
		}
		data := make([]byte, 40)
		for i := range data {
			data[i] = byte(0xa0 + i)
		}
		for _, off := range offs {
			runProgram(w, spring, append(append(push32(off), 0x35), retTail...), data, 100000, "lattice")
			for _, cp := range []byte{0x37, 0x39} {
				for _, ln := range []byte{32, 1, 0} {
					code := append([]byte{0x60, ln}, push32(off)...)  // len, srcOffset
					code = append(code, 0x60, 0x00, cp)               // dstOffset = 0, COPY
					code = append(code, 0x60, 0x20, 0x60, 0x00, 0xf3) // RETURN(0, 32)
					runProgram(w, eps[rng.Intn(len(eps))], code, data, 100000, "lattice")
				}
			}
		}
	}
	// every opcode byte in every epoch: the set of valid opcodes (modelled ones) and the halt behaviour of the others
	modelled := map[byte]bool{}
	for _, o := range []byte{0, 1, 2, 3, 4, 5, 6, 7, 8, 9, 10, 11, 16, 17, 18, 19, 20, 21, 22, 23, 24, 25, 26, 27, 28, 29, 32, 53, 54, 55, 56, 57, 80, 81, 82, 83, 86, 87, 88, 89, 90, 91, 243, 253} {
		modelled[o] = true
	}
	for o := 96; o <= 159; o++ {
		modelled[byte(o)] = true
	}
	neverValid := []byte{0x0c, 0x0d, 0x0e, 0x0f, 0x1e, 0x1f, 0x21, 0x2f, 0x46, 0x4f, 0x5c, 0x5f, 0xa5, 0xb0, 0xef, 0xfb, 0xfe}
	for _, ep := range eps {
		for o := 0; o < 256; o++ {
			isNever := false
			for _, x := range neverValid {
				if x == byte(o) {
					isNever = true
				}
			}
			if !modelled[byte(o)] && !isNever {
				continue
			}
			// three words on the stack, then the opcode
			code := []byte{0x60, 0x01, 0x60, 0x02, 0x60, 0x03, byte(o), 0x00}
			runProgram(w, ep, code, []byte{1, 2, 3}, 5000, "opcode")
		}
	}
	// (b) random programs
	pool := []byte{0x01, 0x02, 0x03, 0x04, 0x06, 0x08, 0x0b, 0x10, 0x11, 0x12, 0x14, 0x15, 0x16, 0x17, 0x18, 0x19, 0x1a, 0x1b, 0x1c, 0x1d, 0x20,
		0x35, 0x36, 0x37, 0x38, 0x39, 0x50, 0x51, 0x52, 0x53, 0x56, 0x57, 0x58, 0x59, 0x5a, 0x5b, 0x5b, 0x80, 0x81, 0x82, 0x90, 0x91, 0x8f, 0x9f, 0xf3, 0xfd, 0x00, 0x0a}
	for p := 0; p < nprog; p++ {
		var code []byte
		n := 5 + rng.Intn(40)
		for len(code) < n {
			switch r := rng.Intn(10); {
			case r < 4: // push a constant
				switch rng.Intn(5) {
				case 0:
					code = append(code, 0x60, byte(rng.Intn(256)))
				case 1:
					code = append(code, 0x60, byte(rng.Intn(n+4))) // a plausible jump target / small offset
				case 2:
					code = append(code, push32(lattice[rng.Intn(len(lattice))])...)
				case 3:
					k := 1 + rng.Intn(32)
					b := make([]byte, k)
					rng.Read(b)
					code = append(append(code, byte(0x5f+k)), b...)
				default:
					code = append(code, 0x61, byte(rng.Intn(4)), byte(rng.Intn(256))) // PUSH2: offsets up to 1023
				}
			default:
				code = append(code, pool[rng.Intn(len(pool))])
			}
		}
		if rng.Intn(4) == 0 { // truncated PUSH at the end of the code
			code = append(code, byte(0x60+rng.Intn(32)), 0xaa)
		}
		data := make([]byte, rng.Intn(70))
		rng.Read(data)
		gas := []uint64{0, 1, 2, 3, 50, 200, 1000, 5000, 30000}[rng.Intn(9)]
		runProgram(w, eps[rng.Intn(len(eps))], code, data, gas, "random")
	}
	// loops until out of gas / deep stacks
	runProgram(w, spring, []byte{0x5b, 0x60, 0x01, 0x60, 0x00, 0x56}, nil, 700, "loop")        // JUMPDEST PUSH1 1 PUSH1 0 JUMP: stack grows, ends out of gas
	runProgram(w, spring, []byte{0x5b, 0x58, 0x80, 0x60, 0x00, 0x56}, nil, 40000, "stackover") // ~2 pushes per round: reaches the 1024 limit
	runProgram(w, spring, []byte{0x60, 0x01, 0x60, 0x07, 0x57, 0x00, 0x00, 0x5b, 0x60, 0x2a, 0x60, 0x00, 0x52, 0x60, 0x20, 0x60, 0x00, 0xf3}, nil, 1000, "jumpi-taken")
	for _, dest := range [][]byte{{0x60, 0xff}, {0x60, 0x02}, {0x7f, 0xff, 0xff, 0xff, 0xff, 0xff, 0xff, 0xff, 0xff, 0xff, 0xff, 0xff, 0xff, 0xff, 0xff, 0xff, 0xff, 0xff, 0xff, 0xff, 0xff, 0xff, 0xff, 0xff, 0xff, 0xff, 0xff, 0xff, 0xff, 0xff, 0xff, 0xff, 0xff}} {
		// JUMPI with a zero condition and an invalid destination falls through; with a non-zero condition it halts
		for _, cond := range []byte{0, 1} {
			code := append(append([]byte{0x60, cond}, dest...), 0x57, 0x60, 0x2a, 0x60, 0x00, 0x52, 0x60, 0x20, 0x60, 0x00, 0xf3)
			runProgram(w, spring, code, nil, 1000, "jumpi-invalid-dest")
		}
	}
	// the history of known finding D10, always exercised: SAR(shift = 256, value = 0)
	runProgram(w, spring, append(append(append(push32(big.NewInt(0)), push32(big.NewInt(256))...), 0x1d), retTail...), nil, 100000, "lattice")
	fmt.Printf("VERIF-STAT events=%d\n", w.n)
}
