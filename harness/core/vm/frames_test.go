//go:build verif

package vm

// C07 driver: hostile programs (random bytes, random valid-opcode streams with adversarial operands, recursion to
// depth 1025, precompile calls, writes inside static calls, failing creations) in three fork epochs with several gas
// budgets, under recover and a watchdog. A step tracer records depth, gas, memory and, around every call-family
// instruction, a digest of the tracked world. TLC (EVMFramesTrace.tla) judges.

import (
	"fmt"
	"math/big"
	"math/rand"
	"os"
	"strconv"
	"testing"
	"time"
	"bufio"

	"gitlab.com/aquachain/aquachain/aquadb"
	"gitlab.com/aquachain/aquachain/common"
	"gitlab.com/aquachain/aquachain/core/state"
	"gitlab.com/aquachain/aquachain/crypto"
)

type frameTracer struct {
	st      *state.StateDB
	tracked []common.Address
	seen    map[common.Address]bool
	steps   []map[string]interface{}
	max     int
	maxd    int // deepest call depth seen (not truncated)
	wantDg  map[int]bool // depth -> the next step at this depth carries a digest (it follows a call-family step)
}

func (t *frameTracer) track(a common.Address) {
	if !t.seen[a] {
		t.seen[a] = true
		t.tracked = append(t.tracked, a)
	}
}

func (t *frameTracer) digest(withNonce bool) string {
	var buf []byte
	for _, a := range t.tracked {
		buf = append(buf, a.Bytes()...)
		buf = append(buf, t.st.GetBalance(a).Bytes()...)
		buf = append(buf, 0xfe)
		if withNonce {
			buf = append(buf, byte(t.st.GetNonce(a)), byte(t.st.GetNonce(a)>>8))
		}
		ch := t.st.GetCodeHash(a)
		if ch == (common.Hash{}) {
			ch = crypto.Keccak256Hash(nil)
		}
		buf = append(buf, ch.Bytes()...)
		for i := 0; i < 8; i++ {
			buf = append(buf, t.st.GetState(a, common.BigToHash(big.NewInt(int64(i)))).Bytes()...)
		}
		if t.st.HasSuicided(a) {
			buf = append(buf, 1)
		}
	}
	buf = append(buf, []byte(fmt.Sprintf("|logs=%d|refund=%d", len(t.st.Logs()), t.st.GetRefund()))...)
	return fmt.Sprintf("%x", crypto.Keccak256(buf)[:8])
}

func (t *frameTracer) CaptureStart(from, to common.Address, call bool, input []byte, gas uint64, value *big.Int) error {
	return nil
}
func isCallOp(op OpCode) bool {
	return op == CALL || op == CALLCODE || op == DELEGATECALL || op == STATICCALL || op == CREATE
}
func (t *frameTracer) CaptureState(env *EVM, pc uint64, op OpCode, gas, cost uint64, memory *Memory, stack *Stack, contract *Contract, depth int, err error) error {
	if depth > t.maxd {
		t.maxd = depth
	}
	if len(t.steps) >= t.max {
		return nil
	}
	ev := map[string]interface{}{"d": depth, "pc": int(pc), "op": int(op), "gas": int(gas), "cost": int(cost), "mem": memory.Len(), "stk": stack.len(), "err": err != nil}
	top := -1
	if stack.len() > 0 {
		switch {
		case stack.Back(0).Sign() == 0:
			top = 0
		default:
			top = 1
		}
	}
	ev["top"] = top
	if op == CREATE && err == nil {
		t.track(crypto.CreateAddress(contract.Address(), t.st.GetNonce(contract.Address())))
	}
	if isCallOp(op) && err == nil && stack.len() >= 2 && op != CREATE {
		t.track(common.BigToAddress(stack.Back(1)))
	}
	if t.wantDg[depth] || (isCallOp(op) && err == nil) {
		ev["dg"], ev["dgn"] = t.digest(true), t.digest(false)
		delete(t.wantDg, depth)
	}
	if isCallOp(op) && err == nil {
		t.wantDg[depth] = true
	}
	t.steps = append(t.steps, ev)
	return nil
}
func (t *frameTracer) CaptureFault(env *EVM, pc uint64, op OpCode, gas, cost uint64, memory *Memory, stack *Stack, contract *Contract, depth int, err error) error {
	return nil
}
func (t *frameTracer) CaptureEnd(output []byte, gasUsed uint64, tm time.Duration, err error) error { return nil }

var (
	fA = common.HexToAddress("0x00000000000000000000000000000000000000aa") // entry contract
	fB = common.HexToAddress("0x00000000000000000000000000000000000000bb")
	fC = common.HexToAddress("0x00000000000000000000000000000000000000cc")
	fS = common.HexToAddress("0x5e5e")
)

func callSeq(op byte, to common.Address, value byte, gas []byte) []byte {
	// out/in zero; CALL/CALLCODE take value, DELEGATECALL/STATICCALL do not
	a := newAsmV()
	a.push1(0).push1(0).push1(0).push1(0)
	if op == 0xf1 || op == 0xf2 {
		a.push1(value)
	}
	a.pushN(to.Bytes()).pushN(gas).op(op)
	return a.code
}

type asmV struct{ code []byte }

func newAsmV() *asmV { return &asmV{} }
func (a *asmV) op(b ...byte) *asmV {
	a.code = append(a.code, b...)
	return a
}
func (a *asmV) push1(v byte) *asmV { return a.op(0x60, v) }
func (a *asmV) pushN(b []byte) *asmV {
	a.op(byte(0x60 + len(b) - 1))
	return a.op(b...)
}

func runHostile(w *evw, ep epoch, codes map[common.Address][]byte, input []byte, gas uint64, value int64, src string) {
	db := state.NewDatabase(aquadb.NewMemDatabase())
	st, _ := state.New(common.Hash{}, db)
	for a, c := range codes {
		st.SetCode(a, c)
		st.SetBalance(a, big.NewInt(1000))
		st.SetState(a, common.BigToHash(big.NewInt(1)), common.BigToHash(big.NewInt(7)))
	}
	st.SetBalance(fS, big.NewInt(1000000))
	tr := &frameTracer{st: st, seen: map[common.Address]bool{}, max: 3000, wantDg: map[int]bool{}}
	for _, a := range []common.Address{fS, fA, fB, fC} {
		tr.track(a)
	}
	ctx := Context{CanTransfer: func(db StateDB, a common.Address, v *big.Int) bool { return db.GetBalance(a).Cmp(v) >= 0 },
		Transfer:    func(db StateDB, from, to common.Address, v *big.Int) { db.SubBalance(from, v); db.AddBalance(to, v) },
		GetHash:     func(uint64) common.Hash { return common.Hash{} }, Origin: fS, Coinbase: common.Address{}, BlockNumber: big.NewInt(ep.num),
		Time: big.NewInt(1), Difficulty: big.NewInt(1), GasLimit: 10000000, GasPrice: big.NewInt(1)}
	evm := NewEVM(ctx, st, ep.cfg, Config{Debug: true, Tracer: tr})
	dg0 := tr.digest(true)
	base := append([]common.Address{}, tr.tracked...)
	done := make(chan [3]interface{}, 1)
	go func() {
		defer func() {
			if r := recover(); r != nil {
				s := fmt.Sprint(r)
				if len(s) > 80 {
					s = s[:80]
				}
				done <- [3]interface{}{"panic: " + s, 0, ""}
			}
		}()
		_, left, err := evm.Call(AccountRef(fS), fA, input, gas, big.NewInt(value))
		status := "ok"
		if err == errExecutionReverted {
			status = "revert"
		} else if err != nil {
			status = "error"
		}
		done <- [3]interface{}{status, int(left), fmt.Sprint(err)}
	}()
	var res [3]interface{}
	select {
	case res = <-done:
	case <-time.After(5 * time.Minute):
		evm.Cancel()
		res = [3]interface{}{"hang", 0, "watchdog"}
	}
	// structural indices (a function of the depth column only): p = previous step of the same frame (0 = none),
	// fs = first step of the frame; 1-based
	{
		var stack []int  // index of the last step seen at each open depth
		var starts []int // first step of each open frame
		for i, sp := range tr.steps {
			d := sp["d"].(int)
			for len(stack) > d {
				stack, starts = stack[:len(stack)-1], starts[:len(starts)-1]
			}
			if len(stack) == d {
				sp["p"], sp["fs"] = stack[d-1], starts[d-1]
				stack[d-1] = i + 1
			} else {
				for len(stack) < d-1 { // frames that produced no step of their own
					stack, starts = append(stack, 0), append(starts, i+1)
				}
				stack, starts = append(stack, i+1), append(starts, i+1)
				sp["p"], sp["fs"] = 0, i+1
			}
		}
	}
	if gas > 1<<40 { // the depth-limit runs: gas amounts beyond TLC's integers, only depth and outcome are judged
		w.emit(map[string]interface{}{"e": "depthrun", "src": src, "epoch": ep.name, "status": res[0].(string), "maxDepth": tr.maxd, "err": res[2]})
		return
	}
	status := res[0].(string)
	tr.tracked = base // the closing digest covers the same accounts as the opening one
	byz := ep.name != "homestead"
	w.emit(map[string]interface{}{"e": "frames", "src": src, "epoch": ep.name, "byzantium": byz, "gas": int(gas), "status": status, "gasLeft": res[1],
		"err": res[2], "steps": tr.steps, "truncated": len(tr.steps) >= tr.max, "dg0": dg0, "dgEnd": tr.digest(true), "value": int(value), "maxDepth": tr.maxd})
}

func TestVerifFrames(t *testing.T) {
	out := os.Getenv("VERIF_OUT")
	if out == "" {
		t.Skip("VERIF_OUT not set")
	}
	seed, _ := strconv.ParseInt(os.Getenv("VERIF_SEED"), 10, 64)
	nprog, _ := strconv.Atoi(os.Getenv("VERIF_PROG"))
	if nprog == 0 {
		nprog = 200
	}
	f, err := os.Create(out)
	if err != nil {
		t.Fatal(err)
	}
	defer f.Close()
	w := &evw{w: bufio.NewWriterSize(f, 1<<20)}
	defer w.w.Flush()
	rng := rand.New(rand.NewSource(seed*16807 + 31))
	eps := epochs()
	budgets := []uint64{0, 1, 2300, 20999, 21000, 100000, 3000000}
	big32 := func(x *big.Int) []byte { return common.LeftPadBytes(x.Bytes(), 32) }
	huge := [][]byte{big32(new(big.Int).Sub(new(big.Int).Lsh(big.NewInt(1), 256), big.NewInt(1))), big32(new(big.Int).Lsh(big.NewInt(1), 64)),
		big32(new(big.Int).Sub(new(big.Int).Lsh(big.NewInt(1), 64), big.NewInt(1))), big32(new(big.Int).Lsh(big.NewInt(1), 32)),
		big32(big.NewInt(0xffffffffe0)), big32(big.NewInt(0xffffffffe1)), big32(big.NewInt(0xffffffffdf)), {0x01, 0x00, 0x00}, {0x20}, {0x00}, {0x01}}
	writer := newAsmV().push1(9).push1(2).op(0x55).push1(0).push1(0).op(0xa0).op(0x00).code // SSTORE(2,9) LOG0 STOP
	for p := 0; p < nprog; p++ {
		ep := eps[rng.Intn(len(eps))]
		gas := budgets[rng.Intn(len(budgets))]
		codes := map[common.Address][]byte{}
		src := ""
		switch r := p % 8; r {
		case 0: // uniformly random bytes
			src = "randbytes"
			c := make([]byte, 1+rng.Intn(120))
			rng.Read(c)
			codes[fA] = c
			codes[fB] = writer
		case 1, 2: // random opcode stream with adversarial operands
			src = "advstream"
			a := newAsmV()
			for i := 0; i < 4+rng.Intn(30); i++ {
				if rng.Intn(2) == 0 {
					a.pushN(huge[rng.Intn(len(huge))])
				} else {
					ops := []byte{0x51, 0x52, 0x53, 0x37, 0x39, 0x3c, 0x3e, 0x20, 0xa0, 0xa1, 0xf3, 0xfd, 0x54, 0x55, 0x31, 0x3b, 0x40, 0x56, 0x57, 0xf0, 0xf1, 0xf2, 0xf4, 0xfa, 0xff,
						0x01, 0x0a, 0x80, 0x90, 0x50, 0x59, 0x5a, 0x30, 0x33, 0x34, 0x36, 0x3d, 0x41, 0x42, 0x43, 0x44, 0x45, 0x3a, 0x32, 0x38}
					a.op(ops[rng.Intn(len(ops))])
				}
			}
			codes[fA] = a.code
			codes[fB] = writer
		case 3: // recursion: A calls itself with (almost) all gas until depth or gas runs out
			src = "recursion"
			op := []byte{0xf1, 0xf2, 0xf4, 0xfa}[rng.Intn(4)]
			codes[fA] = append(callSeq(op, fA, 0, []byte{0xff, 0xff, 0xff, 0xff}), 0x50, 0x00)
			if rng.Intn(2) == 0 { // CREATE recursion: init code = own code
				codes[fA] = newAsmV().op(0x38).op(0x80).push1(0).push1(0).op(0x39).push1(0).push1(0).op(0xf0).op(0x50).op(0x00).code
			}
			gas = []uint64{3000000, 10000000, 100000}[rng.Intn(3)]
		case 4: // writes inside a static call (directly, nested, after a nested static call returned)
			src = "static"
			inner := newAsmV().op(callSeq(0xfa, fC, 0, []byte{0xff, 0xff})...).op(0x50).op(writer...).code // B: STATICCALL C; then write
			if rng.Intn(2) == 0 {
				inner = append(callSeq(0xf1, fC, byte(rng.Intn(2)), []byte{0xff, 0xff}), writer...) // B: CALL C (maybe with value); then write
			}
			codes[fA] = append(append(callSeq(0xfa, fB, 0, []byte{0x01, 0xff, 0xff}), 0x50), 0x00)
			codes[fB] = inner
			codes[fC] = [][]byte{{0x00}, writer, {0xfe}, newAsmV().pushN(fS.Bytes()).op(0xff).code}[rng.Intn(4)]
			gas = 300000
		case 5: // a callee that fails in different ways after writing; parent continues
			src = "failing-callee"
			fail := [][]byte{{0xfe}, {0x60, 0x00, 0x60, 0x00, 0xfd}, {0x60, 0x01, 0x56}, {0x5b, 0x60, 0x00, 0x56}, {0x00}}[rng.Intn(5)]
			callee := append(append([]byte{}, writer[:len(writer)-1]...), fail...)
			if rng.Intn(3) == 0 { // also self-destruct before failing
				callee = append(newAsmV().push1(5).push1(3).op(0x55).code, append(newAsmV().pushN(fS.Bytes()).code, 0xff)...)
			}
			op := []byte{0xf1, 0xf2, 0xf4}[rng.Intn(3)]
			codes[fA] = append(append(append(callSeq(op, fB, byte(rng.Intn(3)), []byte{0xff, 0xff}), 0x50), writer[:len(writer)-1]...), 0x00)
			codes[fB] = callee
			gas = 200000
		case 6: // creations: failing init code, value-bearing, out of gas, code too large
			src = "create"
			inits := [][]byte{{0xfe}, {0x60, 0x00, 0x60, 0x00, 0xfd}, {0x00}, append(append([]byte{}, writer[:len(writer)-1]...), 0xfe),
				newAsmV().op(0x61, 0x70, 0x00).push1(0).op(0xf3).code, newAsmV().push1(1).push1(0).op(0xf3).code}
			init := inits[rng.Intn(len(inits))]
			a := newAsmV()
			for i, b := range init { // MSTORE8 the init code byte by byte
				a.push1(b).push1(byte(i)).op(0x53)
			}
			a.push1(byte(len(init))).push1(0).push1(byte(rng.Intn(3))).op(0xf0).op(0x50).op(writer[:len(writer)-1]...).op(0x00)
			codes[fA] = a.code
			gas = 400000
		default: // precompiles with arbitrary input sizes
			src = "precompile"
			a := newAsmV()
			for i := 0; i < 3; i++ {
				a.pushN(huge[7+rng.Intn(4)]).push1(0).pushN(huge[rng.Intn(len(huge))]).push1(0).push1(0).pushN([]byte{byte(1 + rng.Intn(9))}).pushN([]byte{0xff, 0xff, 0xff}).op(0xf1).op(0x50)
			}
			codes[fA] = a.op(0x00).code
		}
		if ep.name == "homestead" && src == "static" {
			ep = eps[2]
		}
		in := make([]byte, rng.Intn(40))
		rng.Read(in)
		runHostile(w, ep, codes, in, gas, int64(rng.Intn(2)*rng.Intn(50)), src)
	}
	// every combination of boundary operands for the instructions that take offsets and lengths
	{
		p2 := func(n uint) *big.Int { return new(big.Int).Lsh(big.NewInt(1), n) }
		bvals := [][]byte{{0x00}, {0x01}, {0x20}, big32(p2(32)), big32(new(big.Int).Sub(p2(64), big.NewInt(1))), big32(p2(64)), big32(new(big.Int).Sub(p2(256), big.NewInt(1)))}
		type opd struct {
			op   byte
			args int
		}
		for _, o := range []opd{{0x37, 3}, {0x39, 3}, {0x3e, 3}, {0x3c, 4}, {0x20, 2}, {0x51, 1}, {0x52, 2}, {0x53, 2}, {0xa0, 2}, {0xf3, 2}, {0xfd, 2}, {0xf0, 3}, {0x35, 1}} {
			idx := make([]int, o.args)
			for {
				a := newAsmV()
				// a preceding identity-precompile call so that RETURNDATA is 32 bytes long
				a.push1(32).push1(0).push1(32).push1(0).push1(0).push1(4).pushN([]byte{0xff, 0xff}).op(0xf1).op(0x50)
				for k := o.args - 1; k >= 0; k-- {
					a.pushN(bvals[idx[k]])
				}
				a.op(o.op).op(0x00)
				ep := eps[2]
				if rng.Intn(3) == 0 {
					ep = eps[1]
				}
				runHostile(w, ep, map[common.Address][]byte{fA: a.code}, []byte{1, 2, 3}, 100000, 0, "boundary-operands")
				k := 0
				for k < o.args {
					idx[k]++
					if idx[k] < len(bvals) {
						break
					}
					idx[k] = 0
					k++
				}
				if k == o.args {
					break
				}
			}
		}
	}
	// the depth limit itself: recursion with practically unlimited gas through every call kind and through CREATE
	for _, ep := range eps {
		for _, op := range []byte{0xf1, 0xf2, 0xf4, 0xfa, 0xf0} {
			if op == 0xfa && ep.name == "homestead" {
				continue
			}
			code := append(callSeq(op, fA, 0, []byte{0xff, 0xff, 0xff, 0xff, 0xff, 0xff, 0xff, 0xff}), 0x50, 0x00)
			if op == 0xf0 {
				code = newAsmV().op(0x38).op(0x80).push1(0).push1(0).op(0x39).push1(0).push1(0).op(0xf0).op(0x50).op(0x00).code
			}
			runHostile(w, ep, map[common.Address][]byte{fA: code}, nil, 1<<62, 0, "depth-limit")
		}
	}
	fmt.Printf("VERIF-STAT events=%d\n", w.n)
}
