//go:build verif

package trie

// C10 driver: seeded operation sequences on trie.Trie / SecureTrie over a MemDatabase (update, delete, hash,
// commit, database commit, reopen, cache limits, iteration, proofs and single-byte alterations of proofs).
// At every checkpoint the root, a dump of the node store, lookups, the iteration and the proofs are recorded;
// TLC (TrieTrace.tla) rebuilds the canonical trie of the content in TLA+ and judges.

import (
	"bufio"
	"bytes"
	"encoding/json"
	"fmt"
	"math/rand"
	"os"
	"sort"
	"strconv"
	"testing"

	"gitlab.com/aquachain/aquachain/aquadb"
	"gitlab.com/aquachain/aquachain/common"
	"golang.org/x/crypto/sha3"
)

type tvw struct {
	w *bufio.Writer
	n int
}

func (v *tvw) emit(e interface{}) {
	b, err := json.Marshal(e)
	if err != nil {
		panic(err)
	}
	v.w.Write(b)
	v.w.WriteByte('\n')
	v.n++
}

func tints(b []byte) []int {
	o := make([]int, len(b))
	for i, x := range b {
		o[i] = int(x)
	}
	return o
}

func indepKeccak(b []byte) common.Hash {
	h := sha3.NewLegacyKeccak256()
	h.Write(b)
	var out common.Hash
	h.Sum(out[:0])
	return out
}

// every node blob known to the database layers, keyed by hash; ok = every key is the keccak of its blob
func dumpStore(db *Database, disk *aquadb.MemDatabase, extra map[common.Hash][]byte) (out [][2][]int, ok bool) {
	ok = true
	out = [][2][]int{}
	seen := map[common.Hash]bool{}
	add := func(h common.Hash, blob []byte) {
		if seen[h] || len(blob) == 0 {
			return
		}
		seen[h] = true
		if indepKeccak(blob) != h {
			ok = false
		}
		out = append(out, [2][]int{tints(h[:]), tints(blob)})
	}
	for _, h := range db.Nodes() {
		if blob, err := db.Node(h); err == nil {
			add(h, blob)
		}
	}
	for _, k := range disk.Keys() {
		if len(k) == 32 {
			v, _ := disk.Get(k)
			add(common.BytesToHash(k), v)
		}
	}
	for h, b := range extra {
		add(h, b)
	}
	return
}

// witness nodes of a content: a fresh trie built from the content in sorted key order. The blobs are only
// candidates: TLC checks that they are the canonical encodings and hang together under the root.
func witness(content map[string][]byte) map[common.Hash][]byte {
	disk := aquadb.NewMemDatabase()
	db := NewDatabase(disk)
	t, _ := New(common.Hash{}, db)
	keys := make([]string, 0, len(content))
	for k := range content {
		keys = append(keys, k)
	}
	sort.Strings(keys)
	for _, k := range keys {
		t.Update([]byte(k), content[k])
	}
	root, _ := t.Commit(nil)
	db.Commit(root, false)
	out := map[common.Hash][]byte{}
	for _, k := range disk.Keys() {
		if len(k) == 32 {
			v, _ := disk.Get(k)
			out[common.BytesToHash(k)] = v
		}
	}
	return out
}

type proofRec struct {
	Key     []int   `json:"key"`
	Nodes   [][]int `json:"nodes"`
	Value   []int   `json:"value"`
	Err     string  `json:"err"`
	MutVals [][]int `json:"mutvals"` // distinct values returned for single-byte alterations of the proof
	MutErrs int     `json:"muterrs"`
	MutN    int     `json:"mutn"`
	Panic   string  `json:"panic"`
}

type orderedProof struct {
	nodes [][]byte
}

func (o *orderedProof) Put(k, v []byte) error {
	o.nodes = append(o.nodes, common.CopyBytes(v))
	return nil
}

func proveAndMutate(rng *rand.Rand, tr *Trie, root common.Hash, key []byte, maxMut int) proofRec {
	rec := proofRec{Key: tints(key), Nodes: [][]int{}, Value: []int{}, MutVals: [][]int{}}
	defer func() {
		if r := recover(); r != nil {
			rec.Panic = fmt.Sprint(r)
		}
	}()
	op := &orderedProof{}
	if err := tr.Prove(key, 0, op); err != nil {
		rec.Err = "prove: " + err.Error()
		return rec
	}
	for _, n := range op.nodes {
		rec.Nodes = append(rec.Nodes, tints(n))
	}
	// a light client stores every blob under ITS OWN hash
	mk := func(nodes [][]byte) *aquadb.MemDatabase {
		m := aquadb.NewMemDatabase()
		for _, n := range nodes {
			h := indepKeccak(n)
			m.Put(h[:], n)
		}
		return m
	}
	val, err, _ := VerifyProof(root, key, mk(op.nodes))
	if err != nil {
		rec.Err = "verify: " + err.Error()
	}
	rec.Value = tints(val)
	// single-byte alterations
	seen := map[string]bool{}
	total := 0
	for _, n := range op.nodes {
		total += len(n)
	}
	for m := 0; m < maxMut && total > 0; m++ {
		ni := rng.Intn(len(op.nodes))
		if len(op.nodes[ni]) == 0 {
			continue
		}
		bi := rng.Intn(len(op.nodes[ni]))
		mut := make([][]byte, len(op.nodes))
		for i := range op.nodes {
			mut[i] = common.CopyBytes(op.nodes[i])
		}
		mut[ni][bi] ^= byte(1 + rng.Intn(255))
		func() {
			defer func() {
				if r := recover(); r != nil {
					rec.Panic = fmt.Sprint(r)
				}
			}()
			v, e, _ := VerifyProof(root, key, mk(mut))
			rec.MutN++
			if e != nil {
				rec.MutErrs++
			} else if !seen[string(v)] {
				seen[string(v)] = true
				rec.MutVals = append(rec.MutVals, tints(v))
			}
		}()
	}
	return rec
}

func TestVerifTrie(t *testing.T) {
	out := os.Getenv("VERIF_OUT")
	if out == "" {
		t.Skip("VERIF_OUT not set")
	}
	seed, _ := strconv.ParseInt(os.Getenv("VERIF_SEED"), 10, 64)
	nseq, _ := strconv.Atoi(os.Getenv("VERIF_SEQ"))
	if nseq == 0 {
		nseq = 30
	}
	f, err := os.Create(out)
	if err != nil {
		t.Fatal(err)
	}
	defer f.Close()
	w := &tvw{w: bufio.NewWriterSize(f, 1<<20)}
	defer w.w.Flush()
	rng := rand.New(rand.NewSource(seed*40503 + 19))
	for s := 0; s < nseq; s++ {
		secure := s%3 == 2
		// key universe: variable-length keys with shared prefixes (one a prefix of another), or 32-byte hashed keys
		var keys [][]byte
		switch {
		case secure:
			for i := 0; i < 10; i++ {
				h := indepKeccak([]byte{byte(i), byte(s)})
				keys = append(keys, h[:])
			}
		case s%3 == 0:
			keys = [][]byte{{}, {0x12}, {0x12, 0x34}, {0x12, 0x34, 0x56}, {0x12, 0x35}, {0x13}, {0x20}, {0x21, 0xff}, {0x12, 0x34, 0x57}, {0xab, 0xcd, 0xef, 0x01}}
		default:
			for i := 0; i < 12; i++ {
				k := make([]byte, 1+rng.Intn(20))
				rng.Read(k)
				if i > 0 && rng.Intn(2) == 0 { // share a prefix with an earlier key
					p := keys[rng.Intn(len(keys))]
					n := rng.Intn(len(p) + 1)
					k = append(common.CopyBytes(p[:n]), k[:1+rng.Intn(len(k))]...)
				}
				keys = append(keys, k)
			}
		}
		mkVal := func() []byte {
			switch rng.Intn(5) {
			case 0:
				return []byte{byte(1 + rng.Intn(0x7e))} // one small byte
			case 1:
				v := make([]byte, 32+rng.Intn(40)) // forces a hashed node
				rng.Read(v)
				return v
			case 2: // lengths around the 32-byte embedding threshold
				v := make([]byte, 1+rng.Intn(31))
				rng.Read(v)
				return v
			default:
				v := make([]byte, 1+rng.Intn(12))
				rng.Read(v)
				v[0] |= 1
				return v
			}
		}
		disk := aquadb.NewMemDatabase()
		db := NewDatabase(disk)
		tr, _ := New(common.Hash{}, db)
		content := map[string][]byte{}
		ops := []interface{}{}
		nops := 8 + rng.Intn(40)
		checkpoint := func(kind string) {
			var root common.Hash
			switch kind {
			case "hash":
				root = tr.Hash()
			case "commit", "dbcommit", "reopen":
				root, _ = tr.Commit(nil)
				if kind != "commit" {
					db.Commit(root, false)
				}
				if kind == "reopen" {
					db = NewDatabase(disk) // drop the memory layer too
					nt, err := New(root, db)
					if err != nil {
						w.emit(map[string]interface{}{"e": "reopenfail", "err": err.Error()})
						return
					}
					tr = nt
					if rng.Intn(2) == 0 {
						tr.SetCacheLimit(uint16(rng.Intn(3)))
					}
				}
			}
			dump, keccakOK := dumpStore(db, disk, witness(content))
			gets := [][2][]int{}
			for _, k := range keys {
				gets = append(gets, [2][]int{tints(k), tints(tr.Get(k))})
			}
			iter := [][2][]int{}
			it := NewIterator(tr.NodeIterator(nil))
			var kept [][2][]byte // as a caller would: collect the pairs, look at them after the walk
			for it.Next() {
				kept = append(kept, [2][]byte{it.Key, it.Value})
			}
			for _, kv := range kept {
				iter = append(iter, [2][]int{tints(kv[0]), tints(kv[1])})
			}
			iterErr := ""
			if it.Err != nil {
				iterErr = it.Err.Error()
			}
			proofs := []proofRec{}
			if kind != "hash" && len(content) > 0 { // proofs need the nodes in the database; an empty trie has no node to prove with
				for i := 0; i < 3; i++ {
					k := keys[rng.Intn(len(keys))]
					if rng.Intn(4) == 0 { // a key outside the universe
						k = append(common.CopyBytes(k), byte(rng.Intn(256)))
					}
					proofs = append(proofs, proveAndMutate(rng, tr, root, k, 60))
				}
			}
			w.emit(map[string]interface{}{"e": "ckpt", "kind": kind, "seq": s, "ops": ops, "root": tints(root[:]), "dump": dump,
				"keccakOK": keccakOK, "gets": gets, "iter": iter, "iterErr": iterErr, "proofs": proofs})
			ops = []interface{}{}
		}
		w.emit(map[string]interface{}{"e": "newtrie", "seq": s})
		for i := 0; i < nops; i++ {
			k := keys[rng.Intn(len(keys))]
			switch r := rng.Intn(10); {
			case r < 6:
				v := mkVal()
				tr.Update(k, v)
				content[string(k)] = v
				ops = append(ops, map[string]interface{}{"op": "put", "k": tints(k), "v": tints(v)})
			case r < 8:
				tr.Delete(k)
				delete(content, string(k))
				ops = append(ops, map[string]interface{}{"op": "del", "k": tints(k), "v": []int{}})
			case r < 9:
				tr.Update(k, nil) // an empty value deletes
				delete(content, string(k))
				ops = append(ops, map[string]interface{}{"op": "del", "k": tints(k), "v": []int{}})
			default:
				checkpoint([]string{"hash", "commit", "dbcommit", "reopen"}[rng.Intn(4)])
			}
		}
		checkpoint("dbcommit")
		checkpoint("reopen")
	}
	_ = bytes.Equal
	fmt.Printf("VERIF-STAT sequences=%d events=%d\n", nseq, w.n)
}
