"""C11 - RLP is a canonical, total and bounded codec.
1. TLC: RLPCheck.tla - the specification's own round trip and uniqueness, exhaustively over a boundary alphabet.
2. Go: every byte string up to a length bound over the same alphabet + seeded mutations of valid encodings + large
   lists with huge declared sizes, through DecodeBytes / Stream / Split / typed targets.
3. TLC: RLPTrace.tla recomputes verdict and term from RLP.tla for every recorded input and compares."""
import os, re, json
from lib import vlib
FAM = ["rlp"]

def run(ctx):
    q = ctx.quick
    if not ctx.replay:
        vlib.model_check(ctx, FAM, "RLPCheck.tla", "RLPCheck.cfg", timeout=1800)
        ctx.exhaustive = True
    trace = os.path.join(ctx.work, "rlp.ndjson")
    rc, out = vlib.go_test(ctx, "rlp", "TestVerifRLP$", env={"VERIF_OUT": trace, "VERIF_MAXLEN": 3 if q else 4,
                           "VERIF_MUT": 2500 if q else 40000}, timeout=3000)
    m = re.search(r"VERIF-STAT events=(\d+)", out)
    if rc != 0 or not m:
        raise vlib.Infra("rlp driver failed (rc=%d):\n%s" % (rc, out[-3000:]))
    v = vlib.validate_trace(ctx, FAM, "RLPTrace.tla", "RLPTrace.cfg", trace, heap="12g", timeout=3000)
    n = 0
    with open(trace) as f:
        for i, line in enumerate(f):
            e = json.loads(line)
            n += 1
            if e["e"] == "enc":
                ctx.signatures.add(("enc", min(len(e["bytes"]), 300), e["term"]["k"]))
                continue
            if e["e"] == "tval":
                ctx.signatures.add(("tval", e["type"], len(e["bytes"]), e["roundtrip"]))
                continue
            ctx.signatures.add((e["src"], e["ok"], e["splitKind"], min(e["n"], 60), sum(1 for t in e["typed"].values() if t["ok"])))
            if len(ctx.samples) < 4 and e["n"] < 12:
                ctx.samples.append({k: e[k] for k in ("src", "in", "ok", "term", "splitKind")})
    ctx.evaluations += n
    if v.accepted:
        ctx.traces_validated += 1
    else:
        line = v.line or 0
        ev = vlib.read_ndjson(trace, limit=line)[-1] if line else {}
        meta = os.path.join(ctx.work, "meta.json")
        json.dump({"seed": ctx.seed, "tier": ctx.tier, "line": line, "invariant": v.violated}, open(meta, "w"))
        inp = ev.get("in", ev.get("bytes", []))
        ctx.violation("RLPTrace invariant %s false at trace line %s: input %s (%d bytes) ok=%s streamOk=%s splitOk=%s panic=%r alloc=%s typed-ok=%s" % (
            v.violated, line, bytes(inp[:40]).hex(), len(inp), ev.get("ok"), ev.get("streamOk"), ev.get("splitOk"), ev.get("panic"), ev.get("alloc"),
            [k for k, t in ev.get("typed", {}).items() if t["ok"]]), ctx.save_replay("trace", [trace, meta]))
    ctx.assumptions = ["allocation measured as runtime.MemStats.TotalAlloc delta around one decode; bound 160*len+4096 (measured maximum on the unchanged tree: 93 bytes per input byte for interface{} boxing)",
                       "RawValue targets are verbatim pass-throughs"]
    vlib.write_evidence(ctx, rule="TLC: all byte strings of length <= 4 over the 13-byte boundary alphabet for the specification itself; "
        "Go: all strings of length <= 3 (quick) / 4 (thorough) over the same alphabet + seeded mutations (bit flips, truncation, prefix +-1, inserted "
        "zeros, appended bytes, long-forming, huge declared sizes) of valid encodings of boundary values and consensus-shaped records + "
        "large lists; distinct = distinct (source, verdict, split kind, length bucket, number of typed targets that accept)")
