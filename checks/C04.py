"""C04 - the chain database survives a crash at any write boundary.
1. TLC: ChainCrash.tla, the write-level model (every write of import/reorg one step, crash between any two);
   as-is / seeded-defect configs must FAIL (vacuity guard: the model distinguishes the fixed write order).
2. Go: recording database; EVERY prefix of the write log of each scenario is reopened with NewBlockChain
   (exhaustive over the crash points of the scenario), plus one injected failure per batch write.
3. TLC: ChainCrashTrace.tla evaluates the C04 predicates (ChainCrashProps) on every reopened image."""
import os, re, json
from lib import vlib

FAM = ["chain"]

def run(ctx):
    q = ctx.quick
    if not ctx.replay:
        for cfg in ["ChainCrash_fixed.cfg", "ChainCrash_pruning.cfg"]:
            vlib.model_check(ctx, FAM, "ChainCrashMC.tla", cfg, timeout=1800, deadlock=False)
        for cfg, inv in [("ChainCrash_asis.cfg", "HeadPointerBackedInv"), ("ChainCrash_rootfirst.cfg", "RootImpliesTrieInv"),
                         ("ChainCrash_clearfirst.cfg", "StateAndIndexOKInv")]:
            vlib.model_check(ctx, FAM, "ChainCrashMC.tla", cfg, expect_violation=inv, timeout=1800, deadlock=False)
        ctx.exhaustive = True
    trace = os.path.join(ctx.work, "crash.ndjson")
    rc, out = vlib.go_test(ctx, "core", "TestVerifCrash$", env={"VERIF_OUT": trace, "VERIF_TREES": 2 if q else 12,
                           "VERIF_LONG": 0 if q else 2, "VERIF_MAXPTS": 500 if q else 4000}, timeout=6000)
    m = re.search(r"VERIF-STAT scenarios=(\d+) points=(\d+) events=(\d+)", out)
    if rc != 0 or not m:
        raise vlib.Infra("crash driver failed (rc=%d):\n%s" % (rc, out[-3000:]))
    v = vlib.validate_trace(ctx, FAM, "ChainCrashTrace.tla", "ChainCrashTrace.cfg", trace, heap="12g", timeout=3000)
    evs = vlib.read_ndjson(trace)
    pts = [e for e in evs if e["e"] in ("crash", "fail")]
    ctx.evaluations += len(pts)
    for e in pts:
        ctx.signatures.add((e["e"], e["next"], e["head"] == e["lastBlock"], e["reopen"][:12]))
    ctx.samples = [{k: e[k] for k in ("e", "k", "next", "lastBlock", "head", "reopen", "stateOK", "indexOK", "reHead")} for e in pts[:6]]
    ctx.notes["scenarios"] = int(m.group(1))
    ctx.notes["crash_points"] = sum(1 for e in pts if e["e"] == "crash")
    ctx.notes["injected_failures"] = sum(1 for e in pts if e["e"] == "fail")
    if v.accepted:
        ctx.traces_validated += int(m.group(1))
    else:
        line = v.line or 0
        ev = evs[line - 1] if 0 < line <= len(evs) else {}
        meta = os.path.join(ctx.work, "meta.json")
        json.dump({"seed": ctx.seed, "tier": ctx.tier, "line": line, "invariant": v.violated}, open(meta, "w"))
        ctx.violation("ChainCrashTrace invariant %s false at trace line %s: %s point k=%s next-write=%s lastBlock=%s reopen=%r head=%s "
                      "stateOK=%s indexOK=%s reHead=%s reErr=%r wedged=%r" % (v.violated, line, ev.get("e"), ev.get("k"), ev.get("next"),
                      ev.get("lastBlock"), ev.get("reopen"), ev.get("head"), ev.get("stateOK"), ev.get("indexOK"), ev.get("reHead"),
                      ev.get("reErr"), ev.get("wedged")), ctx.save_replay("trace", [trace, meta]))
    # large commits: a state change bigger than one database batch, every flush of import / import again / Stop failed once
    t2 = os.path.join(ctx.work, "bigcommit.ndjson")
    rc, out = vlib.go_test(ctx, "core", "TestVerifBigCommit$", env={"VERIF_OUT": t2}, files=["bigcommit_test.go"], timeout=6000)
    m2 = re.search(r"VERIF-STAT events=(\d+) wedged=(\d+)", out)
    if not m2 or (rc != 0 and m2.group(2) == "0"):
        raise vlib.Infra("big commit driver failed (rc=%d):\n%s" % (rc, out[-3000:]))
    v2 = vlib.validate_trace(ctx, FAM, "BigCommitTrace.tla", "BigCommitTrace.cfg", t2, name="trace_bigcommit", timeout=3000)
    ev2 = vlib.read_ndjson(t2)
    ctx.evaluations += len(ev2)
    for e in ev2:
        if e["e"] == "bigfail":
            ctx.signatures.add(("bigfail", e["mode"], e["duringImport"], e["firstErr"], e["headAfterFirst"], e["reopenHead"], e["wedged"]))
    ctx.notes["big_commit_flush_failures"] = sum(1 for e in ev2 if e["e"] == "bigfail")
    if v2.accepted:
        ctx.traces_validated += 1
    else:
        line = v2.line or 0
        ev = ev2[line - 1] if 0 < line <= len(ev2) else {}
        meta = os.path.join(ctx.work, "meta2.json")
        json.dump({"seed": ctx.seed, "tier": ctx.tier, "line": line, "invariant": v2.violated, "part": "bigcommit"}, open(meta, "w"))
        ctx.violation("BigCommitTrace invariant %s false at trace line %s: %s" % (v2.violated, line, json.dumps(ev)[:600]), ctx.save_replay("bigcommit", [t2, meta]))
    ctx.assumptions = ["a batch write is atomic (LevelDB semantics); a direct Put/Delete is one write",
                       "a failing write of the head-pointer batch ends in log.Crit/os.Exit = a crash before that write (covered by the prefix sweep)",
                       "fake PoW engine"]
    vlib.write_evidence(ctx, rule="every prefix of the recorded write log of each scenario (exhaustive per scenario unless the log exceeds "
        "VERIF_MAXPTS, then every non-trie-node boundary plus a sample of trie-node boundaries) is materialised and reopened; "
        "one injected failure per batch write; distinct = distinct (kind, next write class, head==lastBlock, reopen outcome)")
