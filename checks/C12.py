"""C12 - a transaction is bound to its signer and to its chain.
1. TLC: TxSig.tla - the decision procedure of types.Sender with abstract cryptography over the complete case table
   (signer kind x how the transaction was signed x alteration): the code's verdict must be allowed by the property; the as-is
   config (EIP-155 path without low-S) must fail exactly at the high-S case (known finding D7).
2. Go: every case concretised with real keys and fresh objects, sender-cache sequences across signers on one object, AsMessage,
   RLP / JSON re-encodings, JSON documents with altered content.
3. TLC: TxSigTrace.tla judges every recorded outcome with TxSig!Allowed."""
import os, re, json
from lib import vlib
FAM = ["txsig"]

def run(ctx):
    q = ctx.quick
    if not ctx.replay:
        vlib.model_check(ctx, FAM, "TxSig.tla", "TxSig_prop.cfg", timeout=600)
        vlib.model_check(ctx, FAM, "TxSig.tla", "TxSig_asis.cfg", expect_violation="Conforms", timeout=600)
        ctx.exhaustive = True
    trace = os.path.join(ctx.work, "txsig.ndjson")
    rc, out = vlib.go_test(ctx, "core/types", "TestVerifTxSig$", env={"VERIF_OUT": trace, "VERIF_REPS": 12 if q else 400}, timeout=3000)
    m = re.search(r"VERIF-STAT events=(\d+)", out)
    if rc != 0 or not m:
        raise vlib.Infra("txsig driver failed (rc=%d):\n%s" % (rc, out[-3000:]))
    v = vlib.validate_trace(ctx, FAM, "TxSigTrace.tla", "TxSigTrace.cfg", trace, timeout=3000)
    evs = vlib.read_ndjson(trace)
    ctx.evaluations += len(evs)
    for e in evs:
        ctx.signatures.add((e["e"], e.get("signer"), e.get("signed"), e.get("mut"), e.get("outcome"), e.get("field")))
    ctx.samples = evs[:4] + [e for e in evs if e["e"] != "case"][:3]
    listed = {f["id"] for f in vlib.known_for("C12")}
    for tag, line in v.known:
        if tag in listed:
            ctx.known_finding("%s EIP155Signer attributes the high-S twin of a protected signature to the same sender (trace line %d)" % (tag, line))
        else:
            ctx.violation("unlisted known-finding tag %s at line %d" % (tag, line), trace)
    if v.accepted:
        ctx.traces_validated += 1
    else:
        line = v.line or 0
        ev = evs[line - 1] if 0 < line <= len(evs) else {}
        meta = os.path.join(ctx.work, "meta.json")
        json.dump({"seed": ctx.seed, "tier": ctx.tier, "line": line, "invariant": v.violated}, open(meta, "w"))
        ctx.violation("TxSigTrace invariant %s false at trace line %s: %s" % (v.violated, line, json.dumps(ev)[:500]), ctx.save_replay("trace", [trace, meta]))
    ctx.assumptions = ["secp256k1 recovery of a signature over another hash yields another key or fails (asserted per case by the observed outcome class)",
                       "FrontierSigner accepts high-S by its own rules (pre-Homestead), allowed by the table"]
    vlib.write_evidence(ctx, rule="3 signers x 3 signing modes x 18 alterations per repetition with fresh random keys, transactions and chain ids (incl. the mainnet / testnet ids), "
        "plus cache sequences, AsMessage, re-encodings and altered JSON; distinct = distinct (event, signer, signed, alteration, outcome)")
