"""C07 - EVM execution is total, gas-bounded and sandboxed for every program.
1. TLC: EVMFrames.tla - the abstract frame machine (gas hand-over, snapshots, read-only flag, depth limit); the config with
   the seeded read-only defect must fail.
2. Go: hostile programs (random bytes, adversarial operand streams, recursion to the depth limit, precompiles, writes inside
   static calls, failing callees and creations) x 4 epoch configurations x 7 gas budgets, under recover and a watchdog, with a
   step tracer that digests the tracked world around every call-family instruction.
3. TLC: EVMFramesTrace.tla evaluates the C07 predicates on every recorded run."""
import os, re, json
from lib import vlib
FAM = ["evm"]

def run(ctx):
    q = ctx.quick
    if not ctx.replay:
        vlib.model_check(ctx, FAM, "EVMFrames.tla", "EVMFrames_ok.cfg", timeout=1800)
        vlib.model_check(ctx, FAM, "EVMFrames.tla", "EVMFrames_bug.cfg", expect_violation="ReadOnlyInv", timeout=1800)
        ctx.exhaustive = True
    trace = os.path.join(ctx.work, "frames.ndjson")
    rc, out = vlib.go_test(ctx, "core/vm", "TestVerifFrames$", env={"VERIF_OUT": trace, "VERIF_PROG": 800 if q else 20000}, timeout=6000)
    m = re.search(r"VERIF-STAT events=(\d+)", out)
    if rc != 0 or not m:
        raise vlib.Infra("frames driver failed (rc=%d):\n%s" % (rc, out[-3000:]))
    v = vlib.validate_trace(ctx, FAM, "EVMFramesTrace.tla", "EVMFramesTrace.cfg", trace, heap="12g", timeout=12000)
    n, maxd = 0, 0
    with open(trace) as f:
        for line in f:
            e = json.loads(line)
            n += 1
            maxd = max(maxd, e["maxDepth"])
            ctx.signatures.add((e["src"], e["epoch"], e["status"], min(e["maxDepth"], 4), e.get("gas")))
            if len(ctx.samples) < 4 and e["e"] == "frames":
                ctx.samples.append({k: e[k] for k in ("src", "epoch", "gas", "status", "gasLeft", "maxDepth")})
    ctx.evaluations += n
    ctx.notes["max_call_depth_reached"] = maxd
    if maxd < 1025 and not ctx.replay:
        raise vlib.Infra("recursion scenarios did not reach the depth limit (max depth %d): the depth clause would be vacuous" % maxd)
    if v.accepted:
        ctx.traces_validated += n
    else:
        line = v.line or 0
        ev = vlib.read_ndjson(trace, limit=line)[-1] if line else {}
        meta = os.path.join(ctx.work, "meta.json")
        json.dump({"seed": ctx.seed, "tier": ctx.tier, "line": line, "invariant": v.violated}, open(meta, "w"))
        ctx.violation("EVMFramesTrace invariant %s false at trace line %s: %s program (epoch %s, gas %s) status=%s err=%r gasLeft=%s maxDepth=%s steps=%d" % (
            v.violated, line, ev.get("src"), ev.get("epoch"), ev.get("gas"), ev.get("status"), ev.get("err"), ev.get("gasLeft"), ev.get("maxDepth"),
            len(ev.get("steps", []))), ctx.save_replay("trace", [trace, meta]))
    ctx.assumptions = ["world digest = balance, nonce, code hash, storage slots 0..7, suicided flag of the scenario accounts and every call/create target, log count, refund counter",
                       "previous-step / frame-start indices are computed by the recorder from the depth column", "watchdog 20 s per run"]
    vlib.write_evidence(ctx, rule="seeded hostile programs of 8 kinds; distinct = distinct (kind, epoch, outcome, depth class, gas budget)")
