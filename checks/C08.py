"""C08 - EVM instructions compute what the specification defines.
1. TLC: Word8Check.tla - every Word256 operator definition (the instruction semantics) against native integer arithmetic
   for all operand pairs at width 8 bits (the 256-bit instance differs only in the constant W).
2. Go: boundary-lattice operand vectors for every computational opcode, every opcode byte in every fork epoch (valid-opcode
   set), seeded random programs (stack, memory, control flow, call-data / code access, SHA3, tight gas), with a step tracer.
3. TLC: EVMTrace.tla re-executes every recorded program with the reference interpreter EVM.tla (W = 32) and compares the
   complete step list (pc, opcode, gas, charge), halt class, returned bytes and gas left."""
import os, re, json
from lib import vlib
FAM = ["evm"]

def run(ctx):
    q = ctx.quick
    if not ctx.replay:
        vlib.model_check(ctx, FAM, "Word8Check.tla", "Word8Quick.cfg" if q else "Word8Check.cfg", timeout=3000)
        ctx.exhaustive = True
    trace = os.path.join(ctx.work, "evm.ndjson")
    rc, out = vlib.go_test(ctx, "core/vm", "TestVerifEVM$", env={"VERIF_OUT": trace, "VERIF_VEC": 24 if q else 0,
                           "VERIF_PROG": 300 if q else 6000}, timeout=3000)
    m = re.search(r"VERIF-STAT events=(\d+)", out)
    if rc != 0 or not m:
        raise vlib.Infra("evm driver failed (rc=%d):\n%s" % (rc, out[-3000:]))
    v = vlib.validate_trace(ctx, FAM, "EVMTrace.tla", "EVMTrace.cfg", trace, heap="12g", timeout=12000)
    evs = vlib.read_ndjson(trace)
    ctx.evaluations += len(evs)
    for e in evs:
        ops = tuple(sorted({s[1] for s in e["steps"]}))[:6]
        ctx.signatures.add((e["src"], e["epoch"], e["status"], len(e["steps"]) > 12, ops if e["src"] != "random" else e["steps"][-1][1] if e["steps"] else -1))
    ctx.samples = [{k: e[k] for k in ("src", "epoch", "code", "gas", "status", "gasLeft", "ret")} for e in evs[:3]] + \
                  [{k: e[k] for k in ("src", "epoch", "code", "gas", "status", "gasLeft")} for e in evs if e["src"] == "random"][:2]
    listed = {f["id"] for f in vlib.known_for("C08")}
    for tag, line in v.known:
        if tag in listed:
            ctx.known_finding("%s SAR(shift >= 256, value = 0) returns 2^256-1 instead of 0 (trace line %d)" % (tag, line))
        else:
            ctx.violation("unlisted known-finding tag %s at line %d" % (tag, line), trace)
    ctx.notes["known_finding_occurrences"] = len(v.known)
    if v.accepted:
        ctx.traces_validated += len(evs)
    else:
        line = v.line or 0
        ev = evs[line - 1] if 0 < line <= len(evs) else {}
        meta = os.path.join(ctx.work, "meta.json")
        json.dump({"seed": ctx.seed, "tier": ctx.tier, "line": line, "invariant": v.violated}, open(meta, "w"))
        ctx.violation("EVMTrace invariant %s false at trace line %s: %s program (epoch %s, gas %s) code=%s status=%s gasLeft=%s ret=%s last steps=%s" % (
            v.violated, line, ev.get("src"), ev.get("epoch"), ev.get("gas"), bytes(ev.get("code", [])).hex()[:200], ev.get("status"), ev.get("gasLeft"),
            bytes(ev.get("ret", [])).hex()[:64], ev.get("steps", [])[-3:]), ctx.save_replay("trace", [trace, meta]))
    ctx.assumptions = ["keccak256 digests are supplied to the reference by the driver (SHA3 gas and memory are computed by the reference)",
                       "gas budgets <= 1,000,000, so memory beyond 1 MiB is out of gas in the reference",
                       "opcodes outside the computational set (environment, storage, calls, logs) are not generated here (C07 / C05 / C06 cover them)"]
    vlib.write_evidence(ctx, rule="TLC: all 65,536 operand pairs (thorough) / a 21-value boundary set squared (quick) per operator at width 8; Go: 16-value 256-bit "
        "boundary lattice (all pairs in thorough, a seeded sample in quick; ternary ops over a 7-value sub-lattice), all opcode bytes x 4 epoch "
        "configurations, seeded random programs with 9 gas budgets; distinct = distinct (source, epoch, halt class, length class, opcode set)")
