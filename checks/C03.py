"""C03 - the canonical index describes exactly the chain that ends at the head.
1. TLC: Chain.tla (every tree shape, difficulty assignment, arrival order within the bounds).
2. Direction A: histories enumerated by TLC (ChainGen.tla) replayed on core.BlockChain.
3. Direction B: seeded random trees / histories / corruptions on core.BlockChain.
4. TLC: ChainTrace.tla evaluates the C03 predicates of ChainProps on every recorded observation."""
from lib import vlib
from checks import chainfam

def run(ctx):
    q = ctx.quick
    if not ctx.replay:
        vlib.model_check(ctx, chainfam.FAM, "ChainMC.tla", "Chain_index.cfg", timeout=3000, heap="16g", deadlock=False)
        vlib.model_check(ctx, chainfam.FAM, "ChainMC.tla", "Chain_light.cfg", timeout=3000, heap="16g", deadlock=False)
        vlib.model_check(ctx, chainfam.FAM, "ChainMC.tla", "Chain_pruned.cfg", timeout=3000, heap="16g", deadlock=False)
        if not q:
            vlib.model_check(ctx, chainfam.FAM, "ChainMC.tla", "Chain_asis_D16.cfg", expect_violation="LookupInv", timeout=3000, deadlock=False)
            vlib.model_check(ctx, chainfam.FAM, "ChainMC.tla", "Chain_asis_D17.cfg", expect_violation="CanonIsAncestryInv", timeout=3000, deadlock=False)
            vlib.model_check(ctx, chainfam.FAM, "ChainMC.tla", "Chain_asis_D1.cfg", expect_violation="NothingAboveHeadInv", timeout=3000, deadlock=False)
            vlib.model_check(ctx, chainfam.FAM, "ChainMC.tla", "Chain_asis_D12.cfg", expect_violation="LookupInv", timeout=3000, deadlock=False)
            vlib.model_check(ctx, chainfam.FAM, "ChainMC.tla", "Chain_asis_D13.cfg", expect_violation="NoPanic", timeout=3000, deadlock=False)
        ctx.exhaustive = True
    scripts, total, used = chainfam.gen_scripts(ctx, "ChainGen_small.cfg", 250 if q else 100000)
    t1 = chainfam.drive_scripts(ctx, scripts, "small")
    chainfam.judge(ctx, "C03", t1, used, "canonical index / lookups (TLC-generated histories)")
    if not q:
        scripts2, total2, used2 = chainfam.gen_scripts(ctx, "ChainGen_sim.cfg", 3000,
                                                       simulate=["-simulate", "num=3000", "-depth", "9", "-seed", str(ctx.seed)])
        t2 = chainfam.drive_scripts(ctx, scripts2, "sim")
        chainfam.judge(ctx, "C03", t2, used2, "canonical index / lookups (TLC-simulated histories)")
    trace, nt, nev = chainfam.drive(ctx, 6 if q else 40, 6 if q else 10, 1 if q else 4)
    chainfam.judge(ctx, "C03", trace, nt, "canonical index / lookups")
    ctx.notes["tlc_histories_total"] = total
    ctx.notes["tlc_histories_replayed"] = used
    ctx.assumptions = ["block difficulties are read from the generated headers; TD truth = sum along ancestry (BigNat limbs)",
                       "fake PoW engine (seal checks are C14)", "blocks produced by core.GenerateChain are valid by construction"]
    vlib.write_evidence(ctx, rule="TLC: Chain.tla over every tree shape x difficulties 1..2 x every arrival order within the config bounds; "
        "direction A: histories of ChainGen.tla (all of them in the thorough tier, a seeded sample in quick) replayed on core.BlockChain; "
        "direction B: catalogue shapes + seeded random trees (8-32 blocks, two fork schedules) + long pruning chains, each under reference, "
        "random-history, header-first and corruption runs; distinct = distinct (op, error class, batch length, head==hhead, #imported)")
