"""C19 - event feeds deliver every value exactly once to every live subscriber.
1. TLC: implementation-shaped model Feed.tla, all interleavings for small constants (safety + liveness).
2. Go: random concurrent histories of the real Feed (yield hooks widen the race windows), -race.
3. TLC: FeedTrace.tla evaluates the FeedProps predicates on every recorded history."""
import os, re, json
from lib import vlib

FAM = ["feed"]

def run(ctx):
    q = ctx.quick
    # ---- 1. design level -------------------------------------------------
    if not ctx.replay:
        vlib.model_check(ctx, FAM, "FeedMC.tla", "Feed_quick.cfg", timeout=1500)
        vlib.model_check(ctx, FAM, "FeedMC.tla", "Feed_k2.cfg", timeout=1500)
        if not q:
            vlib.model_check(ctx, FAM, "FeedMC.tla", "Feed_live.cfg", timeout=3000)
            vlib.model_check(ctx, FAM, "FeedMC.tla", "Feed_full.cfg", timeout=6000, heap="24g")
        vlib.model_check(ctx, FAM, "Scope.tla", "Scope_atomic.cfg", timeout=600, deadlock=False)
        vlib.model_check(ctx, FAM, "Scope.tla", "Scope_split.cfg", expect_violation="ClosedMeansNoLive", timeout=600, deadlock=False)
        vlib.model_check(ctx, FAM, "TypeMux.tla", "TypeMux_cow.cfg", timeout=1500)
        vlib.model_check(ctx, FAM, "TypeMux.tla", "TypeMux_inplace.cfg", expect_violation="NoDuplicate", timeout=600)
        ctx.exhaustive = True
    # ---- 2. real code -----------------------------------------------------
    trace = os.path.join(ctx.work, "feed_random.ndjson")
    if ctx.replay:
        trace = os.path.join(ctx.replay, "feed_random.ndjson") if os.path.isdir(ctx.replay) else ctx.replay
        # replay = re-execute the same seeded driver, then validate again
        meta = json.load(open(os.path.join(os.path.dirname(trace), "meta.json")))
        ctx.seed = meta["seed"]; n = meta["n"]
        trace = os.path.join(ctx.work, "feed_random.ndjson")
    else:
        n = 300 if q else 5000
    rc, out = vlib.go_test(ctx, "aqua/event", "TestVerifFeedRandom", env={"VERIF_OUT": trace, "VERIF_N": n},
                           race=True, timeout=1500)
    race = "DATA RACE" in out
    m = re.search(r"VERIF-STAT scenarios=(\d+) events=(\d+) wedged=(\d+)", out)
    if not m:
        raise vlib.Infra("feed driver produced no statistics:\n" + out[-2000:])
    ctx.evaluations += int(m.group(2))
    # ---- 3. judge ---------------------------------------------------------
    v = vlib.validate_trace(ctx, FAM, "FeedTrace.tla", "FeedTrace.cfg", trace)
    evs = vlib.read_ndjson(trace)
    scn = sum(1 for e in evs if e["e"] == "reset")
    for e in evs:
        ctx.signatures.add((e["e"], e.get("nsent"), e.get("len")))
    ctx.samples = evs[:12]
    meta = {"seed": ctx.seed, "n": n}
    def save(name):
        mp = os.path.join(ctx.work, "meta.json")
        json.dump(meta, open(mp, "w"))
        return ctx.save_replay(name, [trace, mp])
    if race:
        ctx.violation("race detector report in event.Feed under concurrent Send/Subscribe/Unsubscribe:\n" +
                      out[out.find("DATA RACE") - 100:][:1500], save("race"))
    if not v.accepted:
        ctx.violation("FeedTrace invariant %s false at trace line %s: %s" % (v.violated, v.line,
                      json.dumps(evs[v.line - 1]) if v.line and v.line <= len(evs) else "?"), save("trace"))
    else:
        ctx.traces_validated += scn
    if rc != 0 and not race and v.accepted:
        raise vlib.Infra("feed driver failed:\n" + out[-2000:])
    # ---- 4. the older TypeMux (event.go): subscribers as scheduler gates ----
    mtrace = os.path.join(ctx.work, "mux.ndjson")
    rc2, out2 = vlib.go_test(ctx, "aqua/event", "TestVerifMux$", env={"VERIF_MUX_OUT": mtrace, "VERIF_N": 400 if q else 20000}, race=True, timeout=3000)
    m2 = re.search(r"VERIF-STAT mux scenarios=(\d+) steps=(\d+)", out2)
    race2 = "DATA RACE" in out2
    if not m2 and not race2:
        raise vlib.Infra("mux driver produced no statistics:\n" + out2[-2000:])
    def msave(name):
        mp = os.path.join(ctx.work, "meta.json")
        json.dump(meta, open(mp, "w"))
        return ctx.save_replay(name, [mtrace, mp])
    if race2:
        ctx.violation("race detector report in event.TypeMux under Post / Unsubscribe:\n" + out2[out2.find("DATA RACE") - 100:][:1500], msave("mux-race"))
    if m2:
        ctx.evaluations += int(m2.group(2))
        v2 = vlib.validate_trace(ctx, FAM, "MuxTrace.tla", "MuxTrace.cfg", mtrace, name="trace_mux")
        mevs = vlib.read_ndjson(mtrace)
        for e in mevs:
            ctx.signatures.add(("mux", e["nsubs"], tuple(s["op"] for s in e["steps"])[:12]))
        if not v2.accepted:
            ev = mevs[v2.line - 1] if v2.line and v2.line <= len(mevs) else {}
            ctx.violation("MuxTrace invariant %s false at trace line %s: %s" % (v2.violated, v2.line, json.dumps(ev)[:900]), msave("mux-trace"))
        else:
            ctx.traces_validated += int(m2.group(1))
        if rc2 != 0 and not race2 and v2.accepted:
            raise vlib.Infra("mux driver failed:\n" + out2[-2000:])
    # ---- 5. SubscriptionScope: Track racing Close ----
    strace = os.path.join(ctx.work, "scope.ndjson")
    rc3, out3 = vlib.go_test(ctx, "aqua/event", "TestVerifScope$", env={"VERIF_SCOPE_OUT": strace, "VERIF_N": 300 if q else 5000}, race=True, timeout=3000)
    m3 = re.search(r"VERIF-STAT scope scenarios=(\d+)", out3)
    if "DATA RACE" in out3:
        ctx.violation("race detector report in event.SubscriptionScope:\n" + out3[out3.find("DATA RACE") - 100:][:1500], ctx.save_replay("scope-race", [strace]))
    elif rc3 != 0 or not m3:
        raise vlib.Infra("scope driver failed:\n" + out3[-2000:])
    else:
        v3 = vlib.validate_trace(ctx, FAM, "MuxTrace.tla", "MuxTrace.cfg", strace, name="trace_scope")
        sevs = vlib.read_ndjson(strace)
        ctx.evaluations += len(sevs)
        for e in sevs:
            ctx.signatures.add(("scope", e["accepted"], e["refused"]))
        if not v3.accepted:
            ev = sevs[v3.line - 1] if v3.line and v3.line <= len(sevs) else {}
            mp = os.path.join(ctx.work, "meta.json")
            json.dump(meta, open(mp, "w"))
            ctx.violation("MuxTrace invariant %s false at trace line %s: %s" % (v3.violated, v3.line, json.dumps(ev)), ctx.save_replay("scope-trace", [strace, mp]))
        else:
            ctx.traces_validated += int(m3.group(1))
    ctx.assumptions = ["TypeMux: the driver thread owns every subscriber and performs Subscribe / Unsubscribe itself, so the recorded step order is the real order; no interference between a Post's start and its first delivery",
                       "tickets are taken before a call and after its return, so recorded intervals contain the real ones",
                       "Go channel semantics as modelled in Feed.tla (TrySend succeeds iff buffer room or parked receiver)"]
    vlib.write_evidence(ctx, rule="TLC: all interleavings of Feed.tla for the listed configs; Go: seeded random concurrent "
                        "scenarios (1-3 senders x 1-3 sends, 1-5 subscribers cap 0-2, early/late (un)subscribe, slow receivers, "
                        "GOMAXPROCS 1/2/4/16, random yields at the 9 hook sites on every other scenario); distinct = distinct "
                        "(event kind, nsent, len) signatures in the recorded histories",
                        extra={"scenarios": scn})
