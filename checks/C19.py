"""C19 - event feeds deliver every value exactly once to every live subscriber.
1. TLC: implementation-shaped model Feed.tla, all interleavings for small constants (safety + liveness).
2. Go: random concurrent histories of the real Feed (yield hooks widen the race windows), -race.
3. TLC: FeedTrace.tla evaluates the FeedProps predicates on every recorded history."""
import os, re, json
from lib import vlib

FAM = ["feed"]

def run(ctx):
    q = ctx.quick
    # ---- 1. design level -------------------------------------------------
    if not ctx.replay:
        vlib.model_check(ctx, FAM, "FeedMC.tla", "Feed_quick.cfg", timeout=1500)
        vlib.model_check(ctx, FAM, "FeedMC.tla", "Feed_k2.cfg", timeout=1500)
        if not q:
            vlib.model_check(ctx, FAM, "FeedMC.tla", "Feed_live.cfg", timeout=3000)
            vlib.model_check(ctx, FAM, "FeedMC.tla", "Feed_full.cfg", timeout=6000, heap="24g")
        ctx.exhaustive = True
    # ---- 2. real code -----------------------------------------------------
    trace = os.path.join(ctx.work, "feed_random.ndjson")
    if ctx.replay:
        trace = os.path.join(ctx.replay, "feed_random.ndjson") if os.path.isdir(ctx.replay) else ctx.replay
        # replay = re-execute the same seeded driver, then validate again
        meta = json.load(open(os.path.join(os.path.dirname(trace), "meta.json")))
        ctx.seed = meta["seed"]; n = meta["n"]
        trace = os.path.join(ctx.work, "feed_random.ndjson")
    else:
        n = 300 if q else 5000
    rc, out = vlib.go_test(ctx, "aqua/event", "TestVerifFeedRandom", env={"VERIF_OUT": trace, "VERIF_N": n},
                           race=True, timeout=1500)
    race = "DATA RACE" in out
    m = re.search(r"VERIF-STAT scenarios=(\d+) events=(\d+) wedged=(\d+)", out)
    if not m:
        raise vlib.Infra("feed driver produced no statistics:\n" + out[-2000:])
    ctx.evaluations += int(m.group(2))
    # ---- 3. judge ---------------------------------------------------------
    v = vlib.validate_trace(ctx, FAM, "FeedTrace.tla", "FeedTrace.cfg", trace)
    evs = vlib.read_ndjson(trace)
    scn = sum(1 for e in evs if e["e"] == "reset")
    for e in evs:
        ctx.signatures.add((e["e"], e.get("nsent"), e.get("len")))
    ctx.samples = evs[:12]
    meta = {"seed": ctx.seed, "n": n}
    def save(name):
        mp = os.path.join(ctx.work, "meta.json")
        json.dump(meta, open(mp, "w"))
        return ctx.save_replay(name, [trace, mp])
    if race:
        ctx.violation("race detector report in event.Feed under concurrent Send/Subscribe/Unsubscribe:\n" +
                      out[out.find("DATA RACE") - 100:][:1500], save("race"))
    if not v.accepted:
        ctx.violation("FeedTrace invariant %s false at trace line %s: %s" % (v.violated, v.line,
                      json.dumps(evs[v.line - 1]) if v.line and v.line <= len(evs) else "?"), save("trace"))
    else:
        ctx.traces_validated += scn
    if rc != 0 and not race and v.accepted:
        raise vlib.Infra("feed driver failed:\n" + out[-2000:])
    ctx.assumptions = ["tickets are taken before a call and after its return, so recorded intervals contain the real ones",
                       "Go channel semantics as modelled in Feed.tla (TrySend succeeds iff buffer room or parked receiver)"]
    vlib.write_evidence(ctx, rule="TLC: all interleavings of Feed.tla for the listed configs; Go: seeded random concurrent "
                        "scenarios (1-3 senders x 1-3 sends, 1-5 subscribers cap 0-2, early/late (un)subscribe, slow receivers, "
                        "GOMAXPROCS 1/2/4/16, random yields at the 9 hook sites on every other scenario); distinct = distinct "
                        "(event kind, nsent, len) signatures in the recorded histories",
                        extra={"scenarios": scn})
