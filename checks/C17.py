"""C17 - network input is authenticated or rejected, and never fatal.
1. TLC: DiscPacket.tla (decision table of decodePacket / handlePacket; the as-is config without the tag length check must
   fail) and NetSession.tla (RLPx handshake + framing with an adversary that flips, drops, replays, swaps and truncates;
   the config without the frame MAC check must fail; liveness: a cut stream never wedges the reader).
2. Go: p2p/discover - every truncation / substitution / type byte / malformed payload, signed or not, through the real
   udp.handlePacket; p2p - real RLPx sessions over a pipe with a man in the middle and a malicious peer.
3. TLC: DiscTrace.tla / SessionTrace.tla judge every recorded outcome."""
import os, re, json
from lib import vlib
FAM = ["net"]

def part(ctx, pkg, test, module, cfg, trace_name, env, stat_re, sig):
    trace = os.path.join(ctx.work, trace_name)
    e = {"VERIF_OUT": trace}
    e.update(env)
    rc, out = vlib.go_test(ctx, pkg, test, env=e, timeout=6000)
    m = re.search(stat_re, out)
    if rc != 0 or not m:
        raise vlib.Infra("%s driver failed (rc=%d):\n%s" % (pkg, rc, out[-3000:]))
    v = vlib.validate_trace(ctx, FAM, module, cfg, trace, heap="12g", timeout=6000)
    evs = vlib.read_ndjson(trace)
    ctx.evaluations += len(evs)
    for ev in evs:
        ctx.signatures.add(sig(ev))
    if v.accepted:
        ctx.traces_validated += 1
    else:
        line = v.line or 0
        ev = evs[line - 1] if 0 < line <= len(evs) else {}
        meta = os.path.join(ctx.work, "meta.json")
        json.dump({"seed": ctx.seed, "tier": ctx.tier, "line": line, "invariant": v.violated, "module": module}, open(meta, "w"))
        ctx.violation("%s invariant %s false at trace line %s: %s" % (module, v.violated, line, json.dumps(ev)[:700]), ctx.save_replay(trace_name.split(".")[0], [trace, meta]))
    return evs

def run(ctx):
    q = ctx.quick
    if not ctx.replay:
        vlib.model_check(ctx, FAM, "DiscPacketMC.tla", "DiscPacket_fixed.cfg", timeout=600)
        vlib.model_check(ctx, FAM, "DiscPacketMC.tla", "DiscPacket_asis.cfg", expect_violation="OutcomeAlphabet", timeout=600)
        vlib.model_check(ctx, FAM, "NetSession.tla", "NetSession_ok.cfg" if q else "NetSession_deep.cfg", timeout=3000)
        vlib.model_check(ctx, FAM, "NetSession.tla", "NetSession_live.cfg", timeout=3000)
        vlib.model_check(ctx, FAM, "NetSession.tla", "NetSession_nofmac.cfg", expect_violation="Authentic", timeout=600)
        ctx.exhaustive = True
    evs = part(ctx, "p2p/discover", "TestVerifDisc$", "DiscTrace.tla", "DiscTrace.cfg", "disc.ndjson", {}, r"VERIF-STAT events=(\d+)",
               lambda e: ("disc", e["netcompat"], e["kind"], e["type"] if e["kind"] != "type-byte" else 0, e["outcome"], e["err"][:24]))
    ctx.samples = [e for e in evs if e["outcome"] == "handled"][:2] + [e for e in evs if e["kind"] == "trunc-signed"][:2]
    def ssig(e):
        if e["e"] == "session":
            t = e["tamper"]
            return ("session", e["snappy"], e["initiatorWrites"], t["phase"], t["kind"], min(t["off"], 33) if t["off"] >= 0 else max(t["off"], -18), len(e["sent"]), e["err"][:16])
        return (e["e"], e["kind"], e["err"][:24])
    sevs = part(ctx, "p2p", "TestVerifSession$", "SessionTrace.tla", "SessionTrace.cfg", "session.ndjson", {"VERIF_SESSIONS": 150 if q else 3000},
                r"VERIF-STAT events=(\d+) sessions=(\d+)", ssig)
    ctx.samples += [{k: e[k] for k in ("tamper", "snappy", "firstBad", "err", "hsErrI", "hsErrR")} | {"sent": len(e["sent"]), "delivered": len(e["delivered"])} for e in sevs if e["e"] == "session"][40:43]
    pevs = part(ctx, "aqua", "TestVerifProto$", "ProtoTrace.tla", "ProtoTrace.cfg", "proto.ndjson", {}, r"VERIF-STAT events=(\d+)",
                lambda e: ("proto", e["code"] if e["code"] < 100 else 100, e["class"], e["outcome"], e["err"][:30]))
    ctx.samples += [e for e in pevs if e["class"] == "hostile-params"][:2]
    ctx.assumptions = ["sub-protocol: the message pipe is synchronous, so 'the sentinel request was consumed' = the message was handled and the peer kept; 'handle returned' = dropped",
                       "hash check features come from golang.org/x/crypto/sha3; signatures are made with the repository's crypto.Sign",
                       "the man in the middle sits under the writer's rlpx layer (it sees and alters exactly the bytes that go on the wire); frames are altered per message, handshake packets per packet",
                       "allocation bounds: 4 MiB per datagram (1280 bytes), 256 MiB for reading one (at most 16 MiB) message including decompression and the reader's copy, 16 MiB per handshake; wedge = no return within 10-15 minutes (no verdict depends on how fast a loaded machine is)",
                       "a datagram is 'solicited' when a pending request of its type is registered for the sender (key K2); key K never has one"]
    vlib.write_evidence(ctx, rule="every truncation, every 3rd (quick) / every (thorough) byte position x 3 substitutions x {raw, re-hashed, re-signed}, 256 type bytes x 7 lengths, "
        "malformed-RLP corpus x 4 types, random datagrams of 16 length classes, x 2 wire dialects; RLPx: untampered sessions up to the 16 MiB limit, 22+ handshake tamper points per packet, "
        "150 (quick) / 3000 (thorough) frame-tampered sessions over 9 adversary actions x 6 offset classes, 18 hostile-frame and 33 hostile-handshake cases; sub-protocol: 11 message codes x {valid, empty, 6 malformed RLP, oversize, every 7th (quick) / every (thorough) truncation and bit flip, random} "
        "+ status / unknown codes + 18 well-formed requests with hostile parameters; distinct = distinct (dialect, kind, type, outcome, error prefix)")
