"""C14 - a proof-of-work seal is accepted exactly when it meets the target.
1. TLC: Seal.tla - the comparison predicate (hash * difficulty <= 2^256 on BigNat) against the textbook predicate on small
   numbers; the version schedule.
2. Go: random headers of versions 2/3/4 whose proof-of-work hash is computed by an independent implementation (x/crypto argon2
   and sha3); difficulties chosen one below / at the boundary of the hash, 0 / negative / tiny difficulties, mix digest bit flips;
   the version of every height around HF5/HF8/HF9 in every built-in schedule; seals returned by the node's own miner
   (1/2/4 threads) verified by its own VerifySeal.
3. TLC: SealTrace.tla decides acceptance from the recorded hash and difficulty and compares."""
import os, re, json
from lib import vlib
FAM = ["seal"]

def run(ctx):
    q = ctx.quick
    if not ctx.replay:
        vlib.model_check(ctx, FAM, "Seal.tla", "Seal.cfg", timeout=600)
        ctx.exhaustive = True
    trace = os.path.join(ctx.work, "seal.ndjson")
    rc, out = vlib.go_test(ctx, "consensus/aquahash", "TestVerifSeal$", env={"VERIF_OUT": trace, "VERIF_N": 150 if q else 6000}, timeout=3000)
    m = re.search(r"VERIF-STAT events=(\d+)", out)
    if rc != 0 or not m:
        raise vlib.Infra("seal driver failed (rc=%d):\n%s" % (rc, out[-3000:]))
    v = vlib.validate_trace(ctx, FAM, "SealTrace.tla", "SealTrace.cfg", trace, heap="8g", timeout=6000)
    evs = vlib.read_ndjson(trace)
    ctx.evaluations += len(evs)
    for e in evs:
        ctx.signatures.add((e["e"], e.get("kind"), e.get("version"), e.get("accepted"), e.get("threads"), (e.get("sched") or {}).get("name")))
    ctx.samples = [e for e in evs if e["e"] == "seal"][:3] + [e for e in evs if e["e"] == "mined"][:2] + [e for e in evs if e["e"] == "version"][:2]
    if v.accepted:
        ctx.traces_validated += 1
    else:
        line = v.line or 0
        ev = evs[line - 1] if 0 < line <= len(evs) else {}
        meta = os.path.join(ctx.work, "meta.json")
        json.dump({"seed": ctx.seed, "tier": ctx.tier, "line": line, "invariant": v.violated}, open(meta, "w"))
        ctx.violation("SealTrace invariant %s false at trace line %s: %s" % (v.violated, line, json.dumps(ev)[:700]), ctx.save_replay("trace", [trace, meta]))
    ctx.assumptions = ["argon2id (t=1, p=1, m=1/16/32 KiB, 32 bytes, no salt) and keccak256 from golang.org/x/crypto are the reference primitives",
                       "version 1 (ethash) seals are not generated here: the DAG code is the repository's own and has no independent implementation in the sandbox"]
    vlib.write_evidence(ctx, rule="random headers x {boundary difficulties (floor(2^256/(hash+1)), floor(2^256/hash) and +1, re-hashed 3 times), 1, 2, 3, 0, -1, -1000, mix bit flip}; "
        "heights fork-1..fork+1 of HF5/HF8/HF9 x 5 schedules; miner seals for 3 thread counts x 4 difficulties; distinct = distinct (event, kind, version, verdict, threads, schedule)")
