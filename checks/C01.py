"""C01 - block import is deterministic and accepts only self-consistent blocks.
1. TLC: Chain.tla (every tree shape, difficulty assignment, arrival order within the bounds).
2. Direction A: histories enumerated by TLC (ChainGen.tla) replayed on core.BlockChain.
3. Direction B: seeded random trees / histories / corruptions on core.BlockChain.
4. TLC: ChainTrace.tla evaluates the C01 predicates of ChainProps on every recorded observation.
5. Block building: BlockBuild.tla (builder with snapshot/revert vs importer; the config without the revert must fail); the real
   miner worker assembles blocks from seeded pending sets on a real pool and chain, an independent chain imports them;
   MinerTrace.tla compares what builder and importer computed."""
import os, re, json
from lib import vlib
from checks import chainfam

def run(ctx):
    q = ctx.quick
    if not ctx.replay:
        vlib.model_check(ctx, chainfam.FAM, "ChainMC.tla", "Chain_forkchoice.cfg", timeout=3000, heap="16g", deadlock=False)
        vlib.model_check(ctx, chainfam.FAM, "BlockBuild.tla", "BlockBuild_ok.cfg", timeout=1500)
        vlib.model_check(ctx, chainfam.FAM, "BlockBuild.tla", "BlockBuild_norevert.cfg", expect_violation="SelfBuiltAccepted", timeout=600)
        ctx.exhaustive = True
    scripts, total, used = chainfam.gen_scripts(ctx, "ChainGen_small.cfg", 250 if q else 100000)
    t1 = chainfam.drive_scripts(ctx, scripts, "small")
    chainfam.judge(ctx, "C01", t1, used, "import determinism / rejection (TLC-generated histories)")
    if not q:
        scripts2, total2, used2 = chainfam.gen_scripts(ctx, "ChainGen_sim.cfg", 3000,
                                                       simulate=["-simulate", "num=3000", "-depth", "9", "-seed", str(ctx.seed)])
        t2 = chainfam.drive_scripts(ctx, scripts2, "sim")
        chainfam.judge(ctx, "C01", t2, used2, "import determinism / rejection (TLC-simulated histories)")
    trace, nt, nev = chainfam.drive(ctx, 6 if q else 40, 6 if q else 10, 1 if q else 4)
    chainfam.judge(ctx, "C01", trace, nt, "import determinism / rejection")
    # block building
    mtrace = os.path.join(ctx.work, "miner.ndjson")
    rc, out = vlib.go_test(ctx, "opt/miner", "TestVerifSelfBuilt$", env={"VERIF_OUT": mtrace, "VERIF_SEQS": 8 if q else 64, "VERIF_BLOCKS": 6 if q else 12}, timeout=3000)
    m = re.search(r"VERIF-STAT sequences=(\d+) events=(\d+)", out)
    if rc != 0 or not m:
        raise vlib.Infra("miner driver failed (rc=%d):\n%s" % (rc, out[-3000:]))
    v = vlib.validate_trace(ctx, chainfam.FAM, "MinerTrace.tla", "MinerTrace.cfg", mtrace, name="trace_miner")
    mevs = vlib.read_ndjson(mtrace)
    ctx.evaluations += len(mevs)
    for e in mevs:
        ctx.signatures.add(("selfbuilt", e["offered"] - e["included"], min(e["included"], 5), e["built"]["logs"] > 0, e["importErr"][:20]))
    if v.accepted:
        ctx.traces_validated += int(m.group(1))
    else:
        ev = mevs[v.line - 1] if v.line and v.line <= len(mevs) else {}
        meta = os.path.join(ctx.work, "meta.json")
        json.dump({"seed": ctx.seed, "tier": ctx.tier, "line": v.line, "invariant": v.violated}, open(meta, "w"))
        ctx.violation("MinerTrace invariant %s false at trace line %s: %s" % (v.violated, v.line, json.dumps(ev)[:700]), ctx.save_replay("miner", [mtrace, meta]))
    ctx.notes["tlc_histories_total"] = total
    ctx.notes["tlc_histories_replayed"] = used
    ctx.assumptions = ["block building: the worker is driven through commitNewWork() with mining switched on and no sealing agent; the assembled block is taken from worker.current and imported with InsertChain by a second chain built from the same genesis",
                       "block difficulties are read from the generated headers; TD truth = sum along ancestry (BigNat limbs)",
                       "fake PoW engine (seal checks are C14)", "blocks produced by core.GenerateChain are valid by construction"]
    vlib.write_evidence(ctx, rule="TLC: Chain.tla over every tree shape x difficulties 1..2 x every arrival order within the config bounds; "
        "direction A: histories of ChainGen.tla (all of them in the thorough tier, a seeded sample in quick) replayed on core.BlockChain; "
        "direction B: catalogue shapes + seeded random trees (8-32 blocks, two fork schedules) + long pruning chains, each under reference, "
        "random-history, header-first and corruption runs; distinct = distinct (op, error class, batch length, head==hhead, #imported)")
