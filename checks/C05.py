"""C05 - coins are created only by the block reward schedule."""
from checks import ledgerfam
def run(ctx):
    ledgerfam.run(ctx, "C05", "LedgerTrace_C05.cfg", "issuance")
