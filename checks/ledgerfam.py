"""Shared runner of C05 / C06 (ledger family)."""
import os, re, json
from lib import vlib
FAM = ["ledger"]

def run(ctx, pid, cfg, title):
    q = ctx.quick
    if not ctx.replay:
        vlib.model_check(ctx, FAM, "LedgerMC.tla", "Ledger_small.cfg", timeout=1800)
        vlib.model_check(ctx, FAM, "LedgerMC.tla", "Ledger_mint.cfg", expect_violation="ConservationInv", timeout=1800)
        ctx.exhaustive = True
    trace = os.path.join(ctx.work, "ledger.ndjson")
    rc, out = vlib.go_test(ctx, "core", "TestVerifLedger$", env={"VERIF_OUT": trace, "VERIF_TREES": 24 if q else 400}, timeout=3000)
    m = re.search(r"VERIF-STAT trees=(\d+) blocks=(\d+) events=(\d+)", out)
    if rc != 0 or not m:
        raise vlib.Infra("ledger driver failed (rc=%d):\n%s" % (rc, out[-3000:]))
    v = vlib.validate_trace(ctx, FAM, "LedgerTrace.tla", cfg, trace, heap="12g", timeout=3000, name="trace_" + pid)
    evs = vlib.read_ndjson(trace)
    ctx.evaluations += len(evs)
    for e in evs:
        if e["e"] == "tx":
            ctx.signatures.add(("tx", e["create"], e["failed"], e["suicides"] > 0, e["refund"] > 0, e["valueCalls"] > 0, e["sameSC"], e["sameST"]))
        elif e["e"] == "block":
            ctx.signatures.add(("block", len(e["uncles"]), e["hf4"], e["suicides"] > 0))
        else:
            ctx.signatures.add((e["e"], e.get("kind"), e.get("num")))
    ctx.samples = [e for e in evs if e["e"] in ("tx", "block")][:3] + [e for e in evs if e["e"] == "badblock"][:3]
    if v.accepted:
        ctx.traces_validated += int(m.group(2))
    else:
        line = v.line or 0
        ev = evs[line - 1] if 0 < line <= len(evs) else {}
        meta = os.path.join(ctx.work, "meta.json")
        json.dump({"seed": ctx.seed, "tier": ctx.tier, "line": line, "invariant": v.violated}, open(meta, "w"))
        ctx.violation("%s: LedgerTrace invariant %s false at trace line %s: %s" % (title, v.violated, line, json.dumps(ev)[:700]),
                      ctx.save_replay("trace", [trace, meta]))
    ctx.assumptions = ["the account universe of a block = accounts in the committed pre/post dumps + every address the block names",
                       "gas consumed = intrinsic gas + EVM gas reported at Tracer.CaptureEnd; refund counter read at CaptureEnd",
                       "blocks produced by core.GenerateChain; fake PoW"]
    vlib.write_evidence(ctx, rule="TLC: Ledger.tla (value flow of one transaction: frames, revert, self-destruct, refund) exhaustively on a scaled "
        "domain, seeded-mint config must fail; Go: every block of seeded random trees (two fork schedules, HF4 height, uncles, creations, "
        "calls with storage clears / self-destructs / out-of-gas, shared transactions) replayed tx by tx; hand-made blocks with one offending "
        "transaction; reward schedule on synthetic headers around height 42,000,000; distinct = distinct event shape signatures")
