"""C16 - log blooms have no false negatives and log queries are exact.
1. TLC: LogFilterMC.tla - for every small chain, criteria and range, with COLLIDING bit assignments, the bloom-prefiltered
   pipeline (index or header scan, then exact re-check) returns the brute-force result and blooms are complete.
2. Go: seeded chains (real LOGn transactions + unchecked receipts, colliding item universe incl. topics equal to the emitting
   address), the real chain indexer building the bloom-bits index (section size 8/16/32, 1-4 sections, 256 confirmations),
   queries through filters.New(...).Logs and PublicFilterAPI.GetLogs with full / partial / no index.
3. TLC: LogFilterTrace.tla computes BruteForce over the recorded canonical receipts and compares; checks every header and
   receipt bloom against independent keccak bit positions."""
import os, re, json
from lib import vlib
FAM = ["logfilter"]

def run(ctx):
    q = ctx.quick
    if not ctx.replay:
        vlib.model_check(ctx, FAM, "LogFilterMC.tla", "LogFilterMC.cfg", timeout=1800)
        ctx.exhaustive = True
    trace = os.path.join(ctx.work, "logfilter.ndjson")
    rc, out = vlib.go_test(ctx, "aqua/filters", "TestVerifLogFilter$", env={"VERIF_OUT": trace, "VERIF_CHAINS": 6 if q else 60, "VERIF_REALIDX": 1 if q else 4, "VERIF_QUERIES": 40 if q else 80}, timeout=6000)
    m = re.search(r"VERIF-STAT chains=(\d+) queries=(\d+) events=(\d+)", out)
    if rc != 0 or not m:
        raise vlib.Infra("log filter driver failed (rc=%d):\n%s" % (rc, out[-3000:]))
    v = vlib.validate_trace(ctx, FAM, "LogFilterTrace.tla", "LogFilterTrace.cfg", trace, heap="12g", timeout=6000)
    evs = vlib.read_ndjson(trace)
    ctx.evaluations += len(evs)
    for e in evs:
        if e["e"] == "query":
            ctx.signatures.add((e["mode"], e["via"], len(e["addrs"]), tuple(len(a) for a in e["topics"]), e["from"] < 0, e["to"] < 0, min(len(e["result"]), 3)))
        else:
            ctx.signatures.add(("chain", e["size"], e["sections"]))
    ctx.samples = [{k: e[k] for k in ("mode", "via", "reported", "from", "to", "addrs", "topics")} | {"results": len(e["result"])} for e in evs if e["e"] == "query" and e["result"]][:5]
    if v.accepted:
        ctx.traces_validated += int(m.group(1))
    else:
        line = v.line or 0
        ev = evs[line - 1] if 0 < line <= len(evs) else {}
        meta = os.path.join(ctx.work, "meta.json")
        json.dump({"seed": ctx.seed, "tier": ctx.tier, "line": line, "invariant": v.violated}, open(meta, "w"))
        d = {k: ev.get(k) for k in ("e", "chain", "mode", "via", "reported", "from", "to", "addrs", "topics", "err")}
        d["results"] = [(r["n"], r["k"]) for r in ev.get("result", [])][:20]
        ctx.violation("LogFilterTrace invariant %s false at trace line %s: %s" % (v.violated, line, json.dumps(d)[:900]), ctx.save_replay("trace", [trace, meta]))
    ctx.assumptions = ["bit positions of items come from golang.org/x/crypto/sha3 (independent of the repository's crypto package)",
                       "the backend's ServiceFilter is a transcription of aqua.startBloomHandlers with the seeded section size (the original hard-wires 4096-block sections)",
                       "chains are written with core.WriteBlock / WriteBlockReceipts as the repository's filter tests do; the index is built by aqua.NewBloomIndexer / core.ChainIndexer"]
    vlib.write_evidence(ctx, rule="TLC: 239,580 (chain, criteria, range) combinations x section sizes x index progress in the model; Go: 4 (quick) / 40 (thorough) chains of 270-420 blocks x "
        "40/80 criteria x {full index, partial index, header scan}; distinct = distinct (mode, via, #addresses, alternatives per topic position, open from, open to, result size bucket)")
