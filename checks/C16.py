"""C16 - log blooms have no false negatives and log queries are exact.
1. TLC: LogFilterMC.tla - for every small chain, criteria and range, with COLLIDING bit assignments, the bloom-prefiltered
   pipeline (index or header scan, then exact re-check) returns the brute-force result and blooms are complete.
2. Go: seeded chains (real LOGn transactions + unchecked receipts, colliding item universe incl. topics equal to the emitting
   address), the real chain indexer building the bloom-bits index (section size 8/16/32, 1-4 sections, 256 confirmations),
   queries through filters.New(...).Logs and PublicFilterAPI.GetLogs with full / partial / no index.
3. TLC: LogFilterTrace.tla computes BruteForce over the recorded canonical receipts and compares; checks every header and
   receipt bloom against independent keccak bit positions.
4. Index progress under reorganisations: ChainIndexer.tla (known / stored sections, section heads, processing interleaved with chain
   growth and reorganisations): stored sections stay canonical as long as no reorganisation is deeper than the confirmations (and
   with deep ones only with the last-head check later upstream versions have; the as-is config with deep reorganisations must fail).
   Behaviours simulated by TLC are replayed step by step on the real core.ChainIndexer through step hooks; IndexerTrace.tla takes
   the same steps in the model and compares the projection after every step."""
import os, re, json
from lib import vlib
FAM = ["logfilter"]

def indexer_part(ctx, q):
    for tag in ("c1", "c3"):
        r = vlib.run_tlc(ctx, ["indexer"], "IndexerGen.tla", "IndexerGen_%s.cfg" % tag, workers=1, timeout=1800, deadlock=False,
                         simulate=["-simulate", "num=%d" % (1500 if q else 12000), "-depth", "30", "-seed", str(ctx.seed)], name="gen_idx_" + tag)
        scripts = []
        for line in r.out.splitlines():
            if line.startswith('<<"GEN", "'):
                scripts.append(json.loads(line.strip()[len('<<"GEN", "'):-len('">>')].replace('\\"', '"').replace('\\\\', '\\')))
        if not scripts:
            raise vlib.Infra("IndexerGen produced no behaviours:\n" + r.out[-2000:])
        sp = os.path.join(ctx.work, "idx_scripts_%s.ndjson" % tag)
        with open(sp, "w") as f:
            for sc in scripts:
                f.write(json.dumps(sc) + "\n")
        tr = os.path.join(ctx.work, "indexer_%s.ndjson" % tag)
        rc, out = vlib.go_test(ctx, "core", "TestVerifIndexer$", env={"VERIF_OUT": tr, "VERIF_SCRIPT": sp}, files=["indexer_test.go"], timeout=3000)
        m = re.search(r"VERIF-STAT scripts=(\d+) events=(\d+) desyncs=(\d+)", out)
        if rc != 0 or not m:
            raise vlib.Infra("indexer driver failed (rc=%d):\n%s" % (rc, out[-3000:]))
        v = vlib.validate_trace(ctx, ["indexer"], "IndexerTrace.tla", "IndexerTrace_%s.cfg" % tag, tr, name="trace_idx_" + tag, timeout=3000)
        evs = vlib.read_ndjson(tr)
        ctx.evaluations += len(evs)
        for e in evs:
            ctx.signatures.add(("indexer", tag, e["op"], e.get("known"), e.get("stored"), tuple(e.get("fresh", [])), e.get("deep")))
        ctx.notes["indexer_stale_sections_after_deep_reorg_" + tag] = sum(1 for e in evs if False in e.get("fresh", []))
        if v.accepted:
            ctx.traces_validated += int(m.group(1))
        else:
            line = v.line or 0
            ev = evs[line] if 0 <= line < len(evs) else {}
            meta = os.path.join(ctx.work, "meta.json")
            json.dump({"seed": ctx.seed, "tier": ctx.tier, "line": line, "invariant": v.violated, "part": "indexer " + tag}, open(meta, "w"))
            ctx.violation("IndexerTrace (%s) %s after trace line %s: the real ChainIndexer and ChainIndexer.tla disagree, or a stored section is not canonical "
                          "without a deep reorganisation; next recorded step: %s" % (tag, v.violated, line, json.dumps(ev)[:400]), ctx.save_replay("indexer", [tr, sp, meta]))

def run(ctx):
    q = ctx.quick
    if not ctx.replay:
        vlib.model_check(ctx, FAM, "LogFilterMC.tla", "LogFilterMC.cfg", timeout=1800)
        vlib.model_check(ctx, ["indexer"], "ChainIndexer.tla", "ChainIndexer_shallow.cfg", timeout=1800, deadlock=False)
        vlib.model_check(ctx, ["indexer"], "ChainIndexer.tla", "ChainIndexer_checked.cfg", timeout=1800, deadlock=False)
        vlib.model_check(ctx, ["indexer"], "ChainIndexer.tla", "ChainIndexer_asis.cfg", expect_violation="StoredIsCanonical", timeout=600, deadlock=False)
        vlib.model_check(ctx, FAM, "BitCodecMC.tla", "BitCodec_ok.cfg", timeout=1800)
        vlib.model_check(ctx, FAM, "BitCodecMC.tla", "BitCodec_eq.cfg", expect_violation="RoundTripInv", timeout=600)
        ctx.exhaustive = True
    indexer_part(ctx, q)
    trace = os.path.join(ctx.work, "logfilter.ndjson")
    rc, out = vlib.go_test(ctx, "aqua/filters", "TestVerifLogFilter$", env={"VERIF_OUT": trace, "VERIF_CHAINS": 6 if q else 60, "VERIF_REALIDX": 1 if q else 4, "VERIF_QUERIES": 40 if q else 80}, timeout=6000)
    m = re.search(r"VERIF-STAT chains=(\d+) queries=(\d+) events=(\d+)", out)
    if rc != 0 or not m:
        raise vlib.Infra("log filter driver failed (rc=%d):\n%s" % (rc, out[-3000:]))
    v = vlib.validate_trace(ctx, FAM, "LogFilterTrace.tla", "LogFilterTrace.cfg", trace, heap="12g", timeout=6000)
    evs = vlib.read_ndjson(trace)
    ctx.evaluations += len(evs)
    for e in evs:
        if e["e"] == "query":
            ctx.signatures.add((e["mode"], e["via"], len(e["addrs"]), tuple(len(a) for a in e["topics"]), e["from"] < 0, e["to"] < 0, min(len(e["result"]), 3)))
        elif e["e"] == "codec":
            ctx.signatures.add(("codec", e["n"], e["encLen"] < e["n"], e["encLen"] == e["n"], e["same"]))
        else:
            ctx.signatures.add(("chain", e["size"], e["sections"]))
    ctx.samples = [{k: e[k] for k in ("mode", "via", "reported", "from", "to", "addrs", "topics")} | {"results": len(e["result"])} for e in evs if e["e"] == "query" and e["result"]][:5]
    if v.accepted:
        ctx.traces_validated += int(m.group(1))
    else:
        line = v.line or 0
        ev = evs[line - 1] if 0 < line <= len(evs) else {}
        meta = os.path.join(ctx.work, "meta.json")
        json.dump({"seed": ctx.seed, "tier": ctx.tier, "line": line, "invariant": v.violated}, open(meta, "w"))
        d = {k: ev.get(k) for k in ("e", "chain", "mode", "via", "reported", "from", "to", "addrs", "topics", "err", "n", "encLen", "decOk", "same", "data", "enc")}
        d["results"] = [(r["n"], r["k"]) for r in ev.get("result", [])][:20]
        ctx.violation("LogFilterTrace invariant %s false at trace line %s: %s" % (v.violated, line, json.dumps(d)[:900]), ctx.save_replay("trace", [trace, meta]))
    ctx.assumptions = ["chain indexer: chain operations are performed by the driver (headers and canonical hashes written, then newHead(...) called as the event loop does); the update loop is stepped through four hook sites (build tag verif)",
                       "bit positions of items come from golang.org/x/crypto/sha3 (independent of the repository's crypto package)",
                       "the backend's ServiceFilter is a transcription of aqua.startBloomHandlers with the seeded section size (the original hard-wires 4096-block sections)",
                       "chains are written with core.WriteBlock / WriteBlockReceipts as the repository's filter tests do; the index is built by aqua.NewBloomIndexer / core.ChainIndexer"]
    vlib.write_evidence(ctx, rule="TLC: 239,580 (chain, criteria, range) combinations x section sizes x index progress in the model; Go: 4 (quick) / 40 (thorough) chains of 270-420 blocks x "
        "40/80 criteria x {full index, partial index, header scan}; distinct = distinct (mode, via, #addresses, alternatives per topic position, open from, open to, result size bucket)")
