"""C06 - every included transaction is charged, nonced and rolled back exactly."""
from checks import ledgerfam
def run(ctx):
    ledgerfam.run(ctx, "C06", "LedgerTrace_C06.cfg", "transaction accounting")
