"""C10 - the Merkle-Patricia trie commits to exactly its content.
1. TLC: TrieCheck.tla - the reference (canonical tree builder + lookup) over every content of a small key universe
   with prefix keys: lookups return the content, no degenerate nodes; RLPCheck for the node codec.
2. Go: seeded operation sequences on trie.Trie over prefix / random / hashed key universes with hash, commit,
   database commit, reopen, cache limits, iteration, proofs and single-byte alterations of proofs.
3. TLC: TrieTrace.tla folds the operations into the content, rebuilds the canonical trie in TLA+, encodes every node
   with RLP.tla and compares with the node store dump, the root, lookups, iteration and proofs."""
import os, re, json
from lib import vlib
FAM = ["rlp", "trie"]

def run(ctx):
    q = ctx.quick
    if not ctx.replay:
        vlib.model_check(ctx, FAM, "TrieCheck.tla", "TrieCheck.cfg", timeout=1800)
        ctx.exhaustive = True
    trace = os.path.join(ctx.work, "trie.ndjson")
    rc, out = vlib.go_test(ctx, "trie", "TestVerifTrie$", env={"VERIF_OUT": trace, "VERIF_SEQ": 150 if q else 3000}, timeout=3000)
    m = re.search(r"VERIF-STAT sequences=(\d+) events=(\d+)", out)
    if rc != 0 or not m:
        raise vlib.Infra("trie driver failed (rc=%d):\n%s" % (rc, out[-3000:]))
    v = vlib.validate_trace(ctx, FAM, "TrieTrace.tla", "TrieTrace.cfg", trace, heap="12g", timeout=6000)
    evs = vlib.read_ndjson(trace)
    ctx.evaluations += len(evs)
    for e in evs:
        if e["e"] == "ckpt":
            ctx.signatures.add((e["kind"], min(len(e["dump"]), 12), len(e["iter"]), sum(len(p["nodes"]) for p in e["proofs"]),
                                sum(1 for p in e["proofs"] if not p["value"])))
    ctx.samples = [{"kind": e["kind"], "ops": e["ops"][:4], "root": bytes(e["root"]).hex(), "dump_nodes": len(e["dump"]), "iter": len(e["iter"])}
                   for e in evs if e["e"] == "ckpt"][:5]
    if v.accepted:
        ctx.traces_validated += int(m.group(1))
    else:
        line = v.line or 0
        ev = evs[line - 1] if 0 < line <= len(evs) else {}
        meta = os.path.join(ctx.work, "meta.json")
        json.dump({"seed": ctx.seed, "tier": ctx.tier, "line": line, "invariant": v.violated}, open(meta, "w"))
        ctx.violation("TrieTrace invariant %s false at trace line %s: checkpoint kind=%s seq=%s root=%s, %d ops since the previous checkpoint" % (
            v.violated, line, ev.get("kind"), ev.get("seq"), bytes(ev.get("root", [])).hex(), len(ev.get("ops", []))),
            ctx.save_replay("trace", [trace, meta]))
    # list commitments (DeriveSha) of core/types
    dtrace = os.path.join(ctx.work, "derive.ndjson")
    rc2, out2 = vlib.go_test(ctx, "core/types", "TestVerifDeriveSha$", env={"VERIF_DERIVE_OUT": dtrace}, files=["derivesha_test.go"], timeout=1500)
    m2 = re.search(r"VERIF-STAT derive lists=(\d+)", out2)
    if rc2 != 0 or not m2:
        raise vlib.Infra("DeriveSha driver failed (rc=%d):\n%s" % (rc2, out2[-2000:]))
    v2 = vlib.validate_trace(ctx, FAM, "TrieTrace.tla", "TrieTrace.cfg", dtrace, name="trace_derive", heap="4g", timeout=1500)
    devs = vlib.read_ndjson(dtrace)
    ctx.evaluations += len(devs)
    for e in devs:
        ctx.signatures.add(("derive", e["n"]))
    if v2.accepted:
        ctx.traces_validated += 1
    else:
        ev = devs[v2.line - 1] if v2.line and v2.line <= len(devs) else {}
        ctx.violation("TrieTrace invariant %s false at trace line %s: DeriveSha of a %s-item list = %s, trie of {rlp(i) -> item} = %s, single-item changes without effect on the root at %s" % (
            v2.violated, v2.line, ev.get("n"), ev.get("derived"), ev.get("reference"), ev.get("blind")), ctx.save_replay("derive", [dtrace]))
    ctx.assumptions = ["keccak256(blob) = key for every dumped node, asserted by the driver with golang.org/x/crypto/sha3",
                       "proofs are not requested from an empty trie (it has no node to prove with)"]
    vlib.write_evidence(ctx, rule="TLC: every content over a 7-key universe with prefix keys x 2 values for the reference; Go: seeded sequences "
        "(8-48 operations) over three key universes, checkpoints of four kinds; every checkpoint's node store is decoded and compared with the "
        "canonical trie built in TLA+; distinct = distinct (checkpoint kind, store size bucket, content size, proof nodes, absence proofs)")
