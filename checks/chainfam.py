"""Shared runner of the chain family (C01, C02, C03): one Go driver run, one trace, per-property invariant sets."""
import os, re, json
from lib import vlib

FAM = ["chain"]
INVS = {
    "C01": "ChainTrace_C01.cfg",
    "C02": "ChainTrace_C02.cfg",
    "C03": "ChainTrace_C03.cfg",
}

def drive(ctx, trees, hist, long_):
    trace = os.path.join(ctx.work, "chain.ndjson")
    rc, out = vlib.go_test(ctx, "core", "TestVerifChain$", env={"VERIF_OUT": trace, "VERIF_TREES": trees, "VERIF_HIST": hist,
                                                                 "VERIF_LONG": long_}, timeout=3000)
    m = re.search(r"VERIF-STAT trees=(\d+) events=(\d+)", out)
    if rc != 0 or not m:
        # a panic inside the node while importing is an observation about the code only if it reproduces;
        # the driver itself does not judge, so treat as infrastructure unless the trace says otherwise
        raise vlib.Infra("chain driver failed (rc=%d):\n%s" % (rc, out[-3000:]))
    return trace, int(m.group(1)), int(m.group(2))

def gen_scripts(ctx, cfg, n, simulate=None):
    """Direction A: histories from TLC (ChainGen.tla). BFS = every history of GenDepth operations."""
    import random
    r = vlib.run_tlc(ctx, FAM, "ChainGenMC.tla", cfg, workers=8, timeout=1800, deadlock=False, simulate=simulate, name="gen_" + cfg)
    scripts = []
    for line in r.out.splitlines():
        if line.startswith('<<"GEN", "'):
            s = line.strip()[len('<<"GEN", "'):-len('">>')]
            scripts.append(json.loads(s.replace('\\"', '"').replace('\\\\', '\\')))
    if not scripts:
        raise vlib.Infra("ChainGen produced no histories:\n" + r.out[-2000:])
    total = len(scripts)
    ctx.states += r.distinct
    ctx.transitions += r.generated
    ctx.model_runs.append({"config": cfg, "module": "ChainGenMC.tla", "generated": r.generated, "distinct": r.distinct,
                           "histories": total, "wall_s": round(r.wall, 1), "result": "generated"})
    random.Random(ctx.seed).shuffle(scripts)
    scripts = scripts[:n]
    path = os.path.join(ctx.work, "scripts_%s.ndjson" % cfg.replace(".cfg", ""))
    with open(path, "w") as f:
        for sc in scripts:
            f.write(json.dumps(sc) + "\n")
    ctx.log("ChainGen %s: %d histories, %d replayed" % (cfg, total, len(scripts)))
    return path, total, len(scripts)

def drive_scripts(ctx, scripts, tag):
    trace = os.path.join(ctx.work, "chain_script_%s.ndjson" % tag)
    rc, out = vlib.go_test(ctx, "core", "TestVerifChainScript$", env={"VERIF_OUT": trace, "VERIF_SCRIPT": scripts}, timeout=3000)
    m = re.search(r"VERIF-STAT trees=(\d+) scripts=(\d+) events=(\d+)", out)
    if rc != 0 or not m:
        raise vlib.Infra("script driver failed (rc=%d):\n%s" % (rc, out[-3000:]))
    return trace

def judge(ctx, pid, trace, ntrees, what):
    v = vlib.validate_trace(ctx, FAM, "ChainTrace.tla", INVS[pid], trace, name="trace_" + pid, heap="12g", timeout=3000)
    evs = vlib.read_ndjson(trace)
    ctx.evaluations += len(evs)
    for e in evs:
        if e["e"] == "op":
            o = e["obs"]
            ctx.signatures.add((e["op"], e["err"], len(e["blocks"]), o["head"] == o["hhead"], len(e.get("imported", []))))
    ctx.samples = [{k: (x[k] if k != "obs" else {"head": x["obs"]["head"], "hhead": x["obs"]["hhead"], "canonH": x["obs"]["canonH"][:12]})
                    for k in x if k not in ("blocks",) or x["e"] != "tree"} for x in evs if x["e"] == "op"][:6]
    listed = {f["id"] for f in vlib.known_for(pid)}
    tags = {}
    for tag, line in v.known:
        tags.setdefault(tag, []).append(line)
    for tag, lines in tags.items():
        if tag in listed and tag == "D18":
            ctx.known_finding("D18 ghost state: a side block stored without execution on a restarted pruning node became canonical through a stored sibling state root; it has no receipts (%d observation(s), first at trace line %d)" % (len(lines), lines[0]))
        else:
            ctx.violation("unlisted known-finding tag %s at line %d" % (tag, lines[0]), trace)
    if v.accepted:
        ctx.traces_validated += sum(1 for e in evs if e["e"] == "run")
    else:
        line = v.line or 0
        ev = evs[line - 1] if 0 < line <= len(evs) else {}
        meta = os.path.join(ctx.work, "meta.json")
        json.dump({"seed": ctx.seed, "tier": ctx.tier, "line": line, "invariant": v.violated}, open(meta, "w"))
        rp = ctx.save_replay("trace", [trace, meta])
        ctx.violation("%s: ChainTrace invariant %s false at trace line %s (%s %s err=%r)" % (
            what, v.violated, line, ev.get("op"), ev.get("blocks"), ev.get("err")), rp)
    return v
