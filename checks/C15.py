"""C15 - the pool's pending transactions are always executable, in order and bounded.
1. TLC: TxPool.tla (add / replace / promote / demote / reset) exhaustively for a small universe; the config
   with the pinned orphan defect must fail.
2. Go: seeded random histories and concurrent submissions against the real core.TxPool over a fake block tree
   with real state (tight and roomy limits), -race; the pool is projected under pool.mu after every call.
3. TLC: TxPoolTrace.tla evaluates TxPoolProps on every projection."""
import os, re, json
from lib import vlib

FAM = ["txpool"]

def run(ctx):
    q = ctx.quick
    if not ctx.replay:
        vlib.model_check(ctx, FAM, "TxPoolMC.tla", "TxPool_small.cfg", timeout=1800, deadlock=False)
        vlib.model_check(ctx, FAM, "TxPoolMC.tla", "TxPool_orphan.cfg", expect_violation="OnePerNonceInv", timeout=1800, deadlock=False)
        if not q:
            vlib.model_check(ctx, FAM, "TxPoolMC.tla", "TxPool_deep.cfg", timeout=3000, deadlock=False, heap="16g")
            vlib.model_check(ctx, FAM, "TxPoolMC.tla", "TxPool_two.cfg", timeout=3000, deadlock=False, heap="16g")
        ctx.exhaustive = True
    trace = os.path.join(ctx.work, "pool.ndjson")
    t1, t2 = os.path.join(ctx.work, "pool_seq.ndjson"), os.path.join(ctx.work, "pool_conc.ndjson")
    rc1, out1 = vlib.go_test(ctx, "core", "TestVerifTxPool$", env={"VERIF_OUT": t1, "VERIF_HIST": 100 if q else 1500,
                             "VERIF_OPS": 80 if q else 120, "VERIF_CONC_MS": 0}, timeout=3000)
    rc, out = vlib.go_test(ctx, "core", "TestVerifTxPool$", env={"VERIF_OUT": t2, "VERIF_HIST": 4 if q else 40,
                           "VERIF_OPS": 60, "VERIF_CONC_MS": 300 if q else 3000}, race=True, timeout=3000)
    race = "DATA RACE" in out
    m1 = re.search(r"VERIF-STAT histories=(\d+) events=(\d+)", out1)
    m = re.search(r"VERIF-STAT histories=(\d+) events=(\d+)", out)
    if not m or not m1:
        raise vlib.Infra("txpool driver failed (rc=%d/%d):\n%s\n%s" % (rc1, rc, out1[-2000:], out[-2000:]))
    with open(trace, "w") as f:
        f.write(open(t1).read())
        f.write(open(t2).read())
    nhist = int(m1.group(1)) + int(m.group(1))
    v = vlib.validate_trace(ctx, FAM, "TxPoolTrace.tla", "TxPoolTrace.cfg", trace, heap="12g", timeout=3000)
    evs = vlib.read_ndjson(trace)
    ctx.evaluations += len(evs)
    for e in evs:
        pr = e["proj"]
        ctx.signatures.add((e.get("op", e["e"]), (e.get("err") or "")[:18], sum(len(x) for x in pr["pending"].values()) > 0,
                            sum(len(x) for x in pr["queue"].values()) > 0))
    ctx.samples = [{k: e[k] for k in e if k != "proj"} for e in evs if e["e"] == "op"][:6]
    def save(name):
        meta = os.path.join(ctx.work, "meta.json")
        json.dump({"seed": ctx.seed, "tier": ctx.tier, "line": v.line, "invariant": v.violated}, open(meta, "w"))
        return ctx.save_replay(name, [trace, meta])
    if race:
        ctx.violation("race detector report in core.TxPool under concurrent submissions and head changes:\n" +
                      out[out.find("DATA RACE") - 100:][:1500], save("race"))
    if v.accepted:
        ctx.traces_validated += nhist + 2
    else:
        line = v.line or 0
        ev = evs[line - 1] if 0 < line <= len(evs) else {}
        ctx.violation("TxPoolTrace invariant %s false at trace line %s: %s" % (v.violated, line,
                      json.dumps({k: ev.get(k) for k in ("e", "op", "s", "tx", "err", "depth")})), save("trace"))
    if rc != 0 and not race and v.accepted:
        raise vlib.Infra("txpool driver failed:\n" + out[-2000:])
    ctx.assumptions = ["the fake block tree carries real StateDB states; nonce/balance/gas-limit views are read from the pool's own currentState under pool.mu",
                       "replacement threshold = old*(100+bump)/100 in integer arithmetic (prices are integers of wei)"]
    vlib.write_evidence(ctx, rule="TLC: TxPool.tla all behaviours within the config bounds; Go: seeded random histories (tight and roomy limits: "
        "adds incl. gaps/stale/replacements at +-1 around the bump, batches, gas-price changes, head advances that consume/fund/drain, "
        "reorganisations of depth 1-3 to shorter/equal/longer branches) + concurrent submitters with a sampler; distinct = distinct "
        "(op, error class, pending non-empty, queue non-empty)")
