"""C09 - state snapshots revert exactly and the state root commits to content only.
1. TLC: StateJournal.tla - the journal/undo machine refines the snapshot-copy machine for any nesting of snapshots;
   a config that omits one journal entry must fail.  TrieCheck for the trie reference used below.
2. Go: seeded sequences of every StateDB mutator with nested snapshots and reverts to any live revision,
   Finalise/IntermediateRoot/Commit, Copy and reopen; observations read through Copy (no cache warming).
3. TLC: StateTrace.tla - RevertExact against the observation recorded at the snapshot; the reported root must be the
   canonical Merkle-Patricia root (Trie.tla + RLP.tla) of the account records read back, incl. canonical storage tries;
   Copy and reopened states read back identically."""
import os, re, json
from lib import vlib
FAM = ["rlp", "trie", "state"]

def run(ctx):
    q = ctx.quick
    if not ctx.replay:
        vlib.model_check(ctx, FAM, "StateJournalMC.tla", "StateJournal_quick.cfg" if q else "StateJournal_ok.cfg", timeout=3000, heap="16g")
        vlib.model_check(ctx, FAM, "StateJournalMC.tla", "StateJournal_bug.cfg", expect_violation="RevertExact", timeout=1800)
        ctx.exhaustive = True
    trace = os.path.join(ctx.work, "state.ndjson")
    rc, out = vlib.go_test(ctx, "core/state", "TestVerifState$", env={"VERIF_OUT": trace, "VERIF_SEQ": 250 if q else 5000}, timeout=3000)
    m = re.search(r"VERIF-STAT sequences=(\d+) events=(\d+)", out)
    if rc != 0 or not m:
        raise vlib.Infra("state driver failed (rc=%d):\n%s" % (rc, out[-3000:]))
    v = vlib.validate_trace(ctx, FAM, "StateTrace.tla", "StateTrace.cfg", trace, heap="12g", timeout=6000)
    evs = vlib.read_ndjson(trace)
    ctx.evaluations += len(evs)
    for e in evs:
        if e["e"] == "op":
            ctx.signatures.add(("op", e["op"]))
        elif e["e"] == "root":
            ctx.signatures.add(("root", e["kind"], e["del"], sum(1 for a in e["obs"]["accts"].values() if a["exist"]), min(len(e["dump"]), 20)))
        elif e["e"] in ("snapshot", "revert"):
            ctx.signatures.add((e["e"], min(e["id"], 6)))
    ctx.samples = [{"e": e["e"], "op": e.get("op"), "a": e.get("a"), "id": e.get("id"), "kind": e.get("kind")} for e in evs[2:14]]
    listed = {f["id"] for f in vlib.known_for("C09")}
    for tag, line in v.known:
        if tag in listed:
            ctx.known_finding("%s reverted zero-value touch loses dirty tracking: committed record of the touched account differs from the getters (trace line %d)" % (tag, line))
        else:
            ctx.violation("unlisted known-finding tag %s at line %d" % (tag, line), trace)
    ctx.notes["known_finding_occurrences"] = len(v.known)
    if v.accepted:
        ctx.traces_validated += int(m.group(1))
    else:
        line = v.line or 0
        ev = evs[line - 1] if 0 < line <= len(evs) else {}
        meta = os.path.join(ctx.work, "meta.json")
        json.dump({"seed": ctx.seed, "tier": ctx.tier, "line": line, "invariant": v.violated}, open(meta, "w"))
        ctx.violation("StateTrace invariant %s false at trace line %s: event %s %s" % (v.violated, line, ev.get("e"),
                      {k: ev.get(k) for k in ("op", "a", "id", "kind", "del", "reopenErr")}), ctx.save_replay("trace", [trace, meta]))
    ctx.assumptions = ["keccak of addresses, slots, code and dumped nodes supplied/asserted by the driver with x/crypto/sha3",
                       "one deleteEmptyObjects rule per sequence and a fresh StateDB after every Commit, as in block processing",
                       "history dependence through the sticky dirty set (DESIGN D6) is not observable by these predicates and is documented, not claimed"]
    vlib.write_evidence(ctx, rule="TLC: StateJournal.tla all behaviours of <= 5/6 operations over 2 addresses; Go: seeded sequences of 10-60 operations over "
        "5 addresses (incl. a precompile and a pre-touched empty account) x 3 slots; every snapshot/revert pair and every root computation is "
        "judged; distinct = distinct (operation kinds, root kinds x live accounts x store size, snapshot depths)")
