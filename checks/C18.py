"""C18 - no RPC endpoint can make the node sign unless explicitly opted in.
1. TLC: RpcGuardMC.tla - all 32 environment assignments x 4 transports against the registration guard of RegisterName
   (protection by method NAME and by the caller's function name); the as-is config (the three names the code listed
   before the repair) must fail on the SignAndSendTransaction alias.
2. Go: one child process per environment assignment (the flags are read at package init): a real node.Node with the
   aqua service, a keystore with a locked and an unlocked funded account, a pending transaction, all namespaces on
   in-process / IPC / HTTP / WebSocket; every method each transport's server really serves (hook rpc.VerifMethods) is
   called through a real client with four argument profiles; the keystore signing counter (hook) is read around each call.
3. TLC: RpcTrace.tla - signed > 0 only on opted-in transports; protected names served only there."""
import os, re, json, itertools
from lib import vlib
FAM = ["rpcguard"]
FLAGS = ["UNSAFE_RPC_SIGNING", "UNSAFE_ALLOW_SIGN_IPC", "UNSAFE_RPC_SIGNING_HTTP", "UNSAFE_RPC_SIGNING_WS", "UNSAFE_ALLOW_SIGN_INPROC"]
TR = {"UNSAFE_ALLOW_SIGN_IPC": "ipc", "UNSAFE_RPC_SIGNING_HTTP": "http", "UNSAFE_RPC_SIGNING_WS": "ws", "UNSAFE_ALLOW_SIGN_INPROC": "inproc"}

def run(ctx):
    q = ctx.quick
    if not ctx.replay:
        vlib.model_check(ctx, FAM, "RpcGuardMC.tla", "RpcGuard_fixed.cfg", timeout=600)
        vlib.model_check(ctx, FAM, "RpcGuardMC.tla", "RpcGuard_asis.cfg", expect_violation="NoSignUnlessOptIn", timeout=600)
        ctx.exhaustive = True
    if q:
        envs = [(), tuple(FLAGS)] + [(f,) for f in FLAGS]      # none, all, and each opt-in alone (a leak shows on the other transports)
    else:
        envs = [c for n in range(len(FLAGS) + 1) for c in itertools.combinations(FLAGS, n)]
    trace = os.path.join(ctx.work, "rpc.ndjson")
    open(trace, "w").close()
    ncalls = 0
    def one(i_env):
        i, env = i_env
        part = os.path.join(ctx.work, "rpc_%d.ndjson" % i)
        e = {"VERIF_OUT": part}
        for f in FLAGS:
            e[f] = "1" if f in env else ""
        rc, out = vlib.go_test(ctx, "opt/console", "TestVerifRpcGuard$", env=e, timeout=1500)
        m = re.search(r"VERIF-STAT events=(\d+) calls=(\d+) skipped=(\d+)", out)
        if rc != 0 or not m:
            raise vlib.Infra("rpc guard driver failed for env %s (rc=%d):\n%s" % (env, rc, out[-3000:]))
        evs = vlib.read_ndjson(part)
        if sorted(evs[0]["env"]) != sorted(env):
            raise vlib.Infra("driver saw environment %s, expected %s" % (evs[0]["env"], env))
        # driver health (positive control): with every opt-in set, every transport signs; what single opt-ins enable is judged by TLC
        if len(env) == len(FLAGS):
            for f in env:
                if f in TR and not any(x["e"] == "call" and x["transport"] == TR[f] and x["signed"] > 0 for x in evs):
                    raise vlib.Infra("no signature observed on transport %s with every opt-in set: the driver no longer reaches the keystore" % TR[f])
        return part, int(m.group(2))
    first = one((0, envs[0]))    # warms the build cache, then the rest four at a time
    from concurrent.futures import ThreadPoolExecutor
    with ThreadPoolExecutor(4) as ex:
        results = [first] + list(ex.map(one, list(enumerate(envs))[1:]))
    for part, n in results:
        ncalls += n
        with open(trace, "a") as o:
            o.write(open(part).read())
    v = vlib.validate_trace(ctx, FAM, "RpcTrace.tla", "RpcTrace.cfg", trace, heap="12g", timeout=6000)
    evs = vlib.read_ndjson(trace)
    ctx.evaluations += len(evs)
    for e in evs:
        if e["e"] == "call":
            ctx.signatures.add((tuple(e["env"]), e["transport"], e["method"], e["profile"], e["batch"], e["signed"] > 0))
    ctx.samples = [e for e in evs if e["e"] == "call" and e["signed"] > 0][:3] + [e for e in evs if e["e"] == "call" and e["method"].startswith("personal_")][:3]
    if v.accepted:
        ctx.traces_validated += len(envs)
    else:
        line = v.line or 0
        ev = evs[line - 1] if 0 < line <= len(evs) else {}
        if "methods" in ev:
            ev = dict(ev, methods=[m for m in ev["methods"] if "ign" in m or "end" in m])
        meta = os.path.join(ctx.work, "meta.json")
        json.dump({"seed": ctx.seed, "tier": ctx.tier, "line": line, "invariant": v.violated}, open(meta, "w"))
        ctx.violation("RpcTrace invariant %s false at trace line %s: %s" % (v.violated, line, json.dumps(ev)[:700]), ctx.save_replay("trace", [trace, meta]))
    ctx.assumptions = ["'a signature was produced' = the counter at the six keystore signing entry points (hook, build tag verif) moved during the call",
                       "methods that tear an endpoint down or need the command line's log set-up are listed, not invoked (RpcTrace!MaySkip)",
                       "argument profiles: (unlocked account, its passphrase), (locked, right passphrase), (locked, wrong passphrase), (unlocked, a SendTxArgs reproducing its pending pool transaction with a higher gas price)"]
    vlib.write_evidence(ctx, rule="%d environment assignments x 4 transports x every served method (~136) x 4 argument profiles = %d calls; distinct = distinct (environment, transport, method, profile, signed?)" % (len(envs), ncalls))
