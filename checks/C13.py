"""C13 - headers and uncles are accepted iff they satisfy the consensus rules.
1. TLC: VerifyPool.tla - the dispatcher of VerifyHeaders for every worker schedule (in-order, once, equal to the one-by-one
   verdict; liveness without abort); the config with the seeded "skip seal after a failure" defect must fail.
2. Go: per network schedule and around every fork height, a valid header and ~22 single-rule alterations on both sides of each
   bound through VerifyHeader / VerifyHeaders / the uncle entry point; CalcDifficulty itself; uncle sets over a synthetic
   ancestry (heights beyond the historical exemptions, and around HF5); batches with planted failures under perturbed
   worker schedules and GOMAXPROCS 1/2/4/16.
3. TLC: HeaderTrace.tla recomputes the difficulty (BigNat) and every verdict from HeaderRules.tla."""
import os, re, json
from lib import vlib
FAM = ["header"]

def run(ctx):
    q = ctx.quick
    if not ctx.replay:
        vlib.model_check(ctx, FAM, "VerifyPoolMC.tla", "VerifyPool_ok.cfg", timeout=1800)
        vlib.model_check(ctx, FAM, "VerifyPoolMC.tla", "VerifyPool_bug.cfg", expect_violation="BatchEqualsSequential", timeout=1800)
        ctx.exhaustive = True
    trace = os.path.join(ctx.work, "hdr.ndjson")
    rc, out = vlib.go_test(ctx, "consensus/aquahash", "TestVerifHeaders$", env={"VERIF_OUT": trace, "VERIF_REPS": 2 if q else 40,
                           "VERIF_BATCH": 150 if q else 4000}, timeout=3000)
    m = re.search(r"VERIF-STAT events=(\d+)", out)
    if rc != 0 or not m:
        raise vlib.Infra("header driver failed (rc=%d):\n%s" % (rc, out[-3000:]))
    v = vlib.validate_trace(ctx, FAM, "HeaderTrace.tla", "HeaderTrace.cfg", trace, heap="12g", timeout=6000)
    evs = vlib.read_ndjson(trace)
    ctx.evaluations += len(evs)
    for e in evs:
        if e["e"] == "header":
            ctx.signatures.add(("header", e["sched"]["name"], e["mut"], e["accepted"]))
        elif e["e"] == "uncles":
            ctx.signatures.add(("uncles", e["sched"]["name"], len(e["U"]), e["accepted"]))
        elif e["e"] == "batch":
            ctx.signatures.add(("batch", e["firstSeq"] >= 0, len(e["planted"])))
        else:
            ctx.signatures.add((e["e"], e["sched"]["name"]))
    ctx.samples = [e for e in evs if e["e"] == "header"][:2] + [e for e in evs if e["e"] == "uncles"][:2] + [e for e in evs if e["e"] == "batch"][:1]
    if v.accepted:
        ctx.traces_validated += 1
    else:
        line = v.line or 0
        ev = evs[line - 1] if 0 < line <= len(evs) else {}
        meta = os.path.join(ctx.work, "meta.json")
        json.dump({"seed": ctx.seed, "tier": ctx.tier, "line": line, "invariant": v.violated}, open(meta, "w"))
        ctx.violation("HeaderTrace invariant %s false at trace line %s: %s" % (v.violated, line, json.dumps(ev)[:700]), ctx.save_replay("trace", [trace, meta]))
    # header-first import of overlapping batches that end in a rule-breaking header, through core.HeaderChain (the caller of the
    # engine's batch verification): one-by-one and batch verdicts must agree there too
    from checks import chainfam
    ctrace, nt, nev = chainfam.drive(ctx, 4 if ctx.quick else 24, 1, 0)
    cv = vlib.validate_trace(ctx, chainfam.FAM, "ChainTrace.tla", "ChainTrace_C13.cfg", ctrace, name="trace_C13_chain", heap="12g", timeout=3000)
    cevs = vlib.read_ndjson(ctrace)
    ctx.evaluations += sum(1 for e in cevs if e.get("op") == "headers")
    if cv.accepted:
        ctx.traces_validated += nt
    else:
        ev = cevs[cv.line - 1] if cv.line and cv.line <= len(cevs) else {}
        meta = os.path.join(ctx.work, "meta.json")
        json.dump({"seed": ctx.seed, "tier": ctx.tier, "line": cv.line, "invariant": cv.violated, "part": "header-first import"}, open(meta, "w"))
        ctx.violation("ChainTrace invariant %s false at trace line %s (header-first import of a batch with a rule-breaking header): op=%s blocks=%s err=%r" % (
            cv.violated, cv.line, ev.get("op"), ev.get("blocks"), ev.get("err")), ctx.save_replay("chain", [ctrace, meta]))
    ctx.assumptions = ["fake PoW (the seal is C14); the 15 s future bound is tested with >= 6 s margins on both sides",
                       "uncle position facts (ancestor / duplicate / parent generation / header validity) are properties of the constructed scenario"]
    vlib.write_evidence(ctx, rule="5 built-in schedules x (heights fork-2..fork+2 for every fork + 4 ordinary heights) x repetitions x (1 valid + 21 altered + 3 floor) headers, "
        "uncle subsets of 12 candidates, batches of 2-25 headers with 0-3 planted failures; distinct = distinct (event, schedule, alteration, verdict)")
