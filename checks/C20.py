"""C20 - keystore encryption round-trips and rejects wrong passphrases and tampering.
1. TLC: Keystore.tla - the decrypt decision procedure with abstract KDF / MAC / cipher over every tamper class; the configs
   without the address check (D9) and without checked parameter access (D8) must fail.
2. Go: real EncryptKey / DecryptKey / GetKey / KeyStore.Import / the public KeyStore API: keys with 0/1/2 leading zero bytes x 8
   passphrases, near-miss passphrases, and every single-character substitution, deletion and duplication at every position of
   scrypt and pbkdf2 key files (values and key names).
3. TLC: KeystoreTrace.tla - every outcome must be the original key or an error."""
import os, re, json
from lib import vlib
FAM = ["keystore"]

def run(ctx):
    q = ctx.quick
    if not ctx.replay:
        vlib.model_check(ctx, FAM, "Keystore.tla", "Keystore_fixed.cfg", timeout=600)
        vlib.model_check(ctx, FAM, "Keystore.tla", "Keystore_noaddr.cfg", expect_violation="Conforms", timeout=600)
        vlib.model_check(ctx, FAM, "Keystore.tla", "Keystore_unchecked.cfg", expect_violation="Conforms", timeout=600)
        ctx.exhaustive = True
    trace = os.path.join(ctx.work, "ks.ndjson")
    rc, out = vlib.go_test(ctx, "aqua/accounts/keystore", "TestVerifKeystore$", env={"VERIF_OUT": trace, "VERIF_FILES": 4 if q else 60}, timeout=6000)
    m = re.search(r"VERIF-STAT events=(\d+)", out)
    if rc != 0 or not m:
        raise vlib.Infra("keystore driver failed (rc=%d):\n%s" % (rc, out[-3000:]))
    v = vlib.validate_trace(ctx, FAM, "KeystoreTrace.tla", "KeystoreTrace.cfg", trace, heap="8g", timeout=6000)
    evs = vlib.read_ndjson(trace)
    ctx.evaluations += len(evs)
    for e in evs:
        ctx.signatures.add((e["e"], e.get("kind"), e.get("path"), e.get("inName"), e.get("decrypt"), e.get("getkey")))
    ctx.samples = [e for e in evs if e["e"] == "tamper" and e["decrypt"] == "original"][:2] + [e for e in evs if e["e"] == "tamper" and e["decrypt"] == "error"][:3] + evs[:2]
    if v.accepted:
        ctx.traces_validated += 1
    else:
        line = v.line or 0
        ev = evs[line - 1] if 0 < line <= len(evs) else {}
        meta = os.path.join(ctx.work, "meta.json")
        json.dump({"seed": ctx.seed, "tier": ctx.tier, "line": line, "invariant": v.violated}, open(meta, "w"))
        ctx.violation("KeystoreTrace invariant %s false at trace line %s: %s" % (v.violated, line, json.dumps(ev)[:500]), ctx.save_replay("trace", [trace, meta]))
    ctx.assumptions = ["light scrypt (N=2, P=1) and pbkdf2 (c=8) parameters keep every alteration cheap; the decision logic does not depend on the cost parameters",
                       "outcome 'original' = same private scalar and same address as the stored key"]
    vlib.write_evidence(ctx, rule="3 (quick) / 60 (thorough) files x every position x {substitution, deletion, duplication}; distinct = distinct (event, alteration kind, JSON path, "
        "in-key-name, DecryptKey outcome, GetKey outcome)")
