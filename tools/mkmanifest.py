#!/usr/bin/env python3
"""Regenerate MANIFEST.json from checks/registry.json (single source of truth for claimed checks)."""
import json, os
V = os.path.dirname(os.path.dirname(os.path.abspath(__file__)))
reg = json.load(open(os.path.join(V, "checks", "registry.json")))
props = [json.loads(l) for l in open(os.path.join(V, "properties.jsonl"))]
checks, na = [], []
for p in props:
    pid = p["id"]
    r = reg["claimed"].get(pid)
    if r:
        checks.append({
            "property_id": pid,
            "quick_cmd": "bin/check %s --tier quick" % pid,
            "thorough_cmd": "bin/check %s --tier thorough" % pid,
            "evidence_file": "/verif/evidence/%s.json" % pid,
            "replay_cmd_template": "bin/check %s --replay {path}" % pid,
            "engine": "tlc",
            "level_claimed": {"category": "model_checking", "text": r["text"], "design_ref": r.get("design_ref", "")},
            "level_note": r["note"],
            "technique": r["technique"],
        })
    else:
        na.append({"property_id": pid, "reason": reg["not_claimed"].get(pid, "check not built yet (in progress); see DESIGN.md section 12")})
m = {
    "version": 1,
    "setup_cmd": "bin/setup",
    "hooks": {
        "guard": "verif",
        "enable": "go test -tags verif (the checks add in-package harness files with `go test -overlay`, nothing is written into /repo)",
        "baseline_off_cmd": "cd /repo && GOFLAGS=-mod=mod GOPROXY=off go test -vet=off -count=1 -timeout 25m ./...",
        "source_commits": reg["hook_commits"],
        "add_only": True,
    },
    "engines": [{"name": "tlc", "path": "/opt/veriftools/tla/tla2tools.jar", "serves_properties": sorted(reg["claimed"].keys()),
                 "kind_free_text": "TLA+ specifications under /verif/specs checked with TLC: exhaustive model configs + trace validation of ndjson traces recorded from in-package Go harnesses (go test -overlay -tags verif)"}],
    "checks": checks,
    "not_applicable": na,
    "notes": reg.get("notes", ""),
}
json.dump(m, open(os.path.join(V, "MANIFEST.json"), "w"), indent=1)
print("claimed:", len(checks), "not claimed:", len(na))
