#!/usr/bin/env python3
"""Print the prompt given to an independent mutation sub-agent for property <id> (n variants)."""
import json, sys
pid = sys.argv[1]; n = sys.argv[2] if len(sys.argv) > 2 else "2"
wt = sys.argv[3] if len(sys.argv) > 3 else f"/tmp/wt-{pid}"
p = [json.loads(l) for l in open('/verif/properties.jsonl') if json.loads(l)['id'] == pid][0]
print(f"""You are helping test a verification effort by producing realistic *defective variants* of a Go code base.

Code base: aquachain (a go-ethereum 1.8-derived full node). You have your own scratch git worktree at {wt} (a checkout of the pinned commit). Work ONLY inside {wt} (and /tmp/mut-{pid} for your outputs). Do NOT read or write /verif or /repo.

Go environment (no network): run every go command as
  cd {wt} && GOFLAGS=-mod=mod GOPROXY=off go test -vet=off -count=1 ./core/...   (for example)
(The default `go` switches to the cached go1.24.0 toolchain automatically; do not set GOTOOLCHAIN.)

The semantic property under test ({p['id']}: {p['title']}):
---
{p['statement']}
---
Quantifier: {p['quantifier']['text']}
Anchored in: {', '.join(p['anchors']['files'])}

Task: produce {n} DIFFERENT, independent changes (each a separate small patch against the pinned commit) to the non-test Go source that each BREAK this property, while the code still compiles (`go build ./...`) and the EXISTING tests of the touched package(s) and of the packages that directly exercise them still pass (run them and confirm; e.g. for core changes run ./core/... ./aqua/... ./opt/miner/... ; do not edit or delete existing tests).
Prefer changes that look like plausible programmer mistakes or "optimisations", and that need something specific to manifest: a particular interleaving, a crash or fault at a particular point, a multi-step sequence of operations, an unusual input/boundary value, or two cooperating sites that each look fine alone. Do NOT make changes that ordinary use would expose at once (e.g. every block import failing), and do not add obviously artificial triggers such as magic constants/addresses or environment variables.

For each change k = 1..{n} write into /tmp/mut-{pid}/m<k>/ :
  - patch.diff   : `git diff` of the change against the pinned commit (only non-test source files of the repository), applying cleanly with `git apply` at the repository root
  - demo_test.go (or demo/main.go): a demonstration - a Go test (state its package directory in meta.json; it is copied into that directory to run) or a small program - that FAILS with the change applied and PASSES without it, and that demonstrates the property violation (not just a changed internal detail)
  - meta.json    : {{"property": "{pid}", "summary": "...what was changed...", "needs": "...what specific condition it needs in order to manifest...", "demo_pkg_dir": "core", "demo_run": "exact command to run the demo", "tests_run": "exact test commands you ran with the change applied, and that they passed"}}
Never use `git stash` (it is shared between worktrees). After producing each patch, `git checkout -- .` (and remove your demo file from the tree) so the worktree is clean before the next one; verify the demonstration passes on the clean tree and fails with the patch. Leave the worktree clean at the end.
Finish with a short report listing, for each change, the files touched and a one-paragraph description. Be efficient: do not run the entire repository test suite, only the relevant packages (use -timeout 10m).""")
