#!/bin/sh
# tools/mutant_run.sh <seeded-dir> <pid> [tier]  : apply patch to /repo, run the check, undo. Prints the verdict lines.
d=$1; pid=$2; tier=${3:-quick}
cd /repo || exit 2
if ! git apply --check "/verif/$d/patch.diff" 2>/dev/null; then echo "PATCH-DOES-NOT-APPLY $d"; exit 3; fi
git apply "/verif/$d/patch.diff"
cd /verif && bin/check $pid --tier $tier 2>&1 | grep -E "VIOLATION|detail:|RESULT|INFRA|KNOWN" | cut -c1-400
git -C /repo checkout -- . ; git -C /repo status --short | grep -v '^??' 
