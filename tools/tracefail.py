#!/usr/bin/env python3
"""tracefail.py <trace.ndjson> <line>: show the event at <line> and what changed in obs since the previous line."""
import json, sys
evs = [json.loads(x) for x in open(sys.argv[1])]
l = int(sys.argv[2])
b = evs[l - 1]
print("line", l, {k: b[k] for k in b if k != 'obs'})
if l >= 2 and 'obs' in b and 'obs' in evs[l - 2]:
    a = evs[l - 2]
    for k in b['obs']:
        if a['obs'].get(k) != b['obs'][k]:
            print("  ", k, a['obs'].get(k), '->', b['obs'][k])
trees = [e for e in evs[:l] if e['e'] == 'tree']
if trees:
    t = trees[-1]
    print("tree", t.get('name'), t.get('cfg'))
    for x in t['blocks']:
        print("   ", x['id'], x['parent'], x['num'], x['diff'], x['txs'], '' if x['valid'] else 'INVALID:' + x.get('corrupt', ''))
runs = [ (i,e) for i,e in enumerate(evs[:l]) if e['e'] == 'run']
if runs:
    i, r = runs[-1]
    print("run", r.get('mode'), r.get('label'), "ops since run:")
    for e in evs[i+1:l]:
        print("   ", e.get('op'), e.get('blocks'), e.get('n', ''), e.get('err'), e.get('idx'), "head=", e['obs']['head'], "hhead=", e['obs']['hhead'])
