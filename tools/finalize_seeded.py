#!/usr/bin/env python3
"""Assemble /verif/seeded/<id>/ (patch.diff, demo_test.go, meta.json) from seeded/incoming + confirm.json + matrix.json, and seeded/README.md."""
import json, os, re, shutil, glob
V = os.path.dirname(os.path.dirname(os.path.abspath(__file__)))
S = os.path.join(V, "seeded")
confirm = json.load(open(os.path.join(S, "confirm.json")))
matrix = json.load(open(os.path.join(S, "matrix.json"))) if os.path.exists(os.path.join(S, "matrix.json")) else {}
rows = []
dropped = []
for d in sorted(glob.glob(os.path.join(S, "incoming", "*"))):
    mid = os.path.basename(d)
    meta = json.load(open(os.path.join(d, "meta.json")))
    c, m = confirm.get(mid, {}), matrix.get(mid, {})
    ok = c.get("applies") and c.get("builds") and c.get("demo_with_patch") == "FAIL" and c.get("demo_without_patch") == "PASS" and not c.get("baseline_failures_with_patch")
    out = os.path.join(S, mid)
    shutil.rmtree(out, ignore_errors=True)
    if not ok:
        dropped.append((mid, meta.get("summary", "").split(":")[0][:60], "applies=%s builds=%s demo with patch=%s, without=%s, baseline failures with patch=%s" % (
            c.get("applies"), c.get("builds"), c.get("demo_with_patch"), c.get("demo_without_patch"), c.get("baseline_failures_with_patch"))))
        continue
    os.makedirs(out)
    shutil.copy(os.path.join(d, "patch.diff"), out)
    shutil.copy(os.path.join(d, "demo_test.go"), out)
    mm = re.search(r"cp \S*demo_test\.go (\S+) && (.*?go test.*?\./\S+)", meta.get("demo_run", ""))
    dest, cmd = (mm.group(1), re.sub(r"\(.*$", "", mm.group(2)).strip()) if mm else ("", "")
    dest = re.sub(r"^/tmp/wt2?-C\d+/", "", dest)
    cmd = re.sub(r"cd /tmp/\S+ && ", "", cmd)
    new = {
        "id": mid, "property": meta.get("property", mid.split("-")[0]),
        "summary": meta.get("summary", ""), "needs": meta.get("needs", ""),
        "origin": "written by a sub-agent that was given only the property text and a scratch worktree of /repo (nothing from /verif)",
        "demonstration": {"file": "demo_test.go", "copy_to": dest, "run": "cd <worktree of /repo> && cp /verif/seeded/%s/demo_test.go %s && %s" % (mid, dest, cmd),
                          "expected": "FAIL with patch.diff applied, PASS without"},
        "sub_agent_report": meta.get("tests_run", ""),
        "confirmed_by_me": {"how": "tools/confirm_mutants.py in a fresh worktree of /repo HEAD %s: git apply, go build ./..., demonstration with the patch, "
                                   "`go test` of the touched packages compared with the baseline list, demonstration without the patch" % c.get("head", "?"),
                            "applies": c.get("applies"), "builds": c.get("builds"), "demo_with_patch": c.get("demo_with_patch"),
                            "demo_without_patch": c.get("demo_without_patch"), "baseline_failures_with_patch": c.get("baseline_failures_with_patch"),
                            "packages_tested": c.get("packages_tested"), "valid": bool(ok)},
        "check": {"command": "bin/check %s --tier quick" % mid.split("-")[0], "caught": m.get("caught"), "exit": m.get("exit"),
                  "first_violated": m.get("invariant"), "detail": m.get("detail", "")[:300]},
    }
    notes = {"C20-m2": "No longer a property-breaking change: since fix 60b8034 DecryptKey itself compares the decrypted key with the file's address, so removing the same comparison from GetKey changes nothing observable. Kept as a record only.",
             "C04-m1": "Rebased onto the repaired head write (the original swapped the two puts of a plain extension, which is now one batch); the demonstration was extended with a reorganisation so that BlockChain.insert is exercised.",
             "C03-m1": "Rebased twice onto the repaired reorg code.", "C03-m2": "Rebased onto the repaired reorg code.", "C20-m1": "Rebased onto the repaired DecryptKey."}
    if mid in notes:
        new["note"] = notes[mid]
    json.dump(new, open(os.path.join(out, "meta.json"), "w"), indent=1)
    rows.append((mid, new["summary"].split(":")[0][:60], "yes" if ok else "NO", "yes" if m.get("caught") else ("no" if m else "?"), m.get("invariant", "")))
with open(os.path.join(S, "README.md"), "w") as f:
    f.write("# Seeded changes\n\nEach directory holds one realistic change to aquachain that compiles, passes the repository's tests and breaks the named property:\n"
            "`patch.diff`, the demonstration (`demo_test.go`, fails with the patch, passes without) and `meta.json` (what it does, what input it needs, what was run).\n"
            "Apply with `git -C /repo apply /verif/seeded/<id>/patch.diff`, run `bin/check <property> --tier quick`, undo with `git -C /repo checkout -- .`\n"
            "(`tools/mutant_run.sh seeded/<id> <property>` does the three steps; `tools/mutant_matrix.py` does it for all in scratch worktrees via `VERIF_REPO`).\n\n"
            "| id | where | confirmed (applies, builds, demo fails/passes, baseline ok) | caught by quick check | first violated invariant |\n|---|---|---|---|---|\n")
    for r in rows:
        f.write("| %s | %s | %s | %s | %s |\n" % r)
    f.write("\nNot kept (could not be confirmed on the current tree):\n\n")
    why = {"C20-m2": "since fix 60b8034 `DecryptKey` itself compares the decrypted key with the file's address, so removing the same comparison from `GetKey` changes nothing observable"}
    for mid, where, what in dropped:
        f.write("* %s (%s): %s. %s\n" % (mid, where, what, why.get(mid, "")))
print(len(rows), "seeded dirs written;", sum(1 for r in rows if r[2] == "yes"), "confirmed,", sum(1 for r in rows if r[3] == "yes"), "caught")
