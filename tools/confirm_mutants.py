#!/usr/bin/env python3
"""Confirm every candidate change under seeded/incoming in a scratch worktree of /repo's HEAD:
  applies, builds, the demonstration FAILS with it and PASSES without it, and the baseline tests of the touched packages
  still pass with it.  Writes seeded/confirm.json.  Worktrees live under /tmp and are removed afterwards."""
import json, os, re, subprocess, sys, shutil, glob
from concurrent.futures import ThreadPoolExecutor
V = os.path.dirname(os.path.dirname(os.path.abspath(__file__)))
ENV = dict(os.environ, GOFLAGS="-mod=mod", GOPROXY="off", GONOSUMDB="*")
ENV.pop("GOSUMDB", None)
for k in list(ENV):
    if k.startswith("UNSAFE_"):
        ENV.pop(k)
BASE = set(json.load(open("/root/.vp/BASELINE.json"))["stable_pass"])
if not BASE:
    b = json.load(open("/root/.vp/BASELINE.json"))
    for k, v in b.items():
        if isinstance(v, list) and v and isinstance(v[0], str) and "::" in v[0]:
            BASE = set(v)

def sh(cmd, cwd, timeout=1800):
    try:
        p = subprocess.run(cmd, cwd=cwd, env=ENV, shell=isinstance(cmd, str), stdout=subprocess.PIPE, stderr=subprocess.STDOUT, text=True, errors="replace", timeout=timeout)
        return p.returncode, p.stdout
    except subprocess.TimeoutExpired:
        return 124, "TIMEOUT"

def one(d):
    mid = os.path.basename(d)
    meta = json.load(open(os.path.join(d, "meta.json")))
    wt = "/tmp/cm-" + mid
    res = {"id": mid}
    sh(["git", "-C", "/repo", "worktree", "remove", "--force", wt], "/")
    shutil.rmtree(wt, ignore_errors=True)
    rc, out = sh(["git", "-C", "/repo", "worktree", "add", "--detach", wt, "HEAD"], "/")
    if rc != 0:
        res["error"] = "worktree: " + out[-300:]
        return res
    try:
        res["head"] = sh(["git", "rev-parse", "--short", "HEAD"], wt)[1].strip()
        rc, out = sh(["git", "apply", os.path.join(d, "patch.diff")], wt)
        res["applies"] = rc == 0
        if rc != 0:
            res["error"] = out[-300:]
            return res
        rc, out = sh("go build ./... 2>&1 | grep -v 'duk_\\|sprintf\\|comp\\.\\|~~~\\|\\^\\|go-duktape' | tail -5", wt)
        res["builds"] = "error" not in out.lower() and rc == 0
        run = meta.get("demo_run", "")
        m = re.search(r"cp \S*demo_test\.go (\S+) && (.*?go test.*?\./\S+)", run)
        if not m:
            res["error"] = "cannot parse demo_run"
            return res
        dest, cmd = m.group(1), m.group(2)
        dest = re.sub(r"^/tmp/wt[23]?-C\d+/", "", dest)            # sub-agents sometimes name their own worktree
        cmd = re.sub(r"\(.*$", "", cmd).strip()
        cmd = re.sub(r"cd /tmp/\S+ && ", "", cmd)
        pkgs = sorted({os.path.dirname(l[6:].strip()) for l in open(os.path.join(d, "patch.diff")) if l.startswith("+++ b/")})
        def demo():
            shutil.copy(os.path.join(d, "demo_test.go"), os.path.join(wt, dest))
            rc, out = sh(cmd, wt, 1500)
            os.remove(os.path.join(wt, dest))
            return rc, out
        rc, out = demo()
        res["demo_with_patch"] = "FAIL" if rc != 0 else "PASS"
        res["demo_with_patch_tail"] = out[-600:]
        # baseline tests of the touched packages
        fails = []
        for p in pkgs:
            rc, out = sh("go test -vet=off -count=1 -timeout 25m -v ./%s/ 2>&1 | grep -E '^(--- FAIL|FAIL|ok|panic)'" % p, wt, 1800)
            mod = "gitlab.com/aquachain/aquachain/" + p
            for t in re.findall(r"^--- FAIL: (\S+)", out, re.M):
                if ("%s::%s" % (mod, t)) in BASE:
                    fails.append("%s::%s" % (p, t))
            if "panic" in out and "--- FAIL" not in out:
                fails.append(p + "::panic")
        res["baseline_failures_with_patch"] = fails
        res["packages_tested"] = pkgs
        sh(["git", "checkout", "--", "."], wt)
        rc, out = demo()
        res["demo_without_patch"] = "FAIL" if rc != 0 else "PASS"
        if rc != 0:
            res["demo_without_patch_tail"] = out[-600:]
    finally:
        sh(["git", "-C", "/repo", "worktree", "remove", "--force", wt], "/")
        shutil.rmtree(wt, ignore_errors=True)
    print(mid, {k: v for k, v in res.items() if not k.endswith("_tail")}, flush=True)
    return res

dirs = sorted(glob.glob(os.path.join(V, "seeded", "incoming", "*")))
if len(sys.argv) > 1:
    dirs = [d for d in dirs if os.path.basename(d) in sys.argv[1:]]
with ThreadPoolExecutor(4) as ex:
    results = list(ex.map(one, dirs))
outp = os.path.join(V, "seeded", "confirm.json")
old = json.load(open(outp)) if os.path.exists(outp) else {}
for r in results:
    old[r["id"]] = r
json.dump(old, open(outp, "w"), indent=1)
