#!/usr/bin/env python3
"""Run the quick check of every candidate's property against a scratch worktree of /repo's HEAD with the change applied
(VERIF_REPO points the check at the worktree; /repo itself stays untouched).  Writes seeded/matrix.json."""
import json, os, re, subprocess, sys, shutil, glob
from concurrent.futures import ThreadPoolExecutor
V = os.path.dirname(os.path.dirname(os.path.abspath(__file__)))

def sh(cmd, cwd="/", env=None, timeout=3600):
    p = subprocess.run(cmd, cwd=cwd, env=env, stdout=subprocess.PIPE, stderr=subprocess.STDOUT, text=True, errors="replace", timeout=timeout)
    return p.returncode, p.stdout

def one(d):
    mid = os.path.basename(d)
    pid = mid.split("-")[0]
    wt = "/tmp/mm-" + mid
    sh(["git", "-C", "/repo", "worktree", "remove", "--force", wt]); shutil.rmtree(wt, ignore_errors=True)
    rc, out = sh(["git", "-C", "/repo", "worktree", "add", "--detach", wt, "HEAD"])
    res = {"id": mid, "property": pid}
    try:
        rc, out = sh(["git", "apply", os.path.join(d, "patch.diff")], wt)
        if rc != 0:
            res["error"] = "patch does not apply"
            return res
        env = dict(os.environ, VERIF_REPO=wt)
        rc, out = sh([os.path.join(V, "bin", "check"), pid, "--tier", "quick"], V, env)
        res["exit"] = rc
        m = re.search(r"detail: (.*)", out)
        res["detail"] = m.group(1)[:400] if m else ""
        mi = re.search(r"invariant (\w+) false", out)
        res["invariant"] = mi.group(1) if mi else ("race detector" if "race detector" in out else "")
        res["caught"] = rc == 1 and "VIOLATION property=" + pid in out
        if rc == 2:
            res["infra"] = out[-500:]
    finally:
        sh(["git", "-C", "/repo", "worktree", "remove", "--force", wt]); shutil.rmtree(wt, ignore_errors=True)
    print(mid, res.get("exit"), res.get("caught"), res.get("invariant"), flush=True)
    return res

dirs = sorted(glob.glob(os.path.join(V, "seeded", "incoming", "*")))
if len(sys.argv) > 1:
    dirs = [d for d in dirs if os.path.basename(d) in sys.argv[1:]]
with ThreadPoolExecutor(3) as ex:
    results = list(ex.map(one, dirs))
outp = os.path.join(V, "seeded", "matrix.json")
old = json.load(open(outp)) if os.path.exists(outp) else {}
for r in results:
    old[r["id"]] = r
json.dump(old, open(outp, "w"), indent=1)
